package xenum

type Colour int

const (
	ColourRed Colour = iota
	ColourOrange
	ColourYellow
	ColourGreen
	ColourBlue
	ColourIndigo
	ColourViolet
)
