package xenum

type Colour int

const (
	ColourRed Colour = iota
	ColourOrange
	ColourYellow
	ColourGreen
	ColourBlue
	ColourIndigo
	ColourViolet
)

type Weekday string

const (
	WeekdayMon Weekday = "mon"
	WeekdayTue Weekday = "tue"
	WeekdayWed Weekday = "wed"
	WeekdayThu Weekday = "thu"
	WeekdayFri Weekday = "fri"
	WeekdaySat Weekday = "sat"
	WeekdaySun Weekday = "sun"
)
