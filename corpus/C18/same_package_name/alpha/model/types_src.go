package model

type Customer struct {
	ID   string
	Name string
}

