package audit

type Audit struct {
	ID   string
	Note *string
}
