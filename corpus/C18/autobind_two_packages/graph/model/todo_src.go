package model

// hand-written: the user is loaded lazily, so the model only carries its id
type Todo struct {
	ID     string
	Text   string
	Done   bool
	UserID string
}
