// Package model holds the hand-written Go types the schema is bound to.
package model

// Cursor is the Go type of the GraphQL scalar Cursor (a named string).
type Cursor string

// Todo is the Go type of the GraphQL object Todo.
type Todo struct {
	ID    string
	Text  string
	After *Cursor
}

// Page returns the items that follow the given position. It is generic over the cursor representation and its type
// parameter is called Cursor too; inside Page that name shadows the package-level type.
func Page[Cursor ~string](items []Todo, after Cursor) []Todo {
	for i := range items {
		if items[i].ID == string(after) {
			return items[i+1:]
		}
	}
	return nil
}
