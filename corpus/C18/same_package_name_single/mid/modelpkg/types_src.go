package model

type Parcel struct {
	ID   string
	Name string
}

