package model

type Invoice struct {
	ID   string
	Name string
}

