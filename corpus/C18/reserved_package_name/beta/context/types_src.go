package context

type Stamp struct {
	ID   string
	Name string
}

