package ast

type Node struct {
	ID   string
	Name string
}

