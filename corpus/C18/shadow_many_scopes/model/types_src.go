package model

type Order struct {
	ID   string
	Name string
	Rank int
}

type Basket struct {
	ID   string
	Name string
	Rank int
}

type Token string

// type parameter of a generic type, of a func; parameter, receiver, label, local const, type switch, closure parameter
type Box[Order any] struct{ V Order }

func First[Basket any](xs []Basket) (Basket, bool) {
	var z Basket
	if len(xs) > 0 {
		return xs[0], true
	}
	return z, false
}

func Conv[Token ~string](v Token) string { return string(v) }

func rank(Order int) int { return Order + 1 }

type counter struct{ N int }

func (Basket counter) Get() int { return Basket.N }

func loop() int {
	n := 0
Order:
	for {
		n++
		if n > 2 {
			break Order
		}
	}
	return n
}

func limit() int {
	const Token = 3
	return Token
}

func kind(x any) int {
	switch Basket := x.(type) {
	case int:
		return Basket
	}
	return 0
}

var Double = func(Token int) int { return Token * 2 }

// scope-less namesakes: a struct field and a method
type Holder struct{ Order string }

type Owner struct{}

func (Owner) Basket() string { return "m" }
