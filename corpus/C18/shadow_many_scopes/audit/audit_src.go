package audit

type Entry struct {
	ID   string
	Name string
	Rank int
}

func Describe(Entry string) (MarshalEntry string) {
	MarshalEntry = Entry
	return
}

func Local() int {
	Entry := 4
	return Entry
}
