package domain

type Todo struct {
	ID   string
	Text string
	Done bool
}

type User struct {
	ID   string
	Name string
}

// Snapshot declares a function-local type called Todo and a local called MarshalUser.
func Snapshot(t Todo) any {
	type Todo struct {
		ID   string
		Seen bool
	}
	MarshalUser := func() string { return t.ID }
	return Todo{ID: MarshalUser(), Seen: true}
}

// Count has a named result called User.
func Count(us []User) (User int) {
	User = len(us)
	return
}
