package xenum

type Weekday string

const (
	WeekdayMon Weekday = "mon"
	WeekdayTue Weekday = "tue"
	WeekdayWed Weekday = "wed"
	WeekdayThu Weekday = "thu"
	WeekdayFri Weekday = "fri"
	WeekdaySat Weekday = "sat"
	WeekdaySun Weekday = "sun"
)
