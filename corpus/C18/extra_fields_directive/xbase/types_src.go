package xbase

type Audit struct {
	By string
	At int64
}

type Tenant struct {
	ID string
}
