"""C13 evaluated directly on an implementation's payload sequence: merge initial + incremental payloads in
ARRIVAL order at their paths and compare with the plain (no @defer) execution of the same operation."""
import json


def locate(root, path):
    cur = root
    if path == "":
        return cur
    for seg in path.split("/"):
        if isinstance(cur, dict):
            if seg not in cur:
                return None
            cur = cur[seg]
        elif isinstance(cur, list):
            if not seg.isdigit() or int(seg) >= len(cur):
                return None
            cur = cur[int(seg)]
        else:
            return None
    return cur


def under(prefix, path):
    return prefix == "" or path == prefix or path.startswith(prefix + "/")


def eq_mod_cut(m, p, path, failed):
    """merged m equals plain p, except that below a position where plain is null, merged may still
    hold the object a FAILED deferred group belongs to (propagation stops at that object)"""
    if p is None and m is not None:
        return any(under(path, f) for f in failed)
    if isinstance(p, dict):
        if not isinstance(m, dict) or list(m.keys()) != list(p.keys()):
            return False
        return all(eq_mod_cut(m[k], p[k], (path + "/" + k) if path else k, failed) for k in p)
    if isinstance(p, list):
        if not isinstance(m, list) or len(m) != len(p):
            return False
        return all(eq_mod_cut(a, b, (path + "/" + str(i)) if path else str(i), failed) for i, (a, b) in enumerate(zip(m, p)))
    if m is None and p is not None:
        # a placeholder of a failed group: the plain run cannot have a value here unless the failure did not happen there
        return False
    return m == p


def apply(merged, p):
    obj = locate(merged, p.get("path", "")) if merged is not None else None
    if not isinstance(obj, dict):
        return False
    if isinstance(p["data"], dict):
        for k, v in p["data"].items():
            obj[k] = json.loads(json.dumps(v))   # never alias the payload's own structures
    return True


def check(payloads, plain_payloads):
    """returns list of violated clauses (strings); empty = C13 holds on this case.
    Ordering clauses are reported as
      child-group-before-parent-group : the payload's object is delivered by a LATER incremental payload
      orphan-payload-object-nulled    : the payload's object was removed from the initial payload by
                                        null propagation (it is null in the plain result too) yet the
                                        group is still delivered"""
    bad = []
    if not payloads:
        return ["no-payload"]
    plain = plain_payloads[0] if plain_payloads else {"data": None, "errors": []}
    merged = json.loads(json.dumps(payloads[0]["data"]))
    failed = []
    seen = set()
    pending = []
    for i, p in enumerate(payloads[1:], 1):
        key = (p.get("path", ""), p.get("label", ""))
        if key in seen:
            bad.append("group-delivered-twice:%s" % (key,))
        seen.add(key)
        if p["data"] is None:
            failed.append(p.get("path", ""))
        if merged is None:
            continue      # initial data is null: nothing to merge into (compared with plain below)
        if not apply(merged, p):
            pending.append(p)
        elif isinstance(p["data"], dict):
            pass
        # a late parent may make earlier children applicable
        still = []
        for q in pending:
            if q is p:
                still.append(q)
                continue
            if apply(merged, q):
                bad.append("child-group-before-parent-group:%s" % ((q.get("path", ""), q.get("label", "")),))
            else:
                still.append(q)
        pending = still
    for q in pending:
        # never applicable: is the object really gone (null on the way) in the plain result as well?
        pobj = locate(plain["data"], q.get("path", "")) if plain["data"] is not None else None
        if pobj is None:
            bad.append("orphan-payload-object-nulled:%s" % ((q.get("path", ""), q.get("label", "")),))
        else:
            bad.append("payload-object-missing-but-present-in-plain:%s" % ((q.get("path", ""), q.get("label", "")),))
    # hasNext
    if len(payloads) > 1:
        for i, p in enumerate(payloads):
            want = i < len(payloads) - 1
            if p.get("hasNext") is not want:
                bad.append("hasNext-wrong-at-%d" % i)
    elif payloads[0].get("hasNext") is True:
        bad.append("hasNext-true-on-only-payload")
    if not eq_mod_cut(merged, plain["data"], "", failed):
        bad.append("merged-data-differs-from-plain")
    perr = sorted((e["path"], e["message"]) for e in plain["errors"])
    for p in payloads:
        for e in p["errors"]:
            t = (e["path"], e["message"])
            if t in perr:
                perr.remove(t)
            else:
                bad.append("error-not-in-plain:%s" % (t,))
    return bad
