"""Shared machinery for /verif/bin/check.

Everything a per-property check needs: tree hash of /repo, Go environment, regeneration of the
Lean `Gen/*.lean` files by the extractor, `lake build` + axiom audit of a property's theorems,
running the Go harness and the compiled Lean driver over the same cases, known-findings handling,
replay files, and the schema-valid evidence writer.
"""
import hashlib
import json
import os
import re
import subprocess
import sys
import time

VERIF = os.path.dirname(os.path.dirname(os.path.abspath(__file__)))
REPO = os.environ.get("VERIF_REPO", "/repo")
LEAN = os.path.join(VERIF, "lean")
GO = os.path.join(VERIF, "go")
CACHE = os.path.join(VERIF, ".cache")
EVID = os.path.join(VERIF, "evidence")
REPLAY = os.path.join(EVID, "replay")
ALLOWED_AXIOMS = {"propext", "Classical.choice", "Quot.sound"}
FORBIDDEN = re.compile(r"\bsorry\b|\badmit\b|^axiom |native_decide|bv_decide|implemented_by|\bunsafe |maxHeartbeats 0")

TRUSTED_BASE = [
    "Lean 4.33.0 kernel (leanchecker re-check in the thorough tier)",
    "axioms allowed in property theorems: propext, Classical.choice, Quot.sound (audited with #print axioms on every run)",
    "hand-written Lean models, tied to /repo by the differential correspondence run of this check",
    "go/extract (go/ast fact extractor regenerating lean/GqlgenVerif/Gen/*.lean on every run)",
    "Go harness under /verif/go, the line protocol and the Lean driver",
]


def log(*a):
    print(*a, file=sys.stderr, flush=True)


def sh(cmd, cwd=None, env=None, timeout=3600, inp=None):
    """Run a command, return (rc, stdout, stderr)."""
    e = dict(os.environ)
    if env:
        e.update(env)
    try:
        p = subprocess.run(cmd, cwd=cwd, env=e, input=inp, capture_output=True, text=True,
                           timeout=timeout, shell=isinstance(cmd, str))
        return p.returncode, p.stdout, p.stderr
    except subprocess.TimeoutExpired as ex:
        out = ex.stdout.decode() if isinstance(ex.stdout, bytes) else (ex.stdout or "")
        err = ex.stderr.decode() if isinstance(ex.stderr, bytes) else (ex.stderr or "")
        return 124, out, err + "\nTIMEOUT"


def go_env():
    # Default GOTOOLCHAIN (auto) is required: the default go switches offline to the cached
    # toolchain go.mod asks for. GOSUMDB=off / GOTOOLCHAIN=local break that switch.
    e = {"GOFLAGS": "-mod=mod", "GOPROXY": "off", "CGO_ENABLED": os.environ.get("CGO_ENABLED", "1")}
    for k in ("GOSUMDB", "GOTOOLCHAIN"):
        os.environ.pop(k, None)
    return e


def tree_hash():
    h = hashlib.sha256()
    roots = ["api", "codegen", "complexity", "graphql", "internal", "plugin", "go.mod"]
    for r in roots:
        p = os.path.join(REPO, r)
        if os.path.isfile(p):
            h.update(r.encode()); h.update(open(p, "rb").read()); continue
        for d, dirs, files in sorted(os.walk(p)):
            dirs.sort()
            if "/testdata" in d or "/out" in d or "/testserver" in d:
                continue
            for f in sorted(files):
                if f.endswith("_test.go"):
                    continue
                if f.endswith((".go", ".gotpl", ".graphql")):
                    fp = os.path.join(d, f)
                    h.update(os.path.relpath(fp, REPO).encode())
                    h.update(open(fp, "rb").read())
    return h.hexdigest()[:16]


class Violation(Exception):
    pass


class Ctx:
    def __init__(self, prop, tier, seed):
        self.prop = prop
        self.tier = tier
        self.seed = seed
        self.t0 = time.time()
        self.violations = []      # list of (replay_path, no_failing_input)
        self.known = []           # KNOWN-FINDING lines
        self.known_counts = {}
        self.cov = {}
        self.assumptions = []
        self.level = "proof"
        os.makedirs(CACHE, exist_ok=True)
        os.makedirs(REPLAY, exist_ok=True)
        self.findings = load_findings()

    # ---------------------------------------------------------------- Go side
    def sync_gosum(self):
        src = os.path.join(REPO, "go.sum")
        dst = os.path.join(GO, "go.sum")
        base = os.path.join(GO, "go.sum.extra")
        data = open(src).read()
        if os.path.exists(base):
            data += open(base).read()
        if not os.path.exists(dst) or open(dst).read() != data:
            open(dst, "w").write(data)

    def go_build(self, pkg, out, tags="verif", race=False, cwd=None):
        self.sync_gosum()
        cmd = ["go", "build", "-tags", tags]
        if race:
            cmd.append("-race")
        cmd += ["-o", out, pkg]
        rc, so, se = sh(cmd, cwd=cwd or GO, env=go_env(), timeout=1800)
        if rc != 0:
            raise RuntimeError("go build %s failed:\n%s%s" % (pkg, so, se))
        return out

    def extract(self, *names, arg=None):
        """Regenerate lean/GqlgenVerif/Gen/<name>.lean from /repo (old files deleted first)."""
        bin_ = os.path.join(CACHE, "extract")
        self.go_build("./extract", bin_)
        for n in names:
            os.makedirs(os.path.join(LEAN, "GqlgenVerif", "Gen"), exist_ok=True)
            target = os.path.join(LEAN, "GqlgenVerif", "Gen", n + ".lean")
            if os.path.exists(target):
                os.remove(target)
            cmd = [bin_, "-repo", REPO, "-what", n, "-out", target]
            if arg:
                cmd += ["-arg", arg]
            rc, so, se = sh(cmd, timeout=300)
            if rc != 0:
                # the extractor could not recognise the source shape: the regenerated tie is broken
                return self.broken_tie("extract:" + n, (so + se)[-4000:])
        return True

    def harness(self, name, args, race=False, timeout=3000, env=None):
        bin_ = os.path.join(CACHE, "h_" + name + ("_race" if race else ""))
        self.go_build("./harness/" + name, bin_, race=race)
        e = go_env()
        e["GOMEMLIMIT"] = "6GiB"
        if env:
            e.update(env)
        rc, so, se = sh([bin_] + [str(a) for a in args], cwd=GO, env=e, timeout=timeout)
        return rc, so, se

    # -------------------------------------------------------------- Lean side
    def prove(self, *modules, props=None):
        """lake build the property's modules + the driver; audit axioms of every theorem in the
        property's Props file(s). Failures are recorded in self.proof_failure; returns bool."""
        props = props or ["GqlgenVerif.Props." + self.prop]
        props_module = props[0]
        targets = list(modules) + list(props)
        rc, so, se = sh(["lake", "build"] + targets, cwd=LEAN, timeout=3000)
        self.build_log = so + se
        rcd, sod, sed = sh(["lake", "build", "driver_" + self.prop.lower()], cwd=LEAN, timeout=3000)
        self.driver_ok = rcd == 0
        if not self.driver_ok:
            self.driver_log = sod + sed
        thms = []
        for pm in props:
            thms += theorem_names(os.path.join(LEAN, pm.replace(".", "/") + ".lean"))
        self.cov["obligations"] = len(thms)
        self.cov["theorems"] = [t.split(".", 2)[-1] for t in thms]
        self.cov["checker_cmd"] = "cd /verif/lean && lake build %s && lake env lean <#print axioms of each theorem>%s" % (
            " ".join(props), " && lake env leanchecker " + " ".join(props) if self.tier == "thorough" else "")
        if rc != 0:
            self.cov["discharged"] = 0
            self.proof_failure = failing_decls(self.build_log)
            return False
        # forbidden tokens, in every module the property's theorems transitively import
        bad = []
        for fpath in import_closure(props):
            for i, line in enumerate(strip_comments(open(fpath).read()).split("\n")):
                if FORBIDDEN.search(line):
                    bad.append("%s:%d: %s" % (os.path.relpath(fpath, LEAN), i + 1, line.strip()))
        if bad:
            self.cov["discharged"] = 0
            self.proof_failure = ["forbidden token: " + b for b in bad]
            return False
        # axiom audit
        audit = os.path.join(CACHE, "Audit_%s.lean" % self.prop)
        with open(audit, "w") as f:
            for pm in props:
                f.write("import %s\n" % pm)
            for t in thms:
                f.write("#print axioms %s\n" % t)
        rc, so, se = sh(["lake", "env", "lean", audit], cwd=LEAN, timeout=1200)
        axioms = parse_axioms(so + se)
        okc = 0
        badax = []
        self.cov["axioms"] = {}
        for t in thms:
            ax = axioms.get(t)
            if ax is None:
                badax.append("%s: no axiom report" % t)
                continue
            self.cov["axioms"][t.split(".")[-1]] = sorted(ax)
            if set(ax) <= ALLOWED_AXIOMS:
                okc += 1
            else:
                badax.append("%s depends on %s" % (t, sorted(set(ax) - ALLOWED_AXIOMS)))
        self.cov["discharged"] = okc
        if badax or rc != 0:
            self.proof_failure = badax or [(so + se)[-2000:]]
            return False
        if self.tier == "thorough":
            rc, so, se = sh(["lake", "env", "leanchecker"] + list(props), cwd=LEAN, timeout=3000)
            self.cov["leanchecker"] = "ok" if rc == 0 else "FAILED"
            if rc != 0:
                self.proof_failure = ["leanchecker: " + (so + se)[-2000:]]
                return False
        self.proof_failure = None
        return True

    def driver(self, mode, lines, timeout=3000):
        """Pipe newline-separated inputs to the compiled Lean driver, return list of output lines."""
        name = mode if re.fullmatch(r"c\d\d", mode or "") else self.prop.lower()
        exe = os.path.join(LEAN, ".lake", "build", "bin", "driver_" + name)
        if name != self.prop.lower():
            # another property's model driver (e.g. C04 judging faults in deferred groups with the defer model)
            built = getattr(self, "_extra_drivers", {})
            if name not in built:
                rcd, sod, sed = sh(["lake", "build", "driver_" + name], cwd=LEAN, timeout=3000)
                built[name] = (rcd == 0, sod + sed)
                self._extra_drivers = built
            if not built[name][0]:
                raise RuntimeError("lean driver %s does not build:\n%s" % (name, built[name][1][-3000:]))
        elif not getattr(self, "driver_ok", False):
            raise RuntimeError("lean driver does not build against the regenerated Gen files:\n" + getattr(self, "driver_log", "")[-3000:])
        inp = "\n".join(lines) + "\n"
        rc, so, se = sh([exe], inp=inp, timeout=timeout)
        if rc != 0:
            raise RuntimeError("lean driver %s failed rc=%s: %s" % (mode, rc, se[-2000:]))
        out = so.split("\n")
        if out and out[-1] == "":
            out.pop()
        return out

    # ------------------------------------------------------------- reporting
    def replay_path(self, obj):
        blob = json.dumps(obj, sort_keys=True)
        hsh = hashlib.sha256(blob.encode()).hexdigest()[:12]
        p = os.path.join(REPLAY, "%s-%s.json" % (self.prop, hsh))
        with open(p, "w") as f:
            json.dump(obj, f, indent=1, sort_keys=True)
        return p

    def violation(self, obj, no_failing_input=False):
        """Record a violation unless it matches an open known finding."""
        kf = match_finding(self.findings, self.prop, obj)
        if kf is not None and not no_failing_input:
            line = "KNOWN-FINDING: property=%s %s" % (self.prop, kf["what"])
            if line not in self.known:
                self.known.append(line)
            self.known_counts[kf["id"]] = self.known_counts.get(kf["id"], 0) + 1
            return False
        obj = dict(obj)
        obj["property"] = self.prop
        obj["tree_hash"] = tree_hash()
        p = self.replay_path(obj)
        self.violations.append((p, no_failing_input))
        return True

    def broken_tie(self, what, detail):
        self.violation({"kind": "broken-tie", "what": what, "detail": detail}, no_failing_input=True)
        return False

    def known_finding(self, kf_id, observed=True):
        for k in self.findings.get("open", []):
            if k["id"] == kf_id and observed:
                line = "KNOWN-FINDING: property=%s %s" % (self.prop, k["what"])
                if line not in self.known:
                    self.known.append(line)
                return True
        return False

    def finish(self):
        wall = time.time() - self.t0
        cov = dict(self.cov)
        cov.setdefault("trusted_base", TRUSTED_BASE)
        cov.setdefault("samples", [])
        ev = {
            "property_id": self.prop,
            "tier": self.tier,
            "seed": self.seed,
            "level": self.level,
            "coverage": cov,
            "assumptions": self.assumptions,
            "wall_s": round(wall, 2),
            "violations": len(self.violations),
            "tree_hash": tree_hash(),
            "known_findings_observed": self.known,
            "known_findings_counts": self.known_counts,
        }
        os.makedirs(EVID, exist_ok=True)
        with open(os.path.join(EVID, self.prop + ".json"), "w") as f:
            json.dump(ev, f, indent=1, sort_keys=True, default=str)
        for k in self.known:
            print(k)
        seen = set()
        # a violation with a concrete failing input is printed before the ones that only name a broken obligation
        for p, nf in sorted(self.violations, key=lambda v: bool(v[1])):
            if p in seen or len(seen) >= 8:
                continue
            seen.add(p)
            print("VIOLATION property=%s replay=%s%s" % (self.prop, p, " no-failing-input-found" if nf else ""))
        sys.stdout.flush()
        return 1 if self.violations else 0


# ------------------------------------------------------------------ helpers

def strip_comments(src):
    # remove /- ... -/ (nested) and -- ... comments, keep line structure
    out = []
    i, depth, n = 0, 0, len(src)
    while i < n:
        if src.startswith("/-", i):
            depth += 1; i += 2; continue
        if depth and src.startswith("-/", i):
            depth -= 1; i += 2; continue
        if depth:
            if src[i] == "\n":
                out.append("\n")
            i += 1; continue
        if src.startswith("--", i):
            while i < n and src[i] != "\n":
                i += 1
            continue
        if src[i] == '"':
            j = i + 1
            while j < n and src[j] != '"':
                j += 2 if src[j] == "\\" else 1
            out.append('""'); i = j + 1; continue
        out.append(src[i]); i += 1
    return "".join(out)


def import_closure(modules):
    """files of every GqlgenVerif module transitively imported by `modules`"""
    seen, todo, files = set(), list(modules), []
    while todo:
        m = todo.pop()
        if m in seen or not m.startswith("GqlgenVerif."):
            continue
        seen.add(m)
        f = os.path.join(LEAN, m.replace(".", "/") + ".lean")
        if not os.path.exists(f):
            continue
        files.append(f)
        for line in open(f):
            mm = re.match(r"\s*import\s+(\S+)", line)
            if mm:
                todo.append(mm.group(1))
    return files


def theorem_names(path):
    """Fully-qualified names of every `theorem` in a Props file (namespace-aware, simple)."""
    src = strip_comments(open(path).read())
    ns = []
    names = []
    for line in src.split("\n"):
        m = re.match(r"\s*namespace\s+(\S+)", line)
        if m:
            ns.append(m.group(1)); continue
        m = re.match(r"\s*end\s+(\S+)", line)
        if m and ns and ns[-1] == m.group(1):
            ns.pop(); continue
        m = re.match(r"\s*(?:@\[[^\]]*\]\s*)?(?:private\s+|protected\s+)?theorem\s+(\S+)", line)
        if m:
            names.append(".".join(ns + [m.group(1)]))
    return names


def parse_axioms(out):
    res = {}
    # "'Name' depends on axioms: [a, b]" or "'Name' does not depend on any axioms"
    for m in re.finditer(r"'([^']+)' depends on axioms: \[([^\]]*)\]", out, re.S):
        res[m.group(1)] = [a.strip() for a in m.group(2).replace("\n", " ").split(",") if a.strip()]
    for m in re.finditer(r"'([^']+)' does not depend on any axioms", out):
        res[m.group(1)] = []
    return res


def failing_decls(build_log):
    errs = []
    for m in re.finditer(r"error: ([^\n]*\.lean:\d+:\d+:[^\n]*(?:\n(?!error|warning|✖|ℹ|⚠)[^\n]*){0,6})", build_log):
        errs.append(m.group(1)[:800])
    return errs[:20] or [build_log[-3000:]]


def load_findings():
    p = os.path.join(VERIF, "known_findings.json")
    if os.path.exists(p):
        return json.load(open(p))
    return {"open": [], "fixed": []}


def match_finding(findings, prop, obj):
    """An open finding matches when every key of its `match` object equals the replay's `shape` entry."""
    shape = obj.get("shape") or {}
    for k in findings.get("open", []):
        if k["property"] != prop:
            continue
        m = k.get("match") or {}
        if m and all(shape.get(a) == b for a, b in m.items()):
            return k
    return None


class Rng:
    """splitmix64 - the single PRNG every Python-side random choice derives from."""
    def __init__(self, seed):
        self.s = seed & 0xFFFFFFFFFFFFFFFF

    def next(self):
        self.s = (self.s + 0x9E3779B97F4A7C15) & 0xFFFFFFFFFFFFFFFF
        z = self.s
        z = ((z ^ (z >> 30)) * 0xBF58476D1CE4E5B9) & 0xFFFFFFFFFFFFFFFF
        z = ((z ^ (z >> 27)) * 0x94D049BB133111EB) & 0xFFFFFFFFFFFFFFFF
        return z ^ (z >> 31)

    def below(self, n):
        return self.next() % n
