"""Generate gqlgen servers from /repo's CURRENT templates (api.Generate via /verif/go/gen) for a probe
schema x configuration matrix, build each one's runner (universal plan-driven resolvers), cached by
`vf.tree_hash()` so a change to /repo always regenerates and rebuilds."""
import os
import shutil
import time
import hashlib
from concurrent.futures import ThreadPoolExecutor

from lib import vf

BASE_YML = """schema:
  - "*.graphql"
exec:
{exec}
model:
  filename: models_gen.go
{extra}
"""

CONFIGS = {
    # name: (exec block, extra top-level yaml)
    "base": ("  filename: generated.go", ""),
    "follow": ("  layout: follow-schema\n  dir: .\n  package: {pkg}", ""),
    "funcsyn": ("  filename: generated.go", "use_function_syntax_for_execution_context: true"),
    "wl2": ("  filename: generated.go\n  worker_limit: 2", ""),
    "wl1": ("  filename: generated.go\n  worker_limit: 1", ""),
    "wl8": ("  filename: generated.go\n  worker_limit: 8", ""),
    "noptr": ("  filename: generated.go",
              "omit_slice_element_pointers: true\nresolvers_always_return_pointers: false\nstruct_fields_always_pointers: false"),
    "follow_funcsyn_wl2": ("  layout: follow-schema\n  dir: .\n  package: {pkg}\n  worker_limit: 2",
                           "use_function_syntax_for_execution_context: true"),
    "funcsyn_noptr_wl1": ("  filename: generated.go\n  worker_limit: 1",
                          "use_function_syntax_for_execution_context: true\nomit_slice_element_pointers: true"),
    "inputopts": ("  filename: generated.go",
                  "nullable_input_omittable: true\nreturn_pointers_in_unmarshalinput: true\ncall_argument_directives_with_null: true"),
}

QUICK = ["base", "follow_funcsyn_wl2", "noptr"]
THOROUGH = list(CONFIGS)


def _gen_bin(ctx):
    b = os.path.join(vf.CACHE, "gen")
    ctx.go_build("./gen", b)
    return b


def build_server(ctx, probe, cfg, allresolvers=True, race=False, extra_yml="", mixed=False):
    """returns path of the runner binary for (probe schema, config); raises RuntimeError with the
    generator / compiler output when generation or the build fails."""
    th = vf.tree_hash()
    probe_dir = os.path.join(vf.GO, "probes", probe)
    h = hashlib.sha256()
    for root, _, files in sorted(os.walk(probe_dir)):
        for f in sorted(files):
            h.update(open(os.path.join(root, f), "rb").read())
    for f in sorted(os.listdir(os.path.join(vf.GO, "universal"))) :
        if f.endswith(".go"):
            h.update(open(os.path.join(vf.GO, "universal", f), "rb").read())
    h.update(open(os.path.join(vf.GO, "gen/main.go"), "rb").read())
    h.update(repr(CONFIGS[cfg]).encode() + extra_yml.encode() + (b"mixed" if mixed else b""))
    if mixed:
        cfg_name = cfg + "_mixed"
    else:
        cfg_name = cfg
    gkey = "%s_%s_%s_%s" % (probe, cfg_name, th, h.hexdigest()[:8])
    mode = "race" if race else "plain"
    out = os.path.join(vf.CACHE, "srv_%s_%s_%s_%s_%s" % (mode, probe, cfg_name, th, h.hexdigest()[:8]))
    pkg = "%s_%s%s" % (probe, cfg, "_mixed" if mixed else "")
    d = os.path.join(vf.GO, "genout", pkg)
    stamp = os.path.join(d, ".verif_stamp")
    fresh = os.path.exists(stamp) and open(stamp).read() == gkey
    if os.path.exists(out) and fresh:
        return out
    if fresh:
        # generated code is current; only this build flavour is missing
        ctx.go_build("./genout/%s/cmd" % pkg, out, race=race)
        return out
    shutil.rmtree(d, ignore_errors=True)
    os.makedirs(d)
    for f in os.listdir(probe_dir):
        if f.endswith(".graphql") or f.endswith(".go"):
            shutil.copy(os.path.join(probe_dir, f), d)
        elif f.endswith(".go.tmpl"):
            # hand-written helper types of the probe; the package name differs per configuration
            open(os.path.join(d, f[:-5]), "w").write(open(os.path.join(probe_dir, f)).read().replace("PKGNAME", pkg))
    ex, extra = CONFIGS[cfg]
    pe = os.path.join(probe_dir, "extra.yml.tmpl")
    if os.path.exists(pe):
        # probe-specific top-level configuration (e.g. a hand-written scalar model of the probe's package)
        extra = extra + "\n" + open(pe).read().replace("PKGNAME", pkg)
    open(os.path.join(d, "gqlgen.yml"), "w").write(
        BASE_YML.format(exec=ex.format(pkg=pkg), extra=extra + "\n" + extra_yml))
    args = [_gen_bin(ctx), "-dir", d]
    if mixed:
        args.append("-mixed")
    elif allresolvers:
        args.append("-allresolvers")
    rc, so, se = vf.sh(args, cwd=vf.GO, env=vf.go_env(), timeout=900)
    if rc != 0:
        raise RuntimeError("generation failed for %s/%s:\n%s%s" % (probe, cfg, so[-3000:], se[-3000:]))
    ctx.go_build("./genout/%s/cmd" % pkg, out, race=race)
    open(stamp, "w").write(gkey)
    # drop stale binaries of other tree hashes for this (probe, cfg)
    for f in os.listdir(vf.CACHE):
        if (f.startswith("srv_plain_%s_%s_" % (probe, cfg_name)) or f.startswith("srv_race_%s_%s_" % (probe, cfg_name))) \
                and not f.endswith("%s_%s" % (th, h.hexdigest()[:8])) \
                and time.time() - os.path.getmtime(os.path.join(vf.CACHE, f)) > 1800:
            try:
                os.remove(os.path.join(vf.CACHE, f))
            except OSError:
                pass
    return out


def gen_dir(probe, cfg):
    """package directory of the server generated for (probe, cfg) on this run"""
    return os.path.join(vf.GO, "genout", "%s_%s" % (probe, cfg))


def build_matrix(ctx, probe, cfgs, **kw):
    """build several configs in parallel; returns {cfg: binary or RuntimeError}"""
    _gen_bin(ctx)
    ctx.sync_gosum()
    res = {}

    def one(c):
        try:
            return c, build_server(ctx, probe, c, **kw)
        except RuntimeError as e:
            return c, e

    with ThreadPoolExecutor(max_workers=6) as ex:
        for c, r in ex.map(one, cfgs):
            res[c] = r
    return res
