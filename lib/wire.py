"""Parsers for what a client of the streaming HTTP transports receives (used by C13 / C04 on real connections)."""
import json
import re


def parse_multipart(body, boundary="-"):
    """multipart/mixed as gqlgen writes it: `--<b>\\r\\nContent-Type: application/json\\r\\n\\r\\n<json>\\r\\n` ...
    `--<b>--\\r\\n`. Returns (parts, closed, problems)."""
    problems = []
    delim = "--" + boundary
    closed = body.rstrip("\r\n").endswith(delim + "--")
    chunks = re.split(r"(?:^|\r\n)" + re.escape(delim) + r"(?:--)?\r\n", body)
    parts = []
    for ch in chunks:
        if not ch.strip():
            continue
        if "\r\n\r\n" not in ch:
            problems.append("part without header/body separator: " + ch[:80])
            continue
        hdr, payload = ch.split("\r\n\r\n", 1)
        if "content-type: application/json" not in hdr.lower():
            problems.append("part header: " + hdr[:80])
        payload = payload.strip("\r\n")
        # the closing delimiter may follow the last payload directly
        if payload.endswith(delim + "--"):
            payload = payload[: -len(delim) - 2].rstrip("\r\n")
        try:
            parts.append(json.loads(payload))
        except ValueError:
            problems.append("part is not JSON: " + payload[:120])
    return parts, closed, problems


def parse_sse(body):
    """text/event-stream: returns (list of decoded `next` payloads, complete seen, complete is last, problems)"""
    problems = []
    events = []
    cur = {}
    for ln in body.split("\n"):
        if ln == "":
            if cur:
                events.append(cur)
                cur = {}
            continue
        if ln.startswith(":"):
            continue
        if ":" not in ln:
            problems.append("line is not a field: " + ln[:80])
            continue
        k, v = ln.split(":", 1)
        cur[k] = v[1:] if v.startswith(" ") else v
    if cur:
        events.append(cur)
    nexts = []
    complete_at = None
    for i, e in enumerate(events):
        if e.get("event") == "next":
            try:
                nexts.append(json.loads(e.get("data", "")))
            except ValueError:
                problems.append("next data is not JSON")
        elif e.get("event") == "complete":
            complete_at = i
        else:
            problems.append("unknown event " + str(e.get("event")))
    return nexts, complete_at is not None, complete_at == len(events) - 1, problems
