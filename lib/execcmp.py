"""Comparison of a generated server's result line with the Lean Exec model's line (C01 family)."""
import json


def impl_view(r):
    p = r["payloads"][0] if r["payloads"] else {"data": None, "errors": []}
    return {
        "data": p["data"],
        "errors": sorted(e["path"] + " :: " + e["message"] for e in p["errors"]),
        "invs": sorted(i["path"] + " " + i["hook"] for i in r["log"]),
        "recovers": r["recovers"],
    }


def compare(r, mline):
    """returns list of reasons (empty = corresponds)"""
    if not mline.startswith("{"):
        return ["model:" + mline[:60]]
    m = json.loads(mline)
    iv = impl_view(r)
    why = []
    if m["unlogged"]:
        why.append("model-invokes-unlogged")
    if m["invs"] != iv["invs"]:
        why.append("invocations")
    if m["errors"] != iv["errors"]:
        why.append("errors")
    if m["recovers"] != iv["recovers"]:
        why.append("recovers")
    return why, m, iv
