"""C10 - malformed client input gets a client error, never gqlgen's own panic path."""
import json
import os
import re
from collections import Counter
from lib import vf

DECLARED = {"a", "b", "file", "files", "req"}
DEFAULT_MAX = 32 << 20


def unhex(h):
    return "" if h == "-" else bytes.fromhex(h).decode("utf-8", "replace")


def subst(t, ups):
    if isinstance(t, dict):
        if set(t.keys()) == {"$u"}:
            v = t["$u"]
            return {"$u": ups.get(v, "?") if isinstance(v, int) else v}
        return {k: subst(v, ups) for k, v in t.items()}
    if isinstance(t, list):
        return [subst(x, ups) for x in t]
    return t


def au_norm(s):
    if s.startswith("ok "):
        try:
            return ("ok", json.loads(s[3:]))
        except Exception:
            return ("unparsable", s)
    f = s.split(" ")
    if f[0] == "panic":
        return tuple(f[:2])
    return tuple(f[:3])


def rs_op(o):
    """<reader>r<n> | <reader>s<whence>:<off>  ->  (reader, 'r'|'s', rest)"""
    m = re.match(r"(\d+)([rs])(.*)$", o)
    return int(m.group(1)), m.group(2), m.group(3)


def rs_op_text(o):
    k, kind, rest = rs_op(o)
    if kind == "r":
        return "reader %s: Read(buffer of %s bytes)" % (k, rest)
    w, off = rest.split(":")
    return "reader %s: Seek(%s, %s)" % (k, off, {"0": "io.SeekStart", "1": "io.SeekCurrent", "2": "io.SeekEnd"}.get(w, "whence " + w))


def rs_ans_text(a):
    if a == "P":
        return "PANIC inside the reader"
    if a == "x":
        return "an error"
    if a[0] == "a":
        return "position " + a[1:]
    if a[0] == "d":
        h, e = a[1:].rsplit(":", 1)
        n = 0 if h == "-" else len(h) // 2
        return "%d byte(s)%s, %s" % (n, "" if n == 0 or n > 16 else " " + h, {"e": "io.EOF", "n": "nil", "x": "another error"}.get(e, e))
    return a


def run(ctx):
    ctx.assumptions += [
        "encoding/json, mime/multipart, net/http (MaxBytesReader, MultipartReader), net/url, gorilla/websocket are library code: they enter the model as outcome classes (decode ok / null / error, MIME fault per part, byte offsets) computed by the harness with the same libraries",
        "strconv.Atoi is modelled (`atoi`: optional sign, ASCII digits, int64 range); tied by the path generator (signs, leading zeros, 2^63 boundaries, non-ASCII digits, separators) on every run",
        "os.CreateTemp / os.Open / Close failures are quantified over in the theorems (FsPlan); only CreateTemp failure (missing TMPDIR) is reproduced against the real code; os.Remove is assumed to succeed",
        "the closing-delimiter rule of mime/multipart under a read error (contentReadable) is modelled from observation and validated by sweeping MaxUploadSize over every byte offset of a body",
        "the websocket protocol state machine is C11's; here only the envelope decode of subscribe/start payloads is modelled, every other frame is checked against the Spec (no recover-hook call, well-formed frames, close or answer)",
    ]
    ctx.assumptions += [
        "gorilla/websocket refuses a close frame whose payload exceeds 125 bytes (status code included) and a gorilla client fails a connection whose close reason is not UTF-8: modelled (`WsClose.frame`), tied on every run by the `cf` rows (a bare gorilla server writing reasons of 0..200 bytes)",
        "operation ids reach wsConnection as valid UTF-8 (encoding/json substitutes U+FFFD): hypothesis of `protocol_close_well_formed`; the harness also sends invalid bytes in ids",
    ]
    ctx.assumptions += [
        "request histories: the library's verdict on a query string (gqlparser parser with the configured token limit, validator) and mapstructure's verdict on a persistedQuery extension enter the model `ReqHist` as classes computed by the harness with the same libraries; what reached CreateOperationContext is read off by a passive OperationParameterMutator installed first; the LRU is modelled (most recent first, eviction beyond the capacity) but the APQ store without eviction (histories stay below its 100 entries)",
    ]
    ctx.assumptions += [
        "what user code does with an upload's reader: os.File (the reader of a spilled upload) and bytes.Reader are library code; the Spec `ReadSeeker.stepSpec` is their semantics written down (file: a read into an empty buffer never reports EOF), tied on every run by replaying every script on a real bytes.Reader (oracle column) and on the real *os.File readers; int64 extremes and the Linux-only whence values 3/4 are sent to the in-memory reader only (what a file descriptor makes of them depends on the file system); the nil-slice guard of bytesReader is not modelled (the one construction site passes &fileBytes, checked by the extractor)",
        "server-initiated websocket closes: goroutines are modelled as threads performing writes through the regenerated write sites, c.mu as a mutex, gorilla's single-writer rule as 'never two threads inside a write' (Model/WsWriteLock); the lock state around each write is followed syntactically by go/extract/wswritelock.go (trusted); tied by the `wc` sessions (every close reason x 1-8 streaming subscriptions x frame sizes), which are scheduler-dependent: a lost race is not reproducible from the seed alone",
    ]
    ok_extract = ctx.extract("AddUploadGuards", "DecodeSites", "WsCloseReasons", "ParseGate", "ReaderFacts", "WsWriteLock")
    proved = bool(ok_extract) and ctx.prove(props=["GqlgenVerif.Props.C10", "GqlgenVerif.Props.C10Close", "GqlgenVerif.Props.C10Hist", "GqlgenVerif.Props.C10Reader", "GqlgenVerif.Props.C10Lock"])
    if ok_extract and not proved:
        ctx.cov["proof_failure"] = ctx.proof_failure

    rc, so, se = ctx.harness("c10", ["-tier", ctx.tier, "-seed", ctx.seed, "-corpus", os.path.join(vf.VERIF, "corpus", "C10")])
    if rc != 0:
        raise RuntimeError("harness failed: " + se[-2000:])
    rows = [l.split("\t") for l in so.split("\n") if l]
    kinds = Counter(r[0] for r in rows)

    model = None
    if ok_extract:
        try:
            model = ctx.driver("c10", [r[0] + " " + r[1] for r in rows])
            if len(model) != len(rows):
                raise RuntimeError("driver returned %d lines for %d cases" % (len(model), len(rows)))
        except Exception as ex:  # the regenerated Gen files no longer fit the model
            ctx.cov["driver_failure"] = str(ex)[-1500:]
            model = None

    # the Spec of a protocol close (`WsClose.specOk`) evaluated in Lean on what the implementation sent
    wl_spec = {}
    if model is not None:
        wl_rows = [i for i, r in enumerate(rows) if r[0] == "wl" and r[1].split(" ")[1] in ("dup", "dupq")]
        def obs_of(r):
            c = r[3]
            return c[6:] if c.startswith("close:") and c != "close:1006" else "dropped"
        try:
            outl = ctx.driver("c10", ["wlspec %s %s %s" % (rows[i][1].split(" ")[2], obs_of(rows[i]), rows[i][4]) for i in wl_rows])
            wl_spec = dict(zip(wl_rows, outl))
        except Exception as ex:
            ctx.cov["driver_failure"] = str(ex)[-1500:]

    # is the close the client got one of the regenerated close sites of run / closeOnCancel?
    wc_site = {}
    if model is not None:
        wc_rows = [i for i, r in enumerate(rows) if r[0] == "wc" and r[2].startswith("close:")]
        try:
            outl = ctx.driver("c10", ["wcsite %s %s" % (rows[i][2][6:], rows[i][3]) for i in wc_rows])
            wc_site = dict(zip(wc_rows, outl))
        except Exception as ex:
            ctx.cov["driver_failure"] = str(ex)[-1500:]

    spec_fail = []   # (row, reason)  -- concrete failing inputs
    div = []         # (row, model line, reason) -- correspondence divergences
    branch = Counter()
    nontriv = set()

    for i, r in enumerate(rows):
        m = model[i] if model is not None else None
        k = r[0]
        if k == "au":
            got = au_norm(r[2])
            branch["au:" + " ".join(str(x) for x in (got[:1] if got[0] == "ok" else got[:1] + got[2:3]))] += 1
            if got[0] != "ok" or ";" in r[1]:
                nontriv.add(r[1])
            if got[0] == "panic":
                spec_fail.append((r, "AddUpload panicked: " + r[2]))
            if m is not None and au_norm(m) != got:
                div.append((r, m, "au"))
        elif k == "mp":
            enc, status, cls, rec, tmp_after, during, tree, readers, pan, msg, desc = r[1:12]
            f = enc.split(" ")
            max_up = int(f[0]) or DEFAULT_MAX
            cl = int(f[2])
            sizes = [int(p.split(":")[4]) for p in f[11].split(";") if p != "-"]
            branch["mp:" + cls] += 1
            if cls not in ("exec",) or readers != "-":
                nontriv.add(enc)
            why = []
            if rec != "0":
                why.append("recover hook called %s time(s) with resolvers that never panic: %s" % (rec, unhex(pan)))
            if tmp_after != "0":
                why.append("%s entries left in the private TMPDIR after the request" % tmp_after)
            if cls in ("malformed-response", "recovered-panic", "no-transport"):
                why.append("response is not a well-formed client error: %s %s" % (cls, unhex(msg)))
            if cl > max_up and cls != "too-large":
                why.append("ContentLength %d > MaxUploadSize %d but the request was not rejected" % (cl, max_up))
            tail = int(f[4])
            if cls in ("exec", "gql-error") and tail > 0:
                hdrs = [int(p.split(":")[3]) for p in f[11].split(";") if p != "-"]
                consumed = sum(hdrs) + sum(sizes) + tail
                if consumed > max_up:
                    why.append("a body of %d bytes was parsed to the end with MaxUploadSize %d" % (consumed, max_up))
            ups = {}
            if readers != "-":
                for x in readers.split(","):
                    ui, pi, kind, ind = x.split(":")
                    ups[int(ui)] = {"part": int(pi), "kind": kind}
                    if pi == "-1":
                        why.append("upload %s reached user code with bytes/filename/content-type of no part of the request" % ui)
                    if ind == "NOEOF":
                        why.append("the reader of upload %s never reports io.EOF: it answers 0, nil at the end of the file for ever (io.ReadAll in a resolver does not return)" % ui)
                    elif ind != "i":
                        why.append("upload %s does not have its own independently seekable reader" % ui)
            for w in why:
                spec_fail.append((r, w))
            if m is not None:
                mf = m.split(" ", 9)
                if len(mf) < 10:
                    div.append((r, m, "model could not run the case"))
                    continue
                mexit, mstatus = mf[0], mf[1]
                kv = dict(x.split("=", 1) for x in mf[2:])
                icls = "exec" if cls == "gql-error" else cls
                d = []
                if mexit != icls:
                    d.append("exit")
                if mstatus != "-" and mstatus != status:
                    d.append("status")
                if tmp_after != kv["tmp"]:
                    d.append("tmp")
                if mexit == "exec" and cls == "exec" and tree != "-":
                    if during != kv["during"]:
                        d.append("spill files present while user code runs")
                    it = subst(json.loads(tree), ups)
                    mt = json.loads(kv["tree"])
                    mt = {a: b for a, b in mt.items() if a in DECLARED} if isinstance(mt, dict) else {}
                    if it != mt:
                        d.append("variables seen by user code")
                if d:
                    div.append((r, m, "mp: " + ", ".join(d)))
        elif k == "tr":
            sc, status, cls, kind, rec, tmp_after, pan, body, desc = r[1:10]
            branch["tr:" + sc + ":" + cls] += 1
            if sc.split(" ")[1] not in ("ok", "plain"):
                nontriv.add(sc + body)
            why = []
            if rec != "0":
                why.append("recover hook called %s time(s): %s" % (rec, unhex(pan)))
            if tmp_after != "0":
                why.append("%s entries left in the private TMPDIR" % tmp_after)
            if cls in ("malformed-response", "recovered-panic"):
                why.append("response is not a well-formed answer: " + cls)
            for w in why:
                spec_fail.append((r, w))
            if m is not None and m != "any":
                if m == "panic":
                    if rec == "0":
                        div.append((r, m, "tr"))
                elif m.startswith("client-error"):
                    if cls != "decode-error" or status != m.split(" ")[1]:
                        div.append((r, m, "tr"))
                elif m == "exec":
                    if cls not in ("exec", "gql-error"):
                        div.append((r, m, "tr"))
                else:
                    div.append((r, m, "tr"))
        elif k == "ws":
            pc, mt, frames, closed, rec, pan, frame, desc = r[1:9]
            proto, phase, pcls = pc.split(" ")
            branch["ws:%s:%s:%s" % (phase, pcls, closed.split(":")[0])] += 1
            if pcls != "-" or closed != "open":
                nontriv.add(pc + mt + frame)
            why = []
            if rec != "0":
                why.append("recover hook called %s time(s): %s" % (rec, unhex(pan)))
            if "BAD" in frames.split(","):
                why.append("server sent a frame that is not a JSON object with a type")
            if closed == "timeout" and (phase == "post" or frames == "-"):
                why.append("no answer and no close: the connection is left open and silent")
            if closed == "dial-error":
                why.append("handshake failed")
            for w in why:
                spec_fail.append((r, w))
            if m is not None and m != "any":
                fl = frames.split(",")
                if m == "panic":
                    if rec == "0":
                        div.append((r, m, "ws"))
                elif m.startswith("client-error"):
                    if len(fl) < 2 or not fl[0].startswith("error") or not fl[1].startswith("complete"):
                        div.append((r, m, "ws"))
                elif m != "exec":
                    div.append((r, m, "ws"))

        elif k == "wl":
            pc, frames, closed, reason, rec, pan, desc = r[1:8]
            proto, scen, hs = pc.split(" ")
            sid = bytes.fromhex(hs) if hs != "-" else b""
            nontriv.add(pc)
            fl = [] if frames == "-" else frames.split(",")
            why = []
            if rec != "0":
                why.append("recover hook called %s time(s): %s" % (rec, unhex(pan)))
            if "BAD" in fl:
                why.append("server sent a frame that is not a JSON object with a type")
            for f in fl:
                if ":" in f:
                    fid = f.split(":", 1)[1].split("=")[0]
                    if fid not in (hs, "7a7a", "6531"):
                        why.append("a frame carries an operation id the client never used: " + f[:80])
            if scen in ("dup", "dupq"):
                full = b"Subscriber for " + sid + b" already exists"
                lcls = "fits" if len(full) <= 123 else "cut"
                if closed == "bad-close-utf8":
                    why.append("the close frame's reason is not valid UTF-8 (the client library fails the connection instead of reporting the protocol close)")
                elif closed in ("close:1006", "eof"):
                    why.append("the connection was dropped without a close frame (client sees 1006) instead of the protocol close 4409: the %d-byte reason %s the 123 bytes a close frame can carry" % (len(full), "fits" if lcls == "fits" else "has to be cut to"))
                elif not closed.startswith("close:"):
                    why.append("no protocol close after a second operation under an active id: " + closed)
                else:
                    rb = bytes.fromhex(reason) if reason != "-" else b""
                    # independent of the Lean Spec: code, UTF-8, prefix, whole text when it fits
                    okpy = closed == "close:4409" and full.startswith(rb) and (len(full) > 123 or rb == full)
                    try:
                        rb.decode("utf-8")
                    except UnicodeDecodeError:
                        okpy = False
                    if wl_spec.get(i, "ok") != "ok" or not okpy:
                        why.append("the protocol close does not meet the Spec (code 4409, reason valid UTF-8, a prefix of the full text, the whole text when it fits): %s reason %r" % (closed, rb[:140]))
                branch["wl:%s:%s:%s:%s" % (proto, scen, lcls, closed)] += 1
                if m is not None:
                    mf = m.split(" ")
                    obs = closed if closed not in ("close:1006", "eof") else "dropped"
                    if obs == "bad-close-utf8":
                        if not (mf[0].startswith("close:") and mf[-1] == "spec=FAIL"):
                            div.append((r, m, "wl"))
                    elif mf[0] != obs or (obs.startswith("close:") and mf[1] != reason):
                        div.append((r, m, "wl: close frame"))
                    elif mf[-1] == "spec=ok" and proto == "graphql-ws" and ("connection_error=" + reason) not in fl:
                        div.append((r, m, "wl: graphql-ws sends a connection_error frame with the reason before the close"))
            else:
                branch["wl:%s:%s:%s" % (proto, scen, closed)] += 1
                if closed in ("timeout", "eof", "close:1006", "dial-error", "bad-frame", "bad-close-utf8"):
                    why.append("no answer and no protocol close (%s) for a client string of %d bytes" % (closed, len(sid)))
                elif scen != "type" and closed != "open":
                    why.append("a well-formed %s with a client string of %d bytes was not served: %s" % (scen, len(sid), closed))
                if scen in ("once", "stop") and ("complete:" + hs if hs != "-" else "complete") not in fl:  # an empty id is omitted (omitempty)
                    why.append("the operation's completion does not carry the id the client chose")
                if m is not None and m != "any":
                    div.append((r, m, "wl"))
            for w in why:
                spec_fail.append((r, w))
        elif k == "rs":
            enc, obs_s, orc, status, cls, rec, tmp_after, during, ukinds, want, pan, desc = r[1:13]
            readers, script = enc.split(" ")
            ops = script.split(",")
            obs = [] if obs_s == "-" else obs_s.split(",")
            kv = dict(x.split("=", 1) for x in m.split(" ")) if m is not None and m.startswith("impl=") else None
            rkinds = [x.split(":")[0] for x in readers.split(";")]
            spec = kv["spec"].split(",") if kv else (orc.split(",") if "f" not in rkinds else None)
            for o in ops:
                kk, okind, orest = rs_op(o)
                branch["rs:%s:%s" % (rkinds[kk] if kk < len(rkinds) else "?", "read" if okind == "r" else "seek" + orest.split(":")[0])] += 1
            for a in obs:
                branch["rs:answer:" + (a[0] + (a[-2:] if a[0] == "d" else ""))] += 1
            nontriv.add(enc)
            why = []
            if rec != "0":
                why.append("recover hook called %s time(s) although user code did not panic (it only used the upload's io.ReadSeeker): %s" % (rec, unhex(pan)))
            if cls != "exec" or status != "200":
                why.append("a well-formed upload whose resolver only reads and seeks its files was answered %s %s" % (status, cls))
            if tmp_after != "0":
                why.append("%s entries left in the private TMPDIR after the request" % tmp_after)
            if ukinds != want and ukinds != "-":
                why.append("the uploads did not reach user code with their name / content type / size / reader kind: got %s, sent %s" % (ukinds, want))
            if spec is not None and obs != spec:
                j = next((x for x in range(min(len(obs), len(spec))) if obs[x] != spec[x]), min(len(obs), len(spec)))
                why.append("operation %d of the script (%s) was answered %s; an io.ReadSeeker over the file's bytes (bytes.Reader / os.File) answers %s" % (
                    j + 1, rs_op_text(ops[j]) if j < len(ops) else "-", rs_ans_text(obs[j]) if j < len(obs) else "nothing (user code was unwound)", rs_ans_text(spec[j]) if j < len(spec) else "-"))
            for w in why:
                spec_fail.append((r, w))
            if kv is not None:
                if obs != kv["impl"].split(","):
                    div.append((r, m, "rs: the reader does not answer the script as the model of reader.go (regenerated facts) does"))
                if orc != kv["mem"]:
                    div.append((r, m, "rs: bytes.Reader (library oracle) does not answer the script as the Spec `stepSpec .mem` does"))
                if kv.get("perPath") != "true":
                    div.append((r, m, "rs: the reader is not constructed once per mapped path"))
            elif m is not None:
                div.append((r, m, "rs: model could not run the case"))
        elif k == "wc":
            pc, closed, reason, conn_err, bad, rec, started, leaked, pan, desc = r[1:11]
            proto, trig, nsub, size, delay = pc.split(" ")
            branch["wc:%s:%s:%s" % (proto, trig, closed)] += 1
            nontriv.add(pc)
            why = []
            if rec != "0":
                why.append("recover hook called %s time(s) although no user code panicked: %s" % (rec, unhex(pan)))
            if not closed.startswith("close:") or closed == "close:1006":
                why.append("the server closed the connection without a protocol close reaching the client (%s%s)" % (closed, " " + unhex(reason) if reason != "-" else ""))
            elif trig == "dup" and closed != "close:4409":
                why.append("a second subscribe under an active id was answered %s instead of the protocol close 4409" % closed)
            elif closed not in ("close:1000", "close:1002", "close:4409"):
                why.append("close code %s is none the transport has" % closed)
            if bad != "0":
                why.append("%s frame(s) that are not a JSON object with a type" % bad)
            if leaked != "0":
                why.append("%s of %s streaming operations were never cancelled after the connection ended" % (leaked, started))
            for w in why:
                spec_fail.append((r, w))
            if m is not None and closed.startswith("close:") and closed != "close:1006" and trig != "bye" and wc_site.get(i, "none") == "none":
                div.append((r, "none", "wc: the close frame (code, reason) is none of the regenerated close sites of run / closeOnCancel"))
        elif k == "xc":
            spec_fail.append((r, "the harness process running the websocket sessions (mode %s) died during this session: a panic outside every recover - %s" % (r[1], unhex(r[4]).split("\n")[0][:200])))
        elif k == "hs":
            minp, obs_s, desc, cfg, detail, pan = r[1:7]
            obs = [o.split(":") for o in obs_s.split(";")]
            msteps = minp.split(" ")[3].split(";")
            mo = m.split(";") if m is not None else None
            if mo is not None and len(mo) != len(obs):
                div.append((r, m, "hs: model could not run the history"))
                mo = None
            nontriv.add(minp + obs_s)
            seen_req = {}
            for j, o in enumerate(obs):
                site, status, cls, rec, unval, tmp, same, upl, nreach = o
                rep = detail.split("|")[j] in seen_req
                seen_req[detail.split("|")[j]] = True
                branch["hs:%s:%s:%s" % (site.split("/")[0], cls, "repeat" if rep else "first")] += 1
                why = []
                if rec != "0":
                    why.append("recover hook called %s time(s) although no user code panicked" % rec)
                if unval != "0":
                    why.append("a document that did not pass validation (a field without Definition) was handed to the executable schema")
                if cls in ("malformed-response", "recovered-panic", "no-answer", "ws-eof", "ws-timeout", "ws-close=1006", "ws-dial-error"):
                    why.append("the answer is not a well-formed client error / protocol close: " + cls)
                if tmp != "0":
                    why.append("%s entries left in the private TMPDIR" % tmp)
                if upl == "bad":
                    why.append("the upload did not reach user code with its bytes / name / content type / own reader")
                if same != "same":
                    why.append("the answer differs from the one a server without query cache gives to the same history")
                if nreach not in ("0", "1"):
                    why.append("one request reached CreateOperationContext %s times" % nreach)
                if why:
                    spec_fail.append((r, "step %d of %d (%s, %s): %s" % (j + 1, len(obs), site, "a repetition of an earlier request" if rep else "first occurrence", "; ".join(why))))
                    break
                if mo is not None:
                    e = mo[j]
                    bad = False
                    if e == "x":
                        bad = nreach != "0"
                    elif e == "run:valid":
                        bad = cls in ("parse-error", "no-operation") or cls.startswith("apq-")
                    elif e.startswith("run:"):
                        bad = True
                    else:
                        bad = cls != e
                    if bad:
                        div.append((r, m, "hs: step %d: the model answers %s, the implementation %s" % (j + 1, e, cls)))
                        break
        elif k == "hc":
            spec_fail.append((r, "the harness process running the request histories died: a panic outside every recover (%s)" % unhex(r[2])))
        elif k == "cf":
            branch["cf:" + r[2]] += 1
            obs = "dropped" if r[2] in ("close:1006", "eof") else r[2] + " " + r[3]
            if m is not None and m != obs:
                div.append((r, m, "cf: gorilla/websocket does not treat a close reason of this length as modelled (125-byte control frame rule)"))

    # ---- decide
    def describe(r):
        k = r[0]
        if k == "au":
            t, ps = r[1].split(" ")
            return {"shape": {"site": "AddUpload"},
                    "input": {"variables_tree": t, "paths": [unhex(p) for p in ps.split(";")]},
                    "observed": r[2],
                    "replay": "RawParams{Variables: <tree %s>}.AddUpload(upload, key, %r) -> %s" % (t, [unhex(p) for p in ps.split(";")], r[2])}
        if k == "mp":
            return {"shape": {"site": "MultipartForm", "class": r[3]},
                    "input": {"case": r[1], "desc": r[11]},
                    "observed": {"status": r[2], "class": r[3], "recovers": r[4], "tmp_after": r[5], "tree": r[7], "readers": r[8], "panic": unhex(r[9]), "message": unhex(r[10])},
                    "replay": "multipart/form-data request %s (%s): status %s class %s recovers %s tmp %s" % (r[11], r[1][:300], r[2], r[3], r[4], r[5])}
        if k == "tr":
            return {"shape": {"site": r[1].split(" ")[0], "class": r[1].split(" ")[1]},
                    "input": {"transport": r[1].split(" ")[0], "body_hex": r[8], "body": unhex(r[8])[:200]},
                    "observed": {"status": r[2], "class": r[3], "recovers": r[5], "tmp_after": r[6], "panic": unhex(r[7])},
                    "replay": "transport %s body %r -> status %s class %s recovers %s" % (r[1].split(" ")[0], unhex(r[8])[:200], r[2], r[3], r[5])}
        if k == "wl":
            proto, scen, hs = r[1].split(" ")
            sid = bytes.fromhex(hs) if hs != "-" else b""
            steps = {"dup": "connection_init; subscribe id=S to a subscription that stays active; subscribe id=S again",
                     "dupq": "connection_init; subscribe id=S to a subscription that stays active; a query under id=S",
                     "once": "connection_init; query under id=S; sentinel query", "stop": "connection_init; subscription id=S; stop id=S; query under id=S; sentinel",
                     "errq": "connection_init; query { S } (unknown field); sentinel", "ping": "connection_init; ping with payload {k:S}; sentinel",
                     "type": "connection_init; message of type S; sentinel"}[scen]
            return {"shape": {"site": "websocket-echo", "scenario": scen},
                    "input": {"subprotocol": proto, "scenario": scen, "steps": steps, "S_len": len(sid), "S_hex": hs[:600], "S": sid.decode("utf-8", "replace")[:200], "desc": r[7]},
                    "observed": {"frames": r[2][:600], "closed": r[3], "close_reason": unhex(r[4])[:200], "recovers": r[5], "panic": unhex(r[6])},
                    "replay": "websocket %s: %s with S = %d bytes (%s) -> %s, frames %s" % (proto, steps, len(sid), r[7], r[3], r[2][:200])}
        if k == "rs":
            readers, script = r[1].split(" ")
            rl = []
            for j, x in enumerate(readers.split(";")):
                kd, h = x.split(":")
                rl.append("reader %d: %s, file of %d bytes" % (j, "in-memory (request below MaxMemory)" if kd == "m" else "temp file (request above MaxMemory)", 0 if h == "-" else len(h) // 2))
            ops = script.split(",")
            obs = [] if r[2] == "-" else r[2].split(",")
            steps = ["%s -> %s" % (rs_op_text(o), rs_ans_text(obs[j]) if j < len(obs) else "not reached") for j, o in enumerate(ops)]
            return {"shape": {"site": "upload-reader", "class": r[5]},
                    "input": {"request": "multipart upload, " + r[12], "readers": rl, "readers_hex": readers[:600], "script": script, "steps": steps},
                    "observed": {"answers": r[2][:1500], "bytes.Reader": r[3][:1500], "status": r[4], "class": r[5], "recovers": r[6], "tmp_after": r[7], "uploads": r[9], "panic": unhex(r[11])[:600]},
                    "replay": "multipart upload (%s; %s); the resolver runs: %s ; response %s %s, recover hook %s time(s)%s" % (
                        r[12], "; ".join(rl), " ; ".join(steps)[:900], r[4], r[5], r[6], (" : " + unhex(r[11])[:200]) if r[11] != "-" else "")}
        if k == "wc":
            proto, trig, nsub, size, delay = r[1].split(" ")
            what = {"dup": "a second subscribe under the active id 0", "terminate": '{"type":"connection_terminate"}', "ack": '{"type":"connection_ack"} (a server->client type)',
                    "unknown": '{"type":"bogus","id":"0"}', "badjson": 'the text frame {"type":', "binary": "a binary frame ff 00 7b",
                    "cancel": "nothing more; the server cancels the connection context (InitFunc)", "cancelwhy": "nothing more; the server cancels the connection context (InitFunc, AppendCloseReason)",
                    "pong": "nothing more; PingPongInterval 25ms elapses without a pong", "bye": "a close frame 1000"}.get(trig, trig)
            steps = "connection_init; %s x subscribe `subscription StreamK%s { name }` (endless events of %s bytes), wait until each has delivered; then the client sends %s; it starts draining %s ms later" % (nsub, size, size, what, delay)
            return {"shape": {"site": "websocket-close", "trigger": trig},
                    "input": {"subprotocol": proto, "trigger": trig, "subscriptions": nsub, "frame_bytes": size, "drain_delay_ms": delay, "steps": steps, "desc": r[10]},
                    "observed": {"closed": r[2], "close_reason": unhex(r[3])[:200], "connection_error": unhex(r[4])[:200], "bad_frames": r[5], "recovers": r[6], "started": r[7], "not_cancelled": r[8], "panic": unhex(r[9])[:600]},
                    "replay": "websocket %s: %s -> %s %s, recover hook %s time(s)%s (scheduler-dependent: repeat the session)" % (proto, steps, r[2], unhex(r[3])[:80], r[6], (" : " + unhex(r[9])[:200]) if r[9] != "-" else "")}
        if k == "xc":
            return {"shape": {"site": "websocket-close" if r[1] == "wc" else "websocket", "class": "crash"},
                    "input": {"mode": r[1], "session": unhex(r[2])[:600]}, "observed": {"exit": unhex(r[3]), "stderr": unhex(r[4])[:1500]},
                    "replay": "go/harness/c10 -mode %s died while running the session `%s`: %s (scheduler-dependent: repeat the session)" % (r[1], unhex(r[2])[:400], unhex(r[4]).split("\n")[0][:300])}
        if k == "hs":
            cfg = r[4]
            obs = r[2].split(";")
            lines = []
            for j, d in enumerate(r[5].split("|")):
                site, hb = d.split("=", 1)
                o = obs[j].split(":")
                lines.append("%d. %s %r -> %s %s%s" % (j + 1, site, unhex(hb)[:160], o[1], o[2], "" if o[3] == "0" and o[4] == "0" and o[6] == "same" else " [recovers %s, unvalidated %s, %s as without cache]" % (o[3], o[4], o[6])))
            bad = next((o.split(":") for o in obs if o.split(":")[3] != "0" or o.split(":")[4] != "0" or o.split(":")[6] != "same"), obs[-1].split(":"))
            return {"shape": {"site": "history", "class": bad[2]},
                    "input": {"server": "handler.New + every transport + SetQueryCache/APQ/Introspection/ComplexityLimit as in " + cfg, "history": lines, "desc": r[3]},
                    "observed": {"steps": r[2][:1500], "model_input": r[1][:600], "panic": unhex(r[6])[:600]},
                    "replay": "request history on ONE server configured like production (%s): %s%s" % (cfg, " ; ".join(lines)[:1200], (" ; panic: " + unhex(r[6])[:300]) if r[6] != "-" else "")}
        if k == "hc":
            return {"shape": {"site": "history", "class": "crash"}, "input": {"mode": "hs"}, "observed": unhex(r[3])[:1500],
                    "replay": "go/harness/c10 -mode hs died: %s" % unhex(r[3])[:600]}
        if k == "cf":
            return {"shape": {"site": "gorilla-close-frame"}, "input": {"reason_len": r[1]}, "observed": r[2],
                    "replay": "gorilla/websocket close frame with a reason of %s bytes -> %s" % (r[1], r[2])}
        return {"shape": {"site": "websocket", "class": r[1].split(" ")[2]},
                "input": {"subprotocol": r[1].split(" ")[0], "phase": r[1].split(" ")[1], "frame_type": r[2], "frame": unhex(r[7])[:300]},
                "observed": {"frames": r[3], "closed": r[4], "recovers": r[5], "panic": unhex(r[6])},
                "replay": "websocket %s frame %r (%s init) -> frames %s, %s, recovers %s" % (r[1].split(" ")[0], unhex(r[7])[:200], r[1].split(" ")[1], r[3], r[4], r[5])}

    reported = Counter()
    for r, w in spec_fail:
        key = (r[0], r[1].split(" ")[0] if r[0] in ("tr", "ws", "wl", "wc") else "", w[:40] if r[0] != "hs" else w.split("): ", 1)[-1][:40])
        reported[key] += 1
        if reported[key] > 2:
            continue
        rep = describe(r)
        rep.update({"kind": "spec", "why": w})
        ctx.violation(rep)
    failing_rows = {id(r) for r, _ in spec_fail}
    nd = 0
    for r, m, w in div:
        if id(r) in failing_rows:
            continue
        nd += 1
        if nd > 6:
            break
        rep = describe(r)
        rep.update({"kind": "correspondence", "model": m, "why": w,
                    "note": "the implementation's behaviour differs from the proved model but the Spec (no panic, client error, limits, temp files, own reader) holds on this input"})
        ctx.violation(rep, no_failing_input=True)

    if ok_extract and not proved:
        if not spec_fail:
            ctx.violation({"kind": "proof", "failing": ctx.proof_failure,
                           "replay": "theorems of GqlgenVerif.Props.C10 / C10Close / C10Hist / C10Reader / C10Lock no longer check against the regenerated Gen/AddUploadGuards.lean / Gen/DecodeSites.lean / Gen/WsCloseReasons.lean / Gen/ParseGate.lean / Gen/ReaderFacts.lean / Gen/WsWriteLock.lean; the directed and seeded search found no failing input"},
                          no_failing_input=True)
    if ok_extract and proved and model is None:
        ctx.violation({"kind": "check-error", "what": "lean driver failed", "detail": ctx.cov.get("driver_failure")}, no_failing_input=True)

    def pick(kind, pred=lambda r: True):
        for r in rows:
            if r[0] == kind and pred(r):
                return [x[:160] for x in r]
        return None

    ctx.cov.update({
        "evaluations": len(rows),
        "distinct_nontrivial": len(nontriv),
        "rule": "au: variable trees (depth<=3) x 1-3 map paths, mostly an existing position then structurally mutated (wrong container kind, out-of-range/negative/huge index, sign and zero spellings, missing variables, dropped prefix) + 60 directed; mp: multipart requests from random trees with prefix-independent paths, mutated (paths, part order/names/duplicates, operations/map JSON shapes, MIME truncation at every 5th offset), MaxUploadSize swept over every byte offset of a body x declared/chunked x MaxMemory in {default,1,-5}, missing TMPDIR; tr: 7 HTTP transports x (valid + directed + mutated + random byte bodies); ws: 2 subprotocols x every message type x 16 payloads, id shapes, raw text/binary frames before and after init; wl: 2 subprotocols x multi-step sequences (duplicate id on an active subscription, query/stop/reuse, unknown field, ping payload, message type) x client string S of every boundary length (0..2, 88..100, 107..109, 120..130, 200..70000 bytes), a 2/3/4-byte rune at every alignment around reason bytes 121..127, multi-byte-only strings, invalid UTF-8, random rune mixtures + corpus/C10/wl.txt; cf: gorilla's control-frame rule for reasons of 0..200 bytes; hs: request HISTORIES on ONE server configured like production (LRU query cache of 1/2/3/1000 entries or MapCache, APQ, introspection, complexity limit none/100/2, parser token limit none/12; all 7 HTTP transports + both websocket subprotocols) next to a twin without query cache: every raw body of the tr alphabet and every websocket payload three times in a row; 7 valid + 45 unparsable / operation-less / schema-invalid documents x every transport three times in a row (with and without complexity limit, MapCache), first over POST then over the other transport and back, with other documents in between under capacity 1 and 2 (eviction); per document the APQ sequence hash-only / register / hash-only x2 / plain / wrong hash / hash-only / register on 5 transports; 14 shapes of the persistedQuery extension twice; the same upload three times interleaved with a bad map path; over-long documents under a token limit; generated: 2-5 distinct requests (documents, mutated documents, mutated raw bodies, APQ variants, the same document over two transports) sent 4-15 times in random order under a random configuration + corpus/C10/hs.txt; rs: well-formed uploads (1-2 files of 0..5000 bytes, each mapped to 1-3 variable paths; in-memory reader, temp-file reader, chunked) x a SCRIPT user code runs on the readers: systematic sweep file length {0,1,3,10} x current position {start, inside, end, behind the end} x whence {start,current,end} x target {before the start, 0, inside, last byte, exactly the end, end+1, end+6} followed by two reads, a tell, a zero-length read, a rewind and a read past the end; one file on three paths + a second file positioned differently and read interleaved; generated scripts of 4-16 operations (buffer sizes 0,1,2,3,len-1,len,len+1,2len+1,512,4096; offsets around 0 / len / int64 extremes; whence 0,1,2 and invalid ones) + corpus/C10/rs.txt; wc: server-initiated websocket closes (second subscribe under an active id, connection_terminate, server->client type, unknown type, non-JSON text frame, binary frame, cancelled connection context with and without close reason, missed pong, client close) x 2 subprotocols x 1-8 streaming subscriptions with frames of 16 B..48 KB x client drain delay. Non-trivial = distinct case leaving the happy path (error/close outcome, several paths, spill, null/err envelope)",
        "input_distribution": dict(branch),
        "kinds": dict(kinds),
        "correspondence_divergences": len(div),
        "spec_failures": len(spec_fail),
        "samples": [pick("au", lambda r: r[2].startswith("err")), pick("au", lambda r: r[2].startswith("ok") and ";" in r[1]),
                    pick("mp", lambda r: r[3] == "exec" and r[8] != "-"), pick("mp", lambda r: r[3] == "copy-temp"),
                    pick("tr", lambda r: " null" in r[1]), pick("ws", lambda r: r[1].endswith(" null")), pick("wl", lambda r: " dup " in r[1] and len(r[1]) > 300),
                    pick("hs", lambda r: r[3].startswith("apq ")), pick("hs", lambda r: r[3].startswith("rand-")),
                    pick("rs", lambda r: "to=16" in r[12] or "to=11" in r[12]), pick("rs", lambda r: r[12].startswith("disk interleaved")), pick("wc", lambda r: " dup 6 " in r[1])],
        "sampled_not_proved": ["HTTP/websocket framing of the answers (well-formed JSON / SSE / multipart-mixed / ws frames)", "exact bytes, filename, content type per mapped path and independent seeks (observed in user code on every successful upload)", "every non-subscribe websocket frame", "interleavings of a server-initiated close with frame writes of running subscriptions (scheduler-dependent sessions)",
                               "request histories: byte equality of every answer with the twin without query cache, recover-hook counter, validated-document check in Exec (observed on the generated and directed histories)"],
    })
