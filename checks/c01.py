"""C01 - generated executors implement GraphQL execution semantics (data and errors)."""
import json
from collections import Counter
from concurrent.futures import ThreadPoolExecutor

from lib import vf, gensrv, randschema


def rawdata(line):
    k = '"payloads":[{"data":'
    i = line.index(k) + len(k)
    j = line.index(',"errors":', i)
    return line[i:j]


def run_config(ctx, binary, n, seed, profile, schema_line=None):
    rc, so, se = vf.sh([binary, "-mode", "gen", "-n", str(n), "-seed", str(seed), "-profile", profile],
                       env={"GOMEMLIMIT": "4GiB"}, timeout=2400)
    if rc != 0:
        raise RuntimeError("runner failed rc=%s: %s" % (rc, se[-3000:]))
    return [l for l in so.split("\n") if l]


def run_corpus(ctx, binary, prop, split=False):
    """minimised past failures and directed shapes run first (split: one result per delivered subscription event)"""
    import glob, os
    cases = []
    for f in sorted(glob.glob(os.path.join(vf.VERIF, "corpus", prop, "*.jsonl"))):
        cases += [l for l in open(f).read().split("\n") if l.strip()]
    if not cases:
        return []
    rc, so, se = vf.sh([binary, "-mode", "run"] + (["-split"] if split else []), inp="\n".join(cases) + "\n", timeout=600)
    if rc != 0:
        raise RuntimeError("corpus run failed rc=%s: %s" % (rc, se[-3000:]))
    return [l for l in so.split("\n") if l]


def schema_of(binary, mode="schema"):
    rc, so, se = vf.sh([binary, "-mode", mode], timeout=120)
    if rc != 0:
        raise RuntimeError("schema dump failed: " + se[-2000:])
    return so.strip()


def typed_nil_shape(r, mj, why):
    """F01b's shape: the ONLY difference from the model is that the non-null error is missing at positions where the
    resolver returned a nil pointer held in the Go interface of a non-null interface / union position"""
    if why != ["errors"] or not isinstance(mj, dict) or not r.get("payloads"):
        return None
    def typed(v, path, out):
        if not v:
            return
        if v.get("k") == "null" and v.get("typedNil"):
            out.add(path)
        for i, e in enumerate(v.get("l") or []):
            typed(e, "%s/%d" % (path, i), out)
    paths = set()
    for i in r["log"]:
        typed(i.get("val"), i["path"], paths)
    if not paths:
        return None
    impl = sorted(e["path"] + " :: " + e["message"] for e in r["payloads"][0]["errors"])
    missing = list(mj["errors"])
    for e in impl:
        if e not in missing:
            return None
        missing.remove(e)
    def at_typed_nil(e):
        p, _, m = e.partition(" :: ")
        # a list element's error carries the list's path when the element has no field context of its own
        return ("must not be null" in m or "requested element is null" in m) and \
            (p in paths or any(q.startswith(p + "/") for q in paths))
    if missing and all(at_typed_nil(e) for e in missing):
        return {"why": "errors", "typed_nil_at_nonnull_abstract_position": True, "only_the_null_errors_are_missing": True}
    return None


def classify(r):
    """branch tags of a case (for the input distribution and the non-triviality rule)"""
    tags = set()
    q = r["query"]
    if "fragment " in q:
        tags.add("named-fragment")
    if "... on" in q:
        tags.add("inline-typecond")
    if "@skip" in q or "@include" in q:
        tags.add("skip-include")
    if "$b" in q:
        tags.add("variable-condition")
    if "__typename" in q:
        tags.add("typename")
    import re as _re
    if _re.search(r"\{.*@(?!skip|include|defer)\w+", q, _re.S):
        tags.add("field-executable-directive")
        if any(i["hook"].startswith("directive:") and i["kind"] in ("error", "errval", "block", "panic")
               and ("@" + i["hook"][len("directive:"):]) in q for i in r["log"]):
            tags.add("field-executable-directive-fault")
    if q.startswith("mutation"):
        tags.add("mutation")
    if any(i["path"] == "" and i["hook"].startswith("directive:") for i in r["log"]):
        tags.add("operation-directive")
        if any(i["path"] == "" and i["hook"].startswith("directive:") and i["kind"] != "value" for i in r["log"]):
            tags.add("operation-directive-refuses")
    bypath = Counter(i["path"] for i in r["log"] if i["hook"].startswith("directive:") and i["hook"] != "directive:~around" and i["path"])
    if any(v >= 2 for v in bypath.values()):
        tags.add("field-with-several-schema-directives")
        if any(i["kind"] != "value" and bypath[i["path"]] >= 2 for i in r["log"] if i["hook"].startswith("directive:") and i["path"]):
            tags.add("several-schema-directives-one-refuses")
    if q.startswith("subscription"):
        tags.add("subscription-event")
        if "operation-directive" in tags:
            tags.add("subscription-operation-directive")
            if "operation-directive-refuses" in tags:
                tags.add("subscription-operation-directive-refuses")
        if r.get("event"):
            tags.add("subscription-later-event")
    for i in r["log"]:
        if i["kind"] in ("error", "errval"):
            tags.add("resolver-error" if i["hook"] == "resolver" else "directive-error")
        if i["kind"] == "block":
            tags.add("directive-block")
        if i["kind"] == "panic":
            tags.add("panic")
        if i.get("val") and i["val"]["k"] == "null":
            tags.add("nil-result")
        if i.get("val") and i["val"]["k"] == "list":
            tags.add("list")
            if any(e["k"] == "null" for e in i["val"].get("l") or []):
                tags.add("nil-element")
                if i.get("field", "").startswith("codes"):
                    tags.add("null-scalar-element")
    p = r["payloads"][0] if r["payloads"] else None
    if p:
        msgs = " ".join(e["message"] for e in p["errors"])
        if "must not be null" in msgs:
            tags.add("must-not-be-null")
        if "requested element is null" in msgs:
            tags.add("element-is-null")
        if p["data"] is None:
            tags.add("null-to-root")
    return tags


def subscribe_failed(r):
    """None unless `r` is a subscription whose stream resolver failed (error / panic: no stream was created);
    then "" when the response is the request error the spec prescribes, else what is wrong with it"""
    if not r["query"].startswith("subscription") or any(i["kind"] in ("stream", "value") and "/" not in i["path"] and i["hook"] == "resolver" for i in r["log"]):
        return None
    roots = [i for i in r["log"] if "/" not in i["path"] and i["hook"] == "resolver"]
    if len(roots) != 1 or roots[0]["kind"] not in ("error", "panic"):
        return None
    P = r["payloads"]
    want = ("recovered: " if roots[0]["kind"] == "panic" else "") + roots[0]["msg"]
    if len(P) != 1:
        return "%d payloads" % len(P)
    if P[0]["data"] is not None:
        return "data is not null"
    if [(e["path"], e["message"]) for e in P[0]["errors"]] != [(roots[0]["path"], want)]:
        return "errors are not exactly the stream resolver's failure at its path"
    if r["recovers"] != (1 if roots[0]["kind"] == "panic" else 0):
        return "recover hook count"
    return ""


def stream_shape(r):
    """subscriptions: what is wrong with the SEQUENCE of responses (the content of each is the model's to judge).
    A result the runner did not split into events is a subscription whose stream was never created (the stream
    resolver or an operation-level directive around it failed): exactly one response, then the end of the stream."""
    if not r["query"].startswith("subscription"):
        return []
    why = []
    if r.get("unended"):
        why.append("stream-did-not-end")
    if len(r["payloads"]) != 1:
        why.append("responses:%d" % len(r["payloads"]))
    return why


def run(ctx):
    if getattr(ctx, "replay", None):
        from checks import execreplay
        if execreplay.replay(ctx, "C01"):
            return
    ctx.assumptions += [
        "gqlparser (parser, validator, VariableValues) is modelled-not-verified: the model starts from the validated document the real executor obtained",
        "CollectedField.Selections may hold repeated entries in the Go code; the model keeps the first copy (unobservable: sub-selections are merged again one level down)",
        "resolver scheduling: the model is sequential; schedule-independence is C06",
        "user code is the oracle recorded by the universal plan-driven resolver (go/universal)",
    ]
    cfgs = gensrv.QUICK if ctx.tier == "quick" else gensrv.THOROUGH
    n = 1500 if ctx.tier == "quick" else 12000
    built = gensrv.build_matrix(ctx, "exec", cfgs)
    # list-completion facts, re-extracted from the server generated on this run
    ok_extract = not isinstance(built["base"], Exception) and ctx.extract("ListFacts", arg=gensrv.gen_dir("exec", "base"))
    # argument-unmarshalling context, from the method-syntax and the function-syntax package
    ok_extract = ok_extract and not isinstance(built.get("follow_funcsyn_wl2"), Exception) and ctx.extract(
        "ArgCtxFacts", arg=gensrv.gen_dir("exec", "base") + "," + gensrv.gen_dir("exec", "follow_funcsyn_wl2"))
    # where a field's directive chain comes from (bindField operand order, ImplDirectives location filter), from codegen/field.go
    ok_extract = ok_extract and ctx.extract("FieldDirFacts")
    proved = ctx.prove(props=["GqlgenVerif.Props.C01"] + (["GqlgenVerif.Props.C01Gen", "GqlgenVerif.Props.C01Dirs"] if ok_extract else []))
    if not ok_extract:
        proved = False
        ctx.proof_failure = ["Gen/ListFacts, Gen/ArgCtxFacts or Gen/FieldDirFacts could not be regenerated (broken tie)"]
    if not proved:
        ctx.cov["proof_failure"] = ctx.proof_failure
    # the same schema plus a directive `on FIELD`: field.gotpl then emits its _fieldMiddleware flavour
    fd = gensrv.build_matrix(ctx, "execfd", ["base", "follow_funcsyn_wl2"])   # both template flavours
    for k, v in fd.items():
        built["execfd:" + k] = v
    cfgs = list(cfgs) + ["execfd:" + k for k in fd]
    # binding mode 2: scalar / enum fields are plain struct fields filled by the parent's resolver
    try:
        built["mixed:base"] = gensrv.build_server(ctx, "exec", "base", mixed=True)
    except RuntimeError as e:
        built["mixed:base"] = e
    cfgs = list(cfgs) + ["mixed:base"]
    # subscriptions: every delivered event is one execution of the root field's selection set on the event's
    # value (spec 6.2.3.2 ExecuteSubscriptionEvent); the runner splits a subscription into its events
    sb = gensrv.build_matrix(ctx, "execsub", ["base", "follow_funcsyn_wl2"])     # both flavours of the generated Exec
    for k, v in sb.items():
        built["execsub:" + k] = v
    cfgs = list(cfgs) + ["execsub:" + k for k in sb]
    # user-written bindings: a function-pair scalar whose marshaler can answer graphql.Null (null at non-null
    # scalar positions and list elements), a MarshalGQL scalar, an object whose fields are context methods
    # randomly generated schemas (deterministic in the seed): interfaces implementing interfaces, unions, enums,
    # every wrapper, recursion, schema directives - the universal resolver and the document grammar read the schema
    for k in range(1 if ctx.tier == "quick" else 5):
        name = randschema.write_probe(ctx.seed * 10 + k)
        rb = gensrv.build_matrix(ctx, name, ["base"] if ctx.tier == "quick" else ["base", "follow_funcsyn_wl2"])
        for c, v in rb.items():
            built["%s:%s" % (name, c)] = v
            cfgs = list(cfgs) + ["%s:%s" % (name, c)]
    bm = gensrv.build_matrix(ctx, "execboom", ["base", "follow_funcsyn_wl2"])
    for k, v in bm.items():
        built["execboom:" + k] = v
    cfgs = list(cfgs) + ["execboom:" + k for k in bm]
    dist = Counter()
    nontriv = set()
    total = 0
    divs = []
    per_cfg = {}
    samples = []
    for cfg in cfgs:
        b = built[cfg]
        if isinstance(b, Exception):
            # generation or compilation of the generated server failed: a concrete failing input for C17
            # and nothing can be said about C01 on this configuration
            ctx.violation({"kind": "generated-server-does-not-build", "config": cfg, "detail": str(b)[-3000:],
                           "shape": {"config": cfg, "build": "fail"},
                           "replay": "api.Generate + go build of probe schema go/probes/exec with config %s" % cfg})
            continue
        if cfg.startswith("execsub:"):
            schema = schema_of(b, "subschema")
            lines = run_corpus(ctx, b, "C01sub", split=True) + run_config(ctx, b, max(200, n // 3), ctx.seed, "sub")
        else:
            schema = schema_of(b)
            lines = run_corpus(ctx, b, "C01") + run_config(ctx, b, n, ctx.seed, "c01")
        model = ctx.driver("c01", [schema] + lines)
        ok = 0
        for l, m in zip(lines, model):
            r = json.loads(l)
            total += 1
            if r.get("gateErrors"):
                dist["rejected-at-gate"] += 1
                continue
            if r.get("crash") or r.get("hung"):
                divs.append((cfg, r, m, ["crash" if r.get("crash") else "hung"]))
                continue
            ss = stream_shape(r)
            if ss:
                divs.append((cfg, r, json.loads(m) if m.startswith("{") else m, ss))
                continue
            tags = classify(r)
            for t in tags:
                dist[t] += 1
            if tags - {"typename"}:
                nontriv.add(r["query"] + json.dumps(r.get("variables"), sort_keys=True))
            sf = subscribe_failed(r)
            if sf is not None:
                # CreateSourceEventStream failed (spec 6.2.3.1): a request error - no data, the one error, no event
                dist["subscribe-failed"] += 1
                if sf:
                    divs.append((cfg, r, m, ["subscribe-failure:" + sf]))
                else:
                    ok += 1
                continue
            if not m.startswith("{"):
                divs.append((cfg, r, m, ["model:" + m[:40]]))
                continue
            mj = json.loads(m)
            p = r["payloads"][0]
            why = []
            if mj["data"] != rawdata(l):
                why.append("data")
            if mj["errors"] != sorted(e["path"] + " :: " + e["message"] for e in p["errors"]):
                why.append("errors")
            if mj["invs"] != sorted(i["path"] + " " + i["hook"] for i in r["log"]):
                why.append("invocations")
            if mj["recovers"] != r["recovers"]:
                why.append("recovers")
            if mj["unlogged"]:
                why.append("model-invokes-unlogged")
            if mj.get("implementorsOK") is False:
                why.append("generated-implementors-lists-differ-from-schema")
            # Spec verdict computed by the driver: Impl model vs Spec on this oracle
            if mj.get("spec") not in (None, "agree"):
                why.append("spec:" + mj["spec"])
            if why:
                divs.append((cfg, r, mj, why))
            else:
                ok += 1
            if len(samples) < 3 and len(tags) >= 4:
                samples.append({"config": cfg, "query": r["query"], "variables": r.get("variables"),
                                "data": p["data"], "errors": p["errors"], "invocations": len(r["log"])})
        per_cfg[cfg] = {"cases": len(lines), "corresponding": ok}

    # argument-coercion errors carry the field's own response path (both template flavours: the theorem
    # argument_errors_carry_the_field_path is over the regenerated facts; this is the same statement on the implementation)
    for cfg in ("execboom:base", "execboom:follow_funcsyn_wl2"):
        b = built.get(cfg)
        if b is None or isinstance(b, Exception):
            continue
        acases = []
        for k, (q, vj, ov, want) in enumerate([
                ('{ echo(b: "ERR") ok }', None, {}, ["echo/b"]),
                ('{ e: echo(b: "ERR") ok }', None, {}, ["e/b"]),
                ('{ t { e: echo(b: "ERR") s } }', None, {"t": {"kind": "value"}}, ["t/e/b"]),
                ('{ t { kid { echoNN(b: "ERR") } s } }', None, {"t": {"kind": "value"}, "t/kid": {"kind": "value"}}, ["t/kid/echoNN/b"]),
                ('query($v: [Boom!]) { ts { echo(bs: $v) } }', '{"v":["x","ERR"]}', {"ts": {"kind": "value", "len": 2}},
                 ["ts/0/echo/bs/1", "ts/1/echo/bs/1"]),
                ('query($v: Boom) { a: echo(b: $v) t { b: echo(b: $v) } }', '{"v":"ERR"}', {"t": {"kind": "value"}}, ["a/b", "t/b/b"]),
                ('{ echo(bs: ["ok", "ERR", "ERR"]) }', None, {}, ["echo/bs/1"])]):
            c = {"id": "argpath-%d" % k, "query": q, "plan": {"seed": ctx.seed, "rates": {}, "overrides": ov}}
            if vj:
                c["varsJSON"] = vj
            acases.append((c, want))
        rc, so, se = vf.sh([b, "-mode", "run"], inp="\n".join(json.dumps(c) for c, _ in acases) + "\n", timeout=300)
        res = [json.loads(l) for l in so.split("\n") if l.strip()] if rc == 0 else []
        okc = 0
        for (c, want), r in zip(acases, res):
            total += 1
            dist["argument-coercion-error"] += 1
            got = sorted(e["path"] for p in r.get("payloads", []) for e in p["errors"])
            if r.get("gateErrors") or r.get("crash") or r.get("hung") or got != sorted(want):
                ctx.violation({"kind": "argument-error-path", "config": cfg, "query": c["query"], "variables": c.get("varsJSON"),
                               "expected_error_paths": sorted(want), "impl_error_paths": got, "impl": r.get("payloads"),
                               "gateErrors": r.get("gateErrors"), "shape": {"why": "argument-error-path"},
                               "replay": "echo '<case json>' | <generated server %s> -mode run" % cfg})
            else:
                okc += 1
        if rc != 0 or len(res) != len(acases):
            ctx.violation({"kind": "crash", "config": cfg, "where": "argument-error cases", "stderr": se[-2000:],
                           "shape": {"crash": True, "where": "argument-error"}})
        per_cfg[cfg + "/argument-error-paths"] = {"cases": len(acases), "as_stated": okc}

    for cfg, r, mj, why in divs:
        if len(ctx.violations) >= 20:
            break
        spec_bad = [w for w in why if w.startswith("spec:")]
        shape = {"why": ",".join(sorted(w.split(":")[0] for w in why))}
        if spec_bad and isinstance(mj, dict):
            # F01's shape: the only disagreement with the Spec is a response key collected twice
            # under unrelated type conditions
            shape = {"spec_disagrees": True, "duplicate_keys": not mj.get("wf"),
                     "dups_only_under_unrelated_type_conditions": bool(mj.get("dupsUnrelated")) and not mj.get("wf"),
                     "corresponds_to_impl_model": len(why) == len(spec_bad)}
        tn = typed_nil_shape(r, mj, why)
        if tn:
            shape = tn
        rep = {"kind": "spec-violation" if spec_bad else "correspondence", "config": cfg, "why": why, "query": r["query"],
               "variables": r.get("variables"), "plan": r.get("plan"),
               "impl": r["payloads"], "model": mj, "shape": shape,
               "replay": "echo '<case json>' | <generated server> -mode run   (case = query+variables+plan of this file)"}
        # a divergence in data/errors/invocations against a model proved equal to the Spec is a concrete failing input
        failing = bool(spec_bad) or any(w in ("data", "errors", "invocations", "recovers", "crash", "hung") or w.startswith("config-") or w.startswith("subscribe-failure") or w.startswith("stream-") or w.startswith("responses") for w in why)
        ctx.violation(rep, no_failing_input=not failing)
    if not proved and not ctx.violations:
        ctx.violation({"kind": "proof", "failing": ctx.proof_failure}, no_failing_input=True)

    ctx.cov.update({
        "evaluations": total,
        "distinct_nontrivial": len(nontriv),
        "rule": "documents from a grammar over the probe schema (aliases colliding across fragments, nested inline fragments and spreads on interfaces/unions, @skip/@include with literal and variable conditions on every node kind, __typename, mutations) x hash-driven plans assigning value/nil/error/error+value to every resolver, pass/error/block to every schema directive, nil list elements; non-trivial = distinct (document, variables) with at least one tag other than plain __typename; every configuration runs the same cases",
        "input_distribution": dict(dist),
        "configs": per_cfg,
        "correspondence_divergences": len(divs),
        "samples": samples,
    })
