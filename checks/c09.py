"""C09 - HTTP: GET never mutates; status and content type follow the request outcome."""
import json
import os
from collections import Counter
from lib import vf

CORPUS = os.path.join(os.path.dirname(os.path.dirname(os.path.abspath(__file__))), "corpus", "C09", "sequences.json")
HISTORY = "answer_independent_of_history"

CLAUSES = ["get_executes_only_queries", "executes_named_operation", "non2xx_ran_nothing", "started_is_200",
           "parse_validation_status", "content_type_negotiated", "body_is_graphql_json"]


def shape_of(inp, obs, clauses):
    """The failing shape a known finding is matched on: violated clause + transport route + decisive fields."""
    t = inp.split(" ")
    return {"clause": clauses[0] if clauses else "correspondence", "method": t[1],
            "request_content_type": t[3] if t[1] == "POST" else "-", "document": t[7][:2] if t[7].startswith("P") else t[7][:1]}


def replay_text(descr, obs):
    d = json.loads(descr)
    hs = " ".join("-H '%s: %s'" % (k, v[0]) for k, v in sorted(d["headers"].items()))
    srv = ",".join(x["kind"] + ("[ct=%s]" % x["ct"] if x.get("ct") else "") + ("[+hdr]" if x.get("others") else "") for x in (d["server"] or []))
    return "server transports %s%s; curl -X %s %s 'http://host%s' --data-binary %r  => observed (status content-type body executed) %s" % (
        srv or "(none)", cfg_text(d.get("config")), d["method"], hs, d["target"], d["body"][:400], obs)


def cfg_text(c):
    """the non-default handler.Server options of a case (harness scfg), as the calls that set them"""
    if not c:
        return ""
    calls = []
    if c.get("parser_token_limit"):
        calls.append("SetParserTokenLimit(%d)" % c["parser_token_limit"])
    if c.get("disable_suggestion"):
        calls.append("SetDisableSuggestion(true)")
    if c.get("error_presenter"):
        calls.append("SetErrorPresenter(<%s>)" % {"strip": "returns a fresh error without extensions", "recode": "DefaultErrorPresenter, then sets extensions.code=GRAPHQL_PARSE_FAILED in place",
                                                   "uncode": "DefaultErrorPresenter, then deletes extensions.code in place", "rewrap": "returns a fresh error with code WRAPPED"}.get(c["error_presenter"], c["error_presenter"]))
    if c.get("context_mutator"):
        calls.append("Use(<%s>)" % {"complexity0": "extension.FixedComplexityLimit(0)", "complexity9": "extension.FixedComplexityLimit(9)"}.get(c["context_mutator"], "OperationContextMutator " + c["context_mutator"]))
    return " configured with " + ", ".join(calls)


def curl(d):
    hs = " ".join("-H '%s: %s'" % (k, v[0]) for k, v in sorted(d["headers"].items()))
    return "curl -X %s %s 'http://host%s' --data-binary %r" % (d["method"], hs, d["target"], d["body"][:400])


def sequence_text(mn):
    """the minimal failing request sequence found by the harness (-min), as text"""
    seq = mn["sequence"]
    srv = seq[-1]["request"].get("server")
    where = ("one server with query cache (size %s), APQ extension with a cache and transports %s%s" % (
        srv.get("query_cache_size"), ",".join(t["kind"] for t in srv.get("transports", [])), cfg_text(srv.get("config")))) if isinstance(srv, dict) else \
        "fresh default servers in one process (POST's pool of *RawParams is process wide)"
    lines = ["%d. %s  => %s  body %s" % (i + 1, curl(st["request"]), st["observed"], st["request"].get("response_body", "")[:200])
             for i, st in enumerate(seq)]
    return "request sequence against %s: %s ; the last request sent alone is answered %s" % (where, " ;; ".join(lines), mn["alone"]["observed"])


def run(ctx):
    ctx.assumptions += [
        "sequences: sha256 is collision free; the APQ cache is large enough not to evict within a session (4096 entries); the query cache's evictions are arbitrary (proved for every eviction choice, exercised with sizes 1, 2, 16, 1000); sync.Pool hands a just-returned object to the next Get on the same P (the harness pins one P for the sequence runs and flushes the pool between sessions)",
        "net/http, mime.ParseMediaType, encoding/json, net/url, mime/multipart are library code: requests enter the model through the class the library assigns (parsed media type, decode ok/failed); the harness asserts its class labels against mime.ParseMediaType on every run",
        "gqlparser (parser, validator, VariableValues, OperationList.ForName) is modelled through the document outcome class and the list of (kind, name) of the operations; ForName is modelled explicitly and tied by the correspondence",
        "ResponseHeaders keys are in canonical spelling with one value each; errcode.RegisterErrorType is not called; no Websocket/SSE/multipart-mixed transport is registered (their bodies are streams, not one JSON response)",
        "ExecutableSchema.Exec does not panic out (generated executors recover, property C04); 'a resolver ran' is observed as 'ExecutableSchema.Exec was entered'",
        "APQ stands for every OperationParameterMutator: it either passes (possibly substituting the cached text) or stops the request with a user-kind error",
        "server options: the class of a text under SetParserTokenLimit(n) is the parser's own answer under that limit (no error / *gqlerror.Error / plain error - library code); OperationContextMutators are modelled as 'refuses with an error carrying this code or none' (exercised: FixedComplexityLimit, three refusing mutators); error presenters are arbitrary functions of the error (exercised: four, two of them editing the error in place) - the model gives them no influence on status or content type; gqlparser's validation rule list is process wide (one custom rule registered for the whole harness run, SetDisableSuggestion's rule swap stays in effect once made)",
    ]
    ok_extract = ctx.extract("HttpStatus", "HttpHistory")
    proved = ok_extract and ctx.prove(props=["GqlgenVerif.Props.C09", "GqlgenVerif.Props.C09Hist"])
    if ok_extract and not proved:
        ctx.cov["proof_failure"] = ctx.proof_failure

    hargs = ["-tier", ctx.tier, "-seed", ctx.seed, "-corpus", CORPUS]
    rc, so, se = ctx.harness("c09", hargs)
    if rc != 0:
        raise RuntimeError("harness failed: " + se[-3000:])
    rows = [l.split("\t") for l in so.split("\n") if l]
    cases = [r for r in rows if r[0] == "c"]
    sqs = [r for r in rows if r[0] == "sq"]
    sts = [r for r in rows if r[0] == "st"]
    cts = [r for r in rows if r[0] == "ct"]

    have_model = bool(getattr(ctx, "driver_ok", False))
    if not ok_extract:
        # the translator no longer recognises the source (already recorded as a broken tie, exit 1): without the
        # regenerated tables there is no model to run; report what the implementation did and stop
        ctx.cov.update({"evaluations": len(rows), "distinct_nontrivial": 0, "rule": "extractor failed; no model run",
                        "input_distribution": dict(Counter(r[2].split(" ")[0] for r in cases)), "samples": [c[:3] for c in cases[:3]]})
        return
    if not have_model:
        raise RuntimeError("lean driver does not build against the regenerated Gen/HttpStatus.lean:\n" + getattr(ctx, "driver_log", "")[-3000:])
    lines = ["c " + r[1] for r in cases] + ["st " + r[1] for r in sts] + ["ct %s %s" % (r[1], r[2]) for r in cts]
    lines += ["chk %s %s" % (r[1], r[2]) if ok_resp(r[2]) else "guard" for r in cases]
    lines += ["seq " + r[2] for r in sqs]
    model = ctx.driver("c09", lines)
    n = len(cases)
    m_cases, m_sts, m_cts = model[:n], model[n:n + len(sts)], model[n + len(sts):n + len(sts) + len(cts)]
    m_chk = model[n + len(sts) + len(cts):2 * n + len(sts) + len(cts)]
    m_seq = model[2 * n + len(sts) + len(cts):]
    # the history model's answer (query cache, APQ cache and params pool carried through the session) per session row
    hist = {}
    for r, o in zip(sqs, m_seq):
        hist[r[1]] = o.split("|")
    hist_pos = Counter()

    def minimise(step):
        rc, so, se = ctx.harness("c09", hargs + ["-min", step])
        if rc != 0:
            return None
        try:
            mn = json.loads(so.strip().split("\n")[-1])
        except ValueError:
            return None
        return mn if "sequence" in mn else None

    branch = Counter()
    nontriv = set()
    div = 0
    reported = set()

    def report(rep, failing, step=None):
        key = json.dumps(rep.get("shape"), sort_keys=True) + str(failing)
        if key in reported or len(reported) >= 12:
            return
        reported.add(key)
        if step is not None:
            # which earlier requests does this answer depend on? (replays on fresh servers, delta-debugged)
            mn = minimise(step)
            if mn and mn.get("reproduced"):
                # same abstract request alone (an APQ hash resolved thanks to an earlier registration is a different
                # request when sent alone: that dependence is legitimate), different answer
                dependent = len(mn["sequence"]) > 1 and mn["alone"]["observed"] != mn["target"]["observed"] and \
                    mn["alone"]["abstract_request"] == mn["target"]["abstract_request"]
                rep["history_dependent"] = dependent
                rep["shape"]["history_dependent"] = dependent
                rep["sequence"] = [{"request": st["request"], "observed": st["observed"], "abstract_request": st["abstract_request"]} for st in mn["sequence"]]
                rep["last_request_alone"] = mn["alone"]["observed"]
                if dependent:
                    if not failing:
                        # s1-s7 hold of this answer, but it is not the answer this request gets on its own: the status /
                        # what executes was decided by an EARLIER request (theorem answer_independent_of_history)
                        rep["shape"]["clause"] = HISTORY
                        rep["spec_verdict"] = "violates:" + HISTORY
                        failing = True
                    rep["replay"] = sequence_text(mn) + " ; violates " + rep["spec_verdict"].split(":", 1)[-1] + \
                        " ; model (proved to satisfy the property for every history) answers " + rep.get("model", "?")
            elif mn:
                rep["history_replay"] = "not reproduced on fresh servers"
        ctx.violation(rep, no_failing_input=not failing)

    # ---- full-request correspondence + Spec on the implementation's own output
    for r, m, chk in zip(cases, m_cases, m_chk):
        inp, obs = r[1], r[2]
        t = inp.split(" ")
        o = obs.split(" ")
        route = "%s/%s" % (t[1], t[3]) if t[1] == "POST" else t[1]
        branch["route:" + route] += 1
        branch["outcome:%s %s%s" % (o[0], o[2], " executed" if o[3] != "-" else "")] += 1
        if not (o[0] == "200" and o[2] == "data" and t[4] == "~" and t[0].count("~") == 6):
            nontriv.add(inp)
        spec = chk if ok_resp(obs) else "violates:executed-more-than-once-or-panicked"
        mh = m
        if len(r) > 5 and r[5] != "-":
            branch["sequence:request"] += 1
            hs = hist.get(r[5], [])
            mh = hs[hist_pos[r[5]]] if hist_pos[r[5]] < len(hs) else "missing"
            hist_pos[r[5]] += 1
        if m == obs and mh != obs and spec == "ok" and not proved:
            # the history model interprets the regenerated parseQuery / pool-reset facts; its independence from the
            # cache's eviction choices is a theorem (run_eq_ref) - when that does not close, the driver's choice
            # (evict nothing) is arbitrary and says nothing about this answer
            mh = obs
        if m == obs and mh == obs and spec == "ok":
            continue
        clauses = spec.split(":", 1)[1].split(",") if spec.startswith("violates:") else []
        if m != obs or mh != obs:
            div += 1
        rep = {"kind": "spec" if m == obs and mh == obs else "correspondence", "abstract_request": inp, "implementation": obs, "model": m,
               "spec_verdict": spec, "request": json.loads(r[3]), "shape": shape_of(inp, obs, clauses),
               "replay": replay_text(r[3], obs) + ((" ; violates " + ",".join(clauses)) if clauses else " ; model (proved to satisfy the property) answers " + m)}
        if mh != m:
            rep["history_model"] = mh
        report(rep, failing=bool(clauses), step=r[4] if len(r) > 4 else None)

    # ---- table tie: unexported pure functions vs the regenerated tables
    for r, m in zip(sts, m_sts):
        branch["table:statusFor"] += 1
        if m != r[2]:
            div += 1
            codes = [] if r[1] == "-" else r[1].split(",")
            # Spec: protocol-kind codes (parse / validation) must give 422 / 400, anything else 200 / 200
            proto = any(c in ("GRAPHQL_VALIDATION_FAILED", "GRAPHQL_PARSE_FAILED") for c in codes)
            failing = r[2] != ("422 400" if proto else "200 200")
            report({"kind": "correspondence", "table": "statusFor", "codes": codes, "implementation": r[2], "model": m,
                    "shape": {"clause": "parse_validation_status", "table": "statusFor"},
                    "replay": "transport.statusFor / statusForGraphQLResponse on errors with extension codes %s returned %s" % (codes, r[2])}, failing)
    for r, m in zip(cts, m_cts):
        branch["table:determineResponseContentType"] += 1
        got = r[3].replace("%", "/")
        mdl, spec = m.split(" ")
        if mdl != got or spec != got:
            div += 1
            report({"kind": "correspondence" if mdl != got else "spec", "table": "determineResponseContentType", "configured": r[1], "accept": json.loads(r[4]),
                    "implementation": got, "model": mdl, "spec": spec,
                    "shape": {"clause": "content_type_negotiated", "table": "determineResponseContentType"},
                    "replay": "configured Content-Type %s, Accept %s: determineResponseContentType returned %s, negotiation gives %s" % (r[1], r[4], got, spec)}, spec != got)

    # ---- a proof obligation no longer checks
    if ok_extract and not proved and not any(not nf for _, nf in ctx.violations):
        found = False
        # directed search on the regenerated tables: negotiation grid and the GET guard
        grid = ["ct %s %s" % (r[1], r[2]) for r in cts]
        for r, o in zip(cts, ctx.driver("c09", grid)):
            mdl, spec = o.split(" ")
            if mdl != spec:
                report({"kind": "proof", "failing": ctx.proof_failure, "shape": {"clause": "content_type_negotiated", "table": "determineResponseContentType"},
                        "replay": "regenerated determineResponseContentType answers %s for configured %s / Accept %s; negotiation gives %s; implementation answers %s" % (mdl, r[1], r[4], spec, r[3])}, True)
                found = True
                break
        g = ctx.driver("c09", ["guard"])[0]
        if g != "q.":
            report({"kind": "proof", "failing": ctx.proof_failure, "shape": {"clause": "get_executes_only_queries", "table": "getRefuses"},
                    "replay": "GET.Do's guard lets these operation kinds through to DispatchOperation: %s" % g}, True)
            found = True
        if not found:
            ctx.violation({"kind": "proof", "failing": ctx.proof_failure}, no_failing_input=True)

    some = lambda p: next((r for r in cases if p(r)), None)
    samples = [some(lambda r: r[2].startswith("406")), some(lambda r: r[2].startswith("400 application/graphql-response+json")),
               some(lambda r: " q.b" in r[2]), some(lambda r: "PERSISTED" in r[1] and r[1].startswith("O")), cts[40], sts[9]]
    ctx.cov.update({
        "evaluations": len(rows),
        "distinct_nontrivial": len(nontriv),
        "rule": "exhaustive product {32 structured documents: 1-3 operations of mixed kinds, anonymous/named, with/without required variables, parse errors, validation errors, lone-anonymous and duplicate-name violations, empty and fragment-only documents} x operationName {absent, each name, unknown} x 10 carriers (GET, POST json, application/graphql raw/prefixed/escaped, urlencoded json/plain/bare/escaped, multipart) x 10 Accept sets, on the full transport list; ResponseHeaders {5 content types x other headers} x Accept x carriers; single-transport and empty servers; method x request content type x Upgrade grid; every decode failure; APQ miss/hit/mismatch; resolver errors; SERVER CONFIGURATION grid {parser token limit 0/4/9/1000 x error presenter none/strip/recode-in-place/uncode-in-place/rewrap, token limit x operation-context mutator none/FixedComplexityLimit(0)/(9)/refusing without code/with a custom code/with GRAPHQL_VALIDATION_FAILED, suggestions disabled x presenter, presenter x mutator} x 14 refusal documents (runs, operationName decides, bad variables, syntax error early/late/behind the token limit, over the token limit = plain parser error, unknown field, lone anonymous, custom validation rule, suggestion-carrying errors, no operation) x operationName x carriers x {no Accept, json, graphql-response+json}; ACCEPT SURFACE: every ordered list of 1-3 (thorough 1-4) part categories {json, graphql-response+json, */*, application/*, a range the server cannot produce (14 of them), an unparsable part (14)} in seeded surface spellings (upper/title case, leading/trailing blanks and tabs, q-values incl. q=0, charset, quoted parameters, several parameters, trailing semicolon) x {runs, parse error, validation error} x one carrier per transport + no transport, also on a token-limited server, and as table-tie rows; request Content-Type surface (39 spellings: case, blanks, parameters, comma lists, near-miss types); seeded random structured and malformed streams with shuffled/duplicated/dropped transports, random configurations and Accept lists of up to 8 parts; request SEQUENCES: 19 directed sequences (corpus/C09/sequences.json, each on a large and a size-1 query cache) + seeded sessions against one long-lived server (every third one with random non-default options: token limit, suggestions off, presenter, context mutator) with query cache (size 1/2/16/1000), APQ extension with a cache and all transports, every generated request sent 2-3 times interleaved with the others (invalid-by-validation documents, parse errors, unknown operationName, variable coercion errors, mutations over GET, APQ register / hash-only / wrong hash, decode failures, operationName key absent / empty / set), every response compared with the stateless model, with the history model (query cache + APQ store + params pool) and judged by the Spec; a diverging answer is delta-debugged to a minimal request sequence. Non-trivial = distinct abstract request other than a default-configured 200 data answer without Accept",
        "input_distribution": dict(branch),
        "correspondence_divergences": div,
        "sequences": {"sessions": len(sqs), "requests": branch["sequence:request"]},
        "samples": [s[:3] for s in samples if s],
        "exhaustive_over": "documents x operationName x carriers x Accept sets (structured grid), see rule",
        "proved_over": "all transport lists, all requests (unbounded operation lists, Accept lists, names); all request histories, all query-cache eviction choices (Props/C09Hist)",
    })


def ok_resp(obs):
    ex = obs.split(" ")[3]
    return "," not in ex and "PANIC" not in ex
