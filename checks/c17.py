"""C17 - code generation succeeds and compiles; generated identifiers are valid and collision-free.

PARTIAL by design. Proved (Lean, all names / all call sequences): identifier validity of ToGo / ToGoPrivate on
names whose first non-underscore character is a letter, keyword-freedom of ToGoPrivate, injectivity of the
ToGoModelName registry, duplicate-freedom per scope of the identifiers the model file declares. Tied to the code
by (a) Gen/Keywords.lean regenerated from templates.go, (b) the real templates.ToGo* / TypeIdentifier against the
model on directed + exhaustive-small + random names, (c) identifiers declared by really generated packages
(go/parser) against the model's `emitted`. Sampled only: "generation succeeds and the output type-checks" - a
seeded sweep of random + directed schemas x configurations through the real api.Generate (whose own validation
type-checks the exec, model and resolver packages) followed by `go build`; a failure found there is a concrete
failing input.

Leaf-type bindings (added for the miss C17-change2): custom scalars / enums bound through `models:` to hand-written
Marshal/Unmarshal function pairs and MarshalGQL/UnmarshalGQL types over unnamed slices, named slices,
json.RawMessage, maps, pointers, structs, arrays, basic types, used bare / non-null / under list wrappers in output,
argument and input-field position ("bindings" projects c17b*). They are generated, compiled AND executed through
the generated server; every response is compared with the Spec of Model/TypeRef.lean (the response shape is
decided by the GraphQL type alone: a named type is ONE leaf written by its bound function, whatever its Go type).
Proved over the regenerated `(*TypeReference).IsSlice` rule (Gen/TypeRefRules.lean): named_never_slice,
processType_never_nil_gql, echo_eq_spec, output_eq_spec; the real TypeReference predicates / Elem() chains are
compared with the model on a GraphQL-wrapper x Go-type grid (-mode typerefs).

Fields whose TYPE is a root object x the two template flavours (added for the miss C17-change4): "root-typed field"
projects c17t* (go/harness/c17/rootrefs.go, corpus/C17/rootrefs.txt) - Relay payloads pointing back at Query,
self-referential root fields, root to root, Subscription as a field type, interface / extension / list holders,
nullable / non-null / list wrappers, renamed roots - every shape generated with
use_function_syntax_for_execution_context false AND true, in both exec layouts, the other boolean options spread so
each meets each flavour with both values; the random grammar draws such fields too. Regenerated fact:
Gen/FuncSyntaxArms.lean (go/extract/funcsyntaxarms.go, text/template/parse) holds both arms of every
`if $useFunctionSyntaxForExecutionContext` of codegen/*.gotpl; function_arm_is_translation_of_method_arm proves
that each function arm is its method arm with the receiver removed and `ec` passed second.

Project layout and what gqlgen.yml leaves implicit (added for the miss C17-change6): `package:` omitted / given for
exec, model and resolver x output directories whose base name is an identifier / upper case / has a hyphen / a dot /
a leading digit / is a Go keyword x the directory absent / empty / holding only the schema or a README / holding a Go
file of some package x exec and resolver layouts x shared, nested and sibling directories ("layout" projects c17l*,
go/harness/c17/layouts.go, corpus/C17/layouts.txt): generated, type-checked, built, and the package clause of every
generated file compared with Model/PkgName.lean. -mode pkgnames asks the real Check() of the three sections for the
derived name on really created directories (all strings over a small alphabet, keywords, blanks, non-ASCII x 8
directory states). Regenerated fact: Gen/PkgNameRules.lean (go/extract/pkgnamerules.go, go/ast) holds what each of
NameForDir's four returns yields, SanitizePackageName's replaced class, repair guard and repair, and what each
section's Check() assigns; sanitizePkg_valid / nameForDir_valid_when_derived / sectionPackage_valid
(Props/C17Pkg.lean) prove that the derived name is a package name for EVERY directory name and state.

Where the schema files live (added for the miss C17-change7): 17 location classes relative to the exec output directory
(inside, nested, hidden, siblings whose names START WITH the exec directory's name, shorter sibling, parent, a file in
the parent named like the directory, cousin) x both exec layouts x depth of the exec directory x how gqlgen.yml names
the files ("schema location" projects c17s*, go/harness/c17/schemaloc.go, corpus/C17/schemalocs.txt; the layout
projects c17l* carry extra schema files at rotating classes). The `//go:embed` patterns and the `sources` table of the
generated executor are compared per schema file with Model/EmbedPath.lean; Spec: no pattern leaves the package.
Regenerated fact: Gen/EmbedRule.lean (go/extract/embedrule.go, go/ast) = the `embeddable` decision of codegen.BuildData;
embedded_only_below_output_dir / embedded_pattern_valid (Props/C17Embed.lean) hold for ALL clean absolute paths.

Input objects with field resolvers (added for the miss C17-change8): `@goField(forceResolver: true)` / `models: X: fields:
f: resolver: true` on INPUT fields - input name class x mark x field type x directive, in both exec layouts and both
template flavours, resolver layouts none / single / follow-schema / inside the exec package ("input resolver" projects
c17i*, go/harness/c17/inputres.go, corpus/C17/inputres.txt); the random grammar marks input fields too. Regenerated
fact: Gen/ExecLayoutTwins.lean (go/extract/execlayouttwins.go, text/template/parse) = the single-file blocks of
generated!.gotpl, root_.gotpl, the ranges of `type ResolverRoot interface` per layout, the resolver interface headers,
the templates that call `ec.resolvers`; follow_root_is_single_file_twin / resolver_calls_declared /
resolver_root_entries_name_declared_interfaces (Props/C17Root.lean).

What a schema file of a multi-file project contains (added for the miss C17-change9): one universe of definitions
partitioned over files - a file with only interfaces / only unions / both, only enums / scalars, only directive
definitions, only extensions, only a schema definition, only inputs / objects / one root, only unreferenced definitions,
only a comment, nothing - x both exec layouts x flavours x resolver layouts x position in gqlgen.yml's list / glob x
filename_template ("file contents" projects c17f*, go/harness/c17/filekinds.go, corpus/C17/filekinds.txt). Under
follow-schema the set of `<name>.generated.go` files is compared with Model/Builds.lean. Regenerated fact:
Gen/BuildGuards.lean (go/extract/buildguards.go, go/ast) = the statements of each pass of codegen.generatePerSchema that
reach the build of a file, in source order; every_pass_reaches_a_build /
generatePerSchema_never_dereferences_a_missing_build (Props/C17Files.lean) hold for EVERY distribution of definitions
over files.

How directive arguments are given at each use (added for the miss C17-change10): definition default none / value /
`= null` x use omitted / value / `null` / single value for a list / `[]` / object literal with holes x 18 argument types
x 11 locations (field, argument, input field, object, input object, interface, union, enum, enum value, scalar,
interface field) x executable locations / skip_runtime / call_argument_directives_with_null ("directive argument"
projects c17a*, go/harness/c17/dirargs.go, corpus/C17/dirargs.txt). Regenerated fact: Gen/DirArgRule.lean
(go/extract/dirargrule.go, go/ast + text/template/parse) = ResolveArgs' nil decision, the FieldArgument getDirectives
builds for a use, the declaring chain of implDirectives; passed_local_iff_declared /
directive_closure_matches_effective_value (Props/C17DirArgs.lean).
"""
import json
import os
import re
import shutil
from collections import Counter
from concurrent.futures import ThreadPoolExecutor

from lib import vf


def unhex(h):
    if h == "-" or h == "":
        return ""
    try:
        return bytes.fromhex(h).decode("utf8", "replace")
    except ValueError:
        return h


# ---------------------------------------------------------------- failure classification (sweep)
def first_errors(err):
    lines = [l for l in err.split("\n") if l.strip() and not l.startswith("/verif") and not re.match(r"^\d{4}/\d\d/\d\d ", l)]
    return lines


def read(p):
    try:
        return open(p).read()
    except OSError:
        return ""


def nested_key_shape(a, b):
    """F17f precondition: two GraphQL types of the same base and depth >= 2 that agree on the outermost and the
    first element's nullability and differ below."""
    def levels(t):
        lv = []
        while True:
            nn = t.endswith("!")
            if nn:
                t = t[:-1]
            lv.append(nn)
            if t.startswith("["):
                t = t[1:-1]
            else:
                return t, lv
    ba, la = levels(a)
    bb, lb = levels(b)
    return ba == bb and len(la) == len(lb) and len(la) >= 3 and la[:2] == lb[:2] and la[2:] != lb[2:]


def root_typed_fields(schema):
    """-> set of holder classes ('query' | 'mutation' | 'subscription' | 'other') that carry a field whose named
    type is a root operation type (best effort, on the schema text)."""
    txt = re.sub(r'"""[\s\S]*?"""|"[^"\n]*"|#[^\n]*', " ", schema)
    txt = re.sub(r"\([^()]*\)", " ", txt)
    roots = {"query": "Query", "mutation": "Mutation", "subscription": "Subscription"}
    m = re.search(r"(?:^|\s)schema\s*(?:@\w+\s*)*\{([^}]*)\}", txt)
    if m:
        for op, name in re.findall(r"(query|mutation|subscription)\s*:\s*(\w+)", m.group(1)):
            roots[op] = name
    defined = set(re.findall(r"(?:^|\s)type\s+(\w+)", txt))
    by_name = {v: k for k, v in roots.items() if v in defined}
    out = set()
    for holder, body in re.findall(r"(?:^|\s)type\s+(\w+)[^{}]*\{([^}]*)\}", txt):
        for _, ftype in re.findall(r"(\w+)\s*:\s*([\[\]!\w]+)", body):
            if re.sub(r"[\[\]!]", "", ftype) in by_name:
                out.add(by_name.get(holder, "other"))
    return out


def classify(proj_dir, rc, err):
    """-> (class, shape dict, first error line)"""
    yml = read(os.path.join(proj_dir, "gqlgen.yml"))
    schema = "".join(read(os.path.join(proj_dir, f)) for f in sorted(os.listdir(proj_dir)) if f.endswith(".graphql"))
    if os.path.exists(os.path.join(proj_dir, "schemalocs.tsv")):
        schema = "".join(v for k, v in sorted(project_tree(proj_dir).items()) if k.endswith((".graphql", ".graphqls")))
    lines = first_errors(err)
    head = next((l for l in lines if not l.startswith("GENERATE-ERROR: validation failed") and not l.startswith("gofmt failed")), lines[0] if lines else "")
    msg = "\n".join(lines[:40])
    shape = {"stage": {3: "generate-error", 4: "generate-panic", 124: "generate-timeout", 6: "go-build"}.get(rc, "rc%d" % rc)}
    m = re.search(r'non-unique key "[^"]*", trying to replace (\S+) with (\S+)', msg)
    if m and rc == 4:
        shape.update({"class": "non-unique-key-panic", "nested_lists_differ_below_first_element": nested_key_shape(m.group(1), m.group(2))})
        return shape, head
    if re.search(r"(syntax error: unexpected literal|expected 'IDENT', found) ?\.?\d", msg):
        has = bool(re.search(r"(?<![A-Za-z0-9_])_+[0-9][A-Za-z0-9_]*\s*[(:]", schema))
        shape.update({"class": "identifier-starts-with-digit", "name_is_underscores_then_digit": has})
        return shape, head
    if re.search(r"this\.\w+ undefined \(type \w+ has no field or method \w+\)", msg):
        shape.update({"class": "getter-for-omitted-resolver-field",
                      "omit_resolver_fields": bool(re.search(r"^omit_resolver_fields: true", yml, re.M)),
                      "omit_getters": bool(re.search(r"^omit_getters: true", yml, re.M))})
        return shape, head
    if re.search(r"name _\w*Resolver not exported by package|undefined: _\w*Resolver|ec\.resolvers\._\w+ undefined", msg):
        shape.update({"class": "resolver-interface-of-leading-underscore-type",
                      "object_type_with_leading_underscore": bool(re.search(r"^(extend )?type _\w+", schema, re.M))})
        return shape, head
    rt = root_typed_fields(schema)
    if rc == 4 and "nil pointer dereference" in msg and "buildField" in err and re.search(r"^omit_root_models: true", yml, re.M):
        shape.update({"class": "root-typed-field-without-root-model", "omit_root_models": True, "field_of_root_type": bool(rt)})
        return shape, "panic: nil pointer dereference in codegen.(*builder).buildField (omit_root_models: true, yet a field has a root object as its type: `<Root> was not found`)"
    if rc in (3, 6) and re.search(r"\(value of type graphql\.Marshaler\) as func\(ctx context\.Context\) graphql\.Marshaler value in return statement", msg):
        shape.update({"class": "subscription-field-of-root-type", "subscription_root_has_field_of_root_type": "subscription" in rt})
        return shape, head
    shapes_tsv = [l.split("\t") for l in read(os.path.join(proj_dir, "shapes.tsv")).split("\n") if l]
    if shapes_tsv:
        shape["bound_go_types"] = sorted({r[1] for r in shapes_tsv})
    m = re.search(r"unexpected type (\*types\.\w+)", msg)
    if m and rc == 4 and "TypeIdentifier" in err:
        shape.update({"class": "typeidentifier-unexpected-type", "go_type": m.group(1),
                      "binds_function_pair_over_unnamed_array": any(r[1] == "a" for r in shapes_tsv)})
        shape.pop("bound_go_types", None)
        return shape, head
    if rc == 4 and "nil pointer dereference" in msg and "UniquenessKey" in err and "processType" in err:
        shape.update({"class": "processtype-nil-gql-panic"})
        return shape, "panic: nil pointer dereference in (*TypeReference).UniquenessKey <- codegen.processType (Elem() of a reference without GQL.Elem)"
    if rc in (3, 6) and re.search(r"cannot use (res|v) \(variable of type \*?\[\][\w.]+\) as \*?\[\][\w.]+ value", msg) \
            and any(r[1].startswith("p,s") for r in shapes_tsv):
        shape.update({"class": "function-pair-over-pointer-to-slice", "binds_function_pair_over_pointer_to_slice": True})
        shape.pop("bound_go_types", None)
        return shape, head
    follow = bool(re.search(r"^exec:\n(  [^\n]*\n)*?  layout: follow-schema", yml, re.M))
    fk = read_filekinds(proj_dir)
    if rc == 4 and "nil pointer dereference" in msg:
        m = re.search(r"codegen\.(add(?:Objects|Inputs|Interfaces|ReferencedTypes))\(", err)
        if m:
            shape.update({"class": "per-schema-build-missing", "pass": m.group(1), "exec_layout": "follow-schema" if follow else "single-file"})
            if fk:
                # the files whose build that pass has to create: no object, no input (and no interface / union for the last pass)
                late = [f[1] for f in fk["files"] if f[2][:2] == "00" and f[2] != "0000" and (m.group(1) != "addReferencedTypes" or f[2][2] == "0")]
                shape["content_classes_created_by_that_pass"] = sorted(late)
            return shape, "panic: nil pointer dereference in codegen.%s <- codegen.generatePerSchema (the build of a schema file is used before it exists)" % m.group(1)
    m = re.search(r"undefined: (dirArg_\w+)|declared and not used: (dirArg_\w+)|(dirArg_\w+) declared and not used", msg)
    if m and rc in (3, 6):
        shape.update({"class": "directive-argument-local-mismatch", "kind": "call-names-an-undeclared-local" if m.group(1) else "declared-local-is-not-passed"})
        da = read_dirargs(proj_dir)
        if da:
            shape["definition_default_and_use"] = sorted({".".join(x.split(".")[2:]) for x in da.get("shapes", "").split() if x.split(".")[1] != "multi"})[:40]
        return shape, next((l for l in lines if "dirArg_" in l), head)
    mw = r"_(query|mutation|subscription|field)Middleware"
    if rc in (3, 6) and follow and re.search(r"(undefined: %s|ec\.%s undefined|undefined: dir_\w+_args|ec\.dir_\w+_args undefined)" % (mw, mw), msg):
        exec_only = files_defining_only_executable_directives(proj_dir)
        if exec_only:
            shape.update({"class": "directive-functions-of-a-file-without-build", "exec_layout": "follow-schema",
                          "executable_directive_defined_in_a_file_without_type_definitions": True})
            return shape, next((l for l in lines if re.search(mw + "|dir_\\w+_args", l) and "undefined" in l), head)
    if rc in (3, 6) and follow and re.search(mw + r"( redeclared in this block| already declared at)", msg):
        shape.update({"class": "operation-middleware-declared-twice", "exec_layout": "follow-schema",
                      "executable_directives_of_one_location_defined_in_two_schema_files": executable_directive_files(proj_dir) >= 2})
        return shape, next((l for l in lines if "redeclared" in l or "already declared" in l), head)
    m = re.search(r"pattern (\S+): invalid pattern syntax", msg)
    if m and rc in (3, 6):
        shape.update({"class": "embed-pattern-leaves-the-package", "pattern": m.group(1),
                      "pattern_has_dotdot_element": ".." in m.group(1).split("/")})
        return shape, next((l for l in lines if "invalid pattern syntax" in l), head)
    m = re.search(r"ec\.resolvers\.(\w+) undefined \(type ResolverRoot has no field or method", msg)
    if m and rc in (3, 6):
        is_input = bool(re.search(r"^(extend )?input %s\b" % re.escape(m.group(1)), schema, re.M | re.I))
        shape.update({"class": "resolver-root-lacks-a-called-resolver", "type_is_input_object": is_input,
                      "exec_layout": "follow-schema" if re.search(r"^exec:\n(  [^\n]*\n)*?  layout: follow-schema", yml, re.M) else "single-file"})
        return shape, next((l for l in lines if "ec.resolvers." in l and "undefined" in l), head)
    norm = re.sub(r"[\w./-]*/([\w.-]+\.go):\d+:\d+", r"\1", head)
    norm = re.sub(r"c17[rd]\w+", "P", norm)
    shape.update({"class": "other", "message": norm[:200]})
    return shape, head


def read_filekinds(d):
    """filekinds.tsv of a c17f project -> {meta…, files: [(file, content class, flags o/i/a/r)]} or None"""
    txt = read(os.path.join(d, "filekinds.tsv"))
    if not txt:
        return None
    out = {"files": []}
    for l in txt.split("\n"):
        f = l.split("\t")
        if f[0] == "file" and len(f) >= 4:
            out["files"].append((f[1], f[2], f[3]))
        elif len(f) == 2:
            out[f[0]] = f[1]
    return out


def read_dirargs(d):
    txt = read(os.path.join(d, "dirargs.tsv"))
    return dict(l.split("\t", 1) for l in txt.split("\n") if "\t" in l) if txt else None


def schema_files(d):
    return {f: read(os.path.join(d, f)) for f in sorted(os.listdir(d)) if f.endswith((".graphql", ".graphqls"))}


def _exec_directives(text):
    """names of the directives a schema text defines on an executable location, with those locations"""
    text = re.sub(r'"""[\s\S]*?"""|"(?:\\.|[^"\\])*"|#[^\n]*', "", text)
    out = []
    for m in re.finditer(r"directive\s+@(\w+)[^@]*?\bon\b([\s|A-Z_]+)", text):
        locs = set(re.findall(r"[A-Z_]+", m.group(2))) & {"QUERY", "MUTATION", "SUBSCRIPTION", "FIELD"}
        if locs:
            out.append((m.group(1), locs))
    return out


def files_defining_only_executable_directives(d):
    """schema files that define a directive on QUERY / MUTATION / SUBSCRIPTION / FIELD and no type at all"""
    out = []
    for f, text in schema_files(d).items():
        bare = re.sub(r'"""[\s\S]*?"""|"(?:\\.|[^"\\])*"|#[^\n]*', "", text)
        if _exec_directives(text) and not re.search(r"^\s*(type|input|interface|union|enum|scalar)\s", bare, re.M):
            out.append(f)
    return out


def executable_directive_files(d):
    """the largest number of schema files that define a directive on one and the same executable location"""
    per = Counter()
    for f, text in schema_files(d).items():
        for loc in set().union(*[l for _, l in _exec_directives(text)] or [set()]):
            per[loc] += 1
    return max(per.values()) if per else 0


def run(ctx):
    import time
    t0 = time.time()
    timings = ctx.cov.setdefault("timings_s", {})
    ctx.assumptions += [
        "PARTIAL: 'generation succeeds and the generated packages type-check for all schemas x configurations' is NOT a theorem (Go's type checker, text/template, go/packages and x/tools/imports are outside the model); it is sampled by the generate-and-build sweep of this run",
        "the naming model covers ASCII names (GraphQL names are ASCII); unicode.IsLower/IsUpper/IsDigit/IsSpace, strings.ToUpper/ToLower are modelled on that range and tied by the differential run",
        "emitted-identifier model covers the model file (types, enum constants, All<Enum> vars, struct fields) and the <T>Resolver interfaces (method + parameter names); generated executor internals are covered by the build sweep only",
        "hypotheses of emitted_nodup_per_scope (fields / arguments of one type normalise to distinct Go names, no type named All<Enum>) are preconditions the sweep's grammar respects; gqlgen does not claim to handle those collisions",
    ]
    ctx.assumptions += [
        "type-reference model (Model/TypeRef.lean) covers leaf types (scalars / enums with a binding); pointer plumbing (&res, *v, IsTargetNilable) is transparent in the model and checked by the Go compiler in the sweep; null propagation out of [T!] and errors of bound functions are not modelled",
        "execution of bindings projects: resolvers are reflection-made (return a filled value / their argument / a field-wise copy of their input), the bound functions are exact round trips of a canonical text, so a response leaf shows which bound function was called and with which whole value",
    ]
    ctx.assumptions += [
        "per-schema-file builds (Model/Builds.lean): a pass of generatePerSchema is the ORDER of its guard / create / load / use statements (Gen/BuildGuards.lean); what each use does with the build, map iteration order and the rendering of a build are not modelled; which definitions count as referenced types is decided by the harness for its own universe of definitions and tied by comparing the generated file set",
        "directive arguments (Model/DirArgs.lean): values by provenance (nil / definition default / value of the use); the unmarshal call, the dumped literal and the directive function's parameter types are left to the Go compiler in the sweep",
        "derived package names (Model/PkgName.lean): the file system is an explicit input of the model (absent / entries with the package clause of each Go file); filepath.Abs / os.ReadDir / go/parser and Go's regexp class \\W are modelled, tied by -mode pkgnames on really created directories and by the package clauses of the generated layout projects",
    ]
    ok_extract = ctx.extract("Keywords", "TypeRefRules", "FuncSyntaxArms", "PkgNameRules", "EmbedRule", "ExecLayoutTwins", "BuildGuards", "DirArgRule", "GenerateSteps")
    proved = ok_extract and ctx.prove(props=["GqlgenVerif.Props.C17", "GqlgenVerif.Props.C17Pkg", "GqlgenVerif.Props.C17Embed", "GqlgenVerif.Props.C17Root",
                                            "GqlgenVerif.Props.C17Files", "GqlgenVerif.Props.C17DirArgs", "GqlgenVerif.Props.C17Regen"])
    if ok_extract and not proved:
        ctx.cov["proof_failure"] = ctx.proof_failure
    timings["extract_and_prove"] = round(time.time() - t0, 1)
    t0 = time.time()

    # ------------------------------------------------------------ names: implementation vs model
    rc, so, se = ctx.harness("c17", ["-mode", "names", "-tier", ctx.tier, "-seed", ctx.seed])
    if rc != 0:
        raise RuntimeError("harness names failed: " + se[-2000:])
    rows = [l.split("\t") for l in so.split("\n") if l]
    have_model = getattr(ctx, "driver_ok", False)
    lines = []
    for r in rows:
        if r[0] == "n":
            lines += ["togo " + r[2], "priv " + r[2]]
        elif r[0] == "m":
            lines.append("model %s %s" % (r[2], r[3]))
        elif r[0] == "t":
            lines.append("tid " + r[1])
    model = ctx.driver("c17", lines) if have_model else [None] * len(lines)
    branch = Counter()
    nontriv = set()
    div = []
    spec_lines, spec_refs = [], []
    k = 0
    kw = set("break default func interface select case defer go map struct chan else goto package switch const fallthrough if range type continue for import return var".split())
    for r in rows:
        if r[0] == "n":
            g, p = model[k], model[k + 1]
            k += 2
            name = unhex(r[2])
            branch["name:" + r[1]] += 1
            if "_" in name or name.lower() in kw or re.search(r"\d", name) or name != name.lower():
                nontriv.add("n" + r[2])
            if (g is not None and (g != r[3] or p != r[4])) or r[3].startswith("PANIC") or r[4].startswith("PANIC"):
                div.append(("name", r, (g, p)))
            # Spec on the implementation's own output, for names inside the proved domain:
            # GraphQL name whose first non-underscore character is a letter
            if re.fullmatch(r"_*[A-Za-z][_0-9A-Za-z]*", name):
                spec_lines += ["chkid " + r[3], "chkid " + r[4]]
                spec_refs += [("ToGo", r), ("ToGoPrivate", r)]
            elif re.fullmatch(r"_+[0-9][_0-9A-Za-z]*", name):
                branch["name:underscores-then-digit"] += 1
                spec_lines += ["chkid " + r[3]]
                spec_refs += [("ToGo", r)]
        elif r[0] == "m":
            m = model[k]
            k += 1
            branch["registry:" + r[1]] += 1
            outs = r[4].split(";")
            if len(set(outs)) != len(outs) or any(o[-2:] in ("30", "31") for o in outs):
                nontriv.add("m" + r[3])
            if m is not None and m != r[4]:
                div.append(("registry", r, m))
            spec_lines.append("chknames " + r[5])
            spec_refs.append(("ToGoModelName", r))
        elif r[0] == "t":
            m = model[k]
            k += 1
            branch["typeidentifier"] += 1
            nontriv.add("t" + r[1])
            if m is not None and m != r[2]:
                div.append(("typeidentifier", r, m))
    if have_model:
        verdicts = ctx.driver("c17", spec_lines)
        for v, (fn, r) in zip(verdicts, spec_refs):
            if v == "ok":
                continue
            if fn == "ToGoModelName":
                ctx.violation({"kind": "spec", "function": fn, "calls": r[3], "names": r[4], "verdict": v,
                               "shape": {"function": fn, "verdict": v},
                               "replay": "templates.%s from an empty registry on calls %s handed out %s" % (
                                   "ToGoPrivateModelName" if r[2] == "P" else fn,
                                   [[unhex(x) for x in c.split(",")] for c in r[3].split(";")], [unhex(x) for x in r[4].split(";")])})
            else:
                name = unhex(r[2])
                outp = unhex(r[3] if fn == "ToGo" else r[4])
                ctx.violation({"kind": "spec", "function": fn, "input": name, "output": outp, "verdict": v,
                               "shape": {"function": fn, "verdict": v,
                                         "name_is_underscores_then_digit": bool(re.fullmatch(r"_+[0-9][_0-9A-Za-z]*", name))},
                               "replay": "templates.%s(%r) = %r is not a valid Go identifier (or is a keyword)" % (fn, name, outp)})
    for kind, r, m in div[:30]:
        # a divergence between model and implementation: the theorems no longer speak about this code
        rep = {"kind": "correspondence", "case_kind": kind, "case": r, "model": m,
               "replay": "templates naming function on %s: implementation %s, model %s" % (
                   [unhex(x) for x in r[2:3]] if kind == "name" else r[1:4], [unhex(x) for x in r[3:5]] if kind == "name" else r[-2:], m)}
        failing = False
        if kind == "name" and have_model:
            vs = ctx.driver("c17", ["chkid " + r[3], "chkid " + r[4]])
            name = unhex(r[2])
            if re.fullmatch(r"_*[A-Za-z][_0-9A-Za-z]*", name) and (vs[0] != "ok" or vs[1] != "ok" or r[3].startswith("PANIC")):
                failing = True
            rep["shape"] = {"function": "ToGo/ToGoPrivate", "verdict": ",".join(vs)}
        ctx.violation(rep, no_failing_input=not failing)

    # ------------------------------------------------------------ type references: real predicates / Elem() chains vs model
    rc, so, se = ctx.harness("c17", ["-mode", "typerefs", "-tier", ctx.tier, "-seed", ctx.seed])
    if rc != 0:
        raise RuntimeError("harness typerefs failed: " + se[-2000:])
    trows = [l.split("\t") for l in so.split("\n") if l.startswith("r\t")]
    tref_div = 0
    tref_bad = []
    if have_model:
        tmodel = ctx.driver("c17", ["tref %s %s %s %s" % (r[1], r[2], r[3], r[4]) for r in trows])
        tspec = ctx.driver("c17", ["chktref " + r[5] for r in trows])
        reported = set()
        for r, m, v in zip(trows, tmodel, tspec):
            branch["typeref:" + r[1]] += 1
            nontriv.add("tr" + "/".join(r[1:5]))
            desc = "config.TypeReference{GQL: %s, GO: %s(target %s)} (omit_slice_element_pointers=%s): IsSlice/IsPtrToSlice/IsPtrToPtr/IsPtrToIntf/IsNilable:GO:GQL down the Elem() chain = %s" % (
                r[3], "CopyModifiersFromAst" if r[1] == "cm" else "", r[4], r[2], r[5])
            if v != "ok":
                tref_bad.append([r[1], r[2], r[3], r[4], r[5], v])
                if v in reported:
                    continue
                reported.add(v)
                ctx.violation({"kind": "spec", "what": "type reference", "case": r, "verdict": v, "model": m,
                               "shape": {"stage": "typeref", "verdict": v, "target": r[4]},
                               "replay": desc + " -> " + v + " (a named GraphQL type must never be treated as a list; go/harness/c17 -mode typerefs)"})
            elif m != r[5]:
                tref_div += 1
                if tref_div <= 5:
                    ctx.violation({"kind": "correspondence", "what": "type reference predicates", "case": r, "model": m,
                                   "replay": desc + "; Model/TypeRef.lean says " + m}, no_failing_input=True)
    ctx.cov["typerefs"] = {"cases": len(trows), "divergences": tref_div, "spec_failures": len(tref_bad), "spec_failure_cases": tref_bad[:40]}

    # ------------------------------------------------------------ derived package names: real Check() vs model
    pkg_rows = run_pkgnames(ctx, have_model, branch, nontriv)

    timings["names_typerefs_pkgnames"] = round(time.time() - t0, 1)
    t0 = time.time()
    # ------------------------------------------------------------ sweep: real generation of random + directed projects
    sweep = run_sweep(ctx, have_model, branch, nontriv)
    timings["sweep"] = round(time.time() - t0, 1)
    timings.update(sweep.pop("timings", {}))
    failed_inputs = sweep.pop("failed_inputs")

    # ------------------------------------------------------------ proof failure: search for a failing input
    # (after the sweep, so that a project that fails for the same reason can be attached as the concrete input)
    if ok_extract and not proved:
        found = False
        if have_model:
            # directed search on the regenerated tables: every Go keyword through the model's ToGoPrivate
            kws = sorted(kw)
            outs = ctx.driver("c17", ["priv " + k.encode().hex() for k in kws])
            for kword, o in zip(kws, outs):
                if unhex(o) in kw:
                    impl = next((unhex(r[4]) for r in rows if r[0] == "n" and unhex(r[2]) == kword), None)
                    ctx.violation({"kind": "proof", "failing": ctx.proof_failure, "shape": {"function": "ToGoPrivate", "verdict": "keyword"},
                                   "replay": "ToGoPrivate(%r) = %r is a Go keyword (model on regenerated tables: %r)" % (kword, impl, unhex(o))})
                    found = True
                    break
            # the regenerated flavour table: switches whose function-syntax arm is not the translation of the method arm
            flav = ctx.driver("c17", ["flav"])[0]
            if flav != "ok":
                fn_fail = next((f for f in failed_inputs if f["function_syntax"]), None)
                for item in flav.split(" ## ")[:4]:
                    loc, want, got = (item.split(" @@ ") + ["", ""])[:3]
                    rep = {"kind": "proof", "failing": ctx.proof_failure, "template": "codegen/" + loc,
                           "function_syntax_arm": got, "translation_of_the_method_syntax_arm": want,
                           "shape": {"stage": "template-flavours", "class": "function-arm-differs-from-method-arm", "template": loc}}
                    txt = "codegen/%s: under use_function_syntax_for_execution_context: true the template emits `%s`; the method-syntax arm translated to function syntax is `%s` (theorem function_arm_is_translation_of_method_arm over Gen/FuncSyntaxArms.lean)" % (loc, got, want)
                    if fn_fail:
                        rep["input"] = fn_fail["input"]
                        rep["replay"] = txt + "; failing input: project %s (go/genout/c17/%s, schema files + gqlgen.yml in `input`): %s" % (
                            fn_fail["project"], fn_fail["project"], fn_fail["error"][:300])
                        ctx.violation(rep)
                    else:
                        rep["replay"] = txt
                        ctx.violation(rep, no_failing_input=True)
                    found = True
            # the regenerated exec-layout twins: where root_.gotpl leaves the single-file blocks of generated!.gotpl, and
            # which resolver a layout's ResolverRoot does not declare although the executor calls it
            tw = ctx.driver("c17", ["twin"])[0]
            rds = ctx.driver("c17", ["rootdecl %s Query:1,Item:0 Filter:1,Plain:0" % l for l in ("single-file", "follow-schema")])
            for layout, rd in zip(("single-file", "follow-schema"), rds):
                f = dict(x.split("=", 1) for x in rd.split(" ") if "=" in x)
                if f.get("missing", "-") == "-":
                    continue
                fail = next((x for x in failed_inputs if x.get("class") == "resolver-root-lacks-a-called-resolver" and x["follow_schema"] == (layout == "follow-schema")), None)
                rep = {"kind": "proof", "failing": ctx.proof_failure, "exec_layout": layout, "resolver_root_declares": f.get("declared"), "executor_calls": f.get("called"),
                       "shape": {"stage": "exec-layout-twins", "class": "resolver-root-lacks-a-called-resolver", "exec_layout": layout}}
                txt = "exec layout %s, schema with `input Filter` carrying a field resolver (`@goField(forceResolver: true)`): the regenerated `type ResolverRoot interface` of %s declares %s, the executor calls ec.resolvers.<T>() for %s - `%s()` is missing (theorem resolver_calls_declared over Gen/ExecLayoutTwins.lean)" % (
                    layout, "codegen/root_.gotpl" if layout == "follow-schema" else "codegen/generated!.gotpl", f.get("declared"), f.get("called"), f.get("missing"))
                if fail:
                    rep["input"] = fail["input"]
                    rep["replay"] = txt + "; failing input: project %s (go/genout/c17/%s, files in `input`): %s" % (fail["project"], fail["project"], fail["error"][:300])
                    ctx.violation(rep)
                else:
                    rep["replay"] = txt
                    ctx.violation(rep, no_failing_input=True)
                found = True
            if tw != "ok" and not found:
                parts = (tw.split(" @@ ") + [""] * 5)[:5]
                ctx.violation({"kind": "proof", "failing": ctx.proof_failure, "token_index": parts[0], "single_file_blocks_have": parts[1], "root_template_has": parts[2],
                               "shape": {"stage": "exec-layout-twins", "class": "root-template-differs-from-single-file-blocks"},
                               "replay": "codegen/root_.gotpl (exec layout follow-schema) is no longer the twin of the single-file blocks of codegen/generated!.gotpl: at token %s the single-file blocks have `%s` (… %s …), root_.gotpl has `%s` (… %s …) (theorem follow_root_is_single_file_twin)" % (
                                   parts[0], parts[1], parts[3], parts[2], parts[4])}, no_failing_input=True)
                found = True
            # the regenerated embeddable decision of BuildData on a grid of schema locations around an exec directory
            grid = []
            for ex in ("/w/p/graph", "/w/p/internal/graph", "/w/p"):
                par, base = os.path.split(ex)
                for cls, src in (("in", ex + "/in.graphqls"), ("sub", ex + "/schema/sub.graphqls"), ("deep", ex + "/a/b/deep.graphqls"),
                                 ("dotdot", ex + "/..hidden/x.graphqls"), ("sibpre", par + "/" + base + "ql/x.graphqls"), ("sibhyp", par + "/" + base + "-schema/x.graphqls"),
                                 ("sibdot", par + "/" + base + ".d/x.graphqls"), ("sibund", par + "/" + base + "_schema/x.graphqls"), ("sibshort", par + "/" + base[:-1] + "/x.graphqls"),
                                 ("sib", par + "/schemas/x.graphqls"), ("parent", par + "/parent.graphqls"), ("parentpre", par + "/" + base + ".graphqls"),
                                 ("parentql", par + "/" + base + "ql.graphqls"), ("root", "/w/root.graphqls")):
                    grid.append((ex, cls, src))
            gouts = ctx.driver("c17", ["embed %s %s 0" % (ex.encode().hex(), src.encode().hex()) for ex, cls, src in grid])
            impl_fail = sweep.get("schema_locations", {}).get("failing", [])
            seen_cls = set()
            for (ex, cls, src), go in zip(grid, gouts):
                f = dict(x.split("=", 1) for x in go.split(" ") if "=" in x)
                if not (f.get("emb") == "1" and f.get("valid") == "0") or cls in seen_cls or len(seen_cls) >= 3:
                    continue
                seen_cls.add(cls)
                same = next((x for x in impl_fail if x["class"] == cls), None) or (impl_fail[0] if impl_fail else None)
                fail = next((x for x in failed_inputs if same and x["project"] == same["project"]), None)
                rep = {"kind": "proof", "failing": ctx.proof_failure, "exec_dir": ex, "schema_file": src, "relative_path": unhex(f.get("rel", "-")),
                       "shape": {"stage": "embed", "class": "embeds-a-file-outside-the-exec-directory", "schema_location": [cls]}}
                txt = "exec output directory %s, schema file %s (location class %s): the regenerated decision of codegen.BuildData marks it embeddable, the executor would say `//go:embed \"%s\"` - not a valid pattern, the file is not below the exec directory (theorems embedded_only_below_output_dir / embedded_pattern_valid over Gen/EmbedRule.lean)" % (
                    ex, src, cls, unhex(f.get("rel", "-")))
                if same:
                    rep["implementation"] = same
                    if fail:
                        rep["input"] = fail["input"]
                    txt += "; the real generator does the same: project %s (go/genout/c17/%s%s) embeds `%s`" % (same["project"], same["project"], ", files in `input`" if fail else "", same["pattern"])
                rep["replay"] = txt
                ctx.violation(rep, no_failing_input=not same)
                found = True
            # the regenerated passes of generatePerSchema: a pass whose loop body can dereference a nil build, and a
            # distribution of definitions over schema files for which the model over the regenerated steps panics
            ps = ctx.driver("c17", ["passsafe"])[0]
            for item in ps.split(" "):
                name, _, verdict = item.partition("=")
                if verdict in ("safe", ""):
                    continue
                pass_name, field = (name.split(":") + ["?"])[:2]
                grid = {"Objects": "persch schema,extra,prelude - - schema,prelude", "Inputs": "persch schema,prelude schema,inputs - schema,inputs,prelude",
                        "Interfaces": "persch schema,prelude - abstract schema,abstract,prelude", "ReferencedTypes": "persch schema,prelude - - schema,enums,prelude"}
                mo = ctx.driver("c17", [grid.get(field, grid["Interfaces"])])[0]
                fail = next((x for x in failed_inputs if x.get("class") == "per-schema-build-missing"), None) or next((x for x in failed_inputs if x["project"].startswith("c17f")), None)
                rep = {"kind": "proof", "failing": ctx.proof_failure, "pass": pass_name, "ranges_over": "data." + field, "model_on_regenerated_steps": mo,
                       "shape": {"stage": "per-schema-files", "class": "per-schema-build-missing", "pass": pass_name}}
                txt = "exec layout follow-schema: the loop body of codegen.%s (codegen/generate.go) uses the build of a schema file although it can still be nil (%s): e.g. schema.graphqls with the objects + a file that holds only what data.%s ranges over -> %s (theorem every_pass_reaches_a_build over Gen/BuildGuards.lean)" % (
                    pass_name, verdict, field, mo)
                if fail:
                    rep["input"] = fail["input"]
                    txt += "; the real generator does the same: project %s (go/genout/c17/%s, files in `input`): %s" % (fail["project"], fail["project"], fail["error"][:300])
                rep["replay"] = txt
                ctx.violation(rep, no_failing_input=not fail)
                found = True
            # the regenerated ResolveArgs / implDirectives: a definition default x use for which the closure the model
            # assembles from the regenerated facts names a local it does not declare (or declares one it does not pass)
            combos = [(d, u) for d in "nzv" for u in "ozv"]
            douts = ctx.driver("c17", ["dirarg %s %s" % c for c in combos])
            dname = {"n": "no default", "z": "the default `= null`", "v": "a default value"}
            uname = {"o": "the argument left out", "z": "the argument given as `null`", "v": "the argument given"}
            bad = [(c, o) for c, o in zip(combos, douts) if "ok=1" not in o]
            if bad:
                fail = next((x for x in failed_inputs if x.get("class") == "directive-argument-local-mismatch"), None)
                (d, u), o = bad[0]
                f = dict(x.split("=", 1) for x in o.split(" ") if "=" in x)
                rep = {"kind": "proof", "failing": ctx.proof_failure, "failing_definition_default_x_use": ["%s / %s" % (dname[a], uname[b]) for (a, b), _ in bad],
                       "model_on_regenerated_rules": o,
                       "shape": {"stage": "directive-arguments", "class": "directive-argument-local-mismatch", "definition_default_and_use": sorted("%s.%s" % c for c, _ in bad)}}
                txt = "a runtime directive whose argument has %s in its definition, applied with %s (`directive @limit(max: Int%s)`, `field: T @limit%s`): the regenerated ResolveArgs passes `%s`, the regenerated implDirectives chain declares %s (theorems passed_local_iff_declared / directive_closure_matches_effective_value over Gen/DirArgRule.lean)" % (
                    dname[d], uname[u], {"n": "", "z": " = null", "v": " = 100"}[d], {"o": "", "z": "(max: null)", "v": "(max: 5)"}[u],
                    f.get("passed", "?") + ("max" if f.get("passed") != "nil" else ""), "no local" if f.get("declared_m") == "none" else "`%smax` from the %s value" % tuple(f.get("declared_m", "?:?").split(":")))
                if fail:
                    rep["input"] = fail["input"]
                    txt += "; failing input: project %s (go/genout/c17/%s, files in `input`): %s" % (fail["project"], fail["project"], fail["error"][:300])
                rep["replay"] = txt
                ctx.violation(rep, no_failing_input=not fail)
                found = True
            # the regenerated NameForDir / SanitizePackageName: a directory name x state for which the MODEL over the
            # regenerated definitions derives something that cannot stand in a package clause
            derived = [r for r in pkg_rows if not state_has_clause(r[4])]
            mouts = ctx.driver("c17", ["secpkg %s - %s %s" % (r[1], r[3], r[4]) for r in derived])
            mver = ctx.driver("c17", ["chkpkg " + (m if re.fullmatch(r"[0-9a-f]+|-", m) else "-") for m in mouts])
            seen_states = set()
            lay_fail = next((f for f in failed_inputs if f["project"].startswith("c17l")), None)
            for r, m, v in zip(derived, mouts, mver):
                if v == "ok" or state_class(r[4]) in seen_states or len(seen_states) >= 3:
                    continue
                seen_states.add(state_class(r[4]))
                name = unhex(r[3])
                rep = {"kind": "proof", "failing": ctx.proof_failure, "section": r[1], "directory_name": name, "directory_state": describe_state(r[4]),
                       "model_on_regenerated_rules": unhex(m), "implementation": unhex(r[5]) if not r[5].startswith(("ERR", "PANIC")) else r[5],
                       "shape": {"stage": "derived-package-name", "class": "derived-name-is-not-a-package-name", "directory_state": state_class(r[4]),
                                 "name_class": name_class(name)}}
                txt = "%s section with `package:` omitted, output directory %r (%s): the regenerated NameForDir / SanitizePackageName derive %r (real Check(): %r), which cannot stand in a package clause (theorems of Props/C17Pkg.lean over Gen/PkgNameRules.lean)" % (
                    r[1], name, describe_state(r[4]), unhex(m), rep["implementation"])
                if lay_fail:
                    rep["input"] = lay_fail["input"]
                    txt += "; failing project %s (go/genout/c17/%s, files in `input`): %s" % (lay_fail["project"], lay_fail["project"], lay_fail["error"][:300])
                rep["replay"] = txt
                # the input is concrete when the real implementation derives the same unusable name
                ctx.violation(rep, no_failing_input=(m != r[5]))
                found = True
        if have_model and any("C17Regen" in str(x) or "previous_output_removed" in str(x) or "directory_state" in str(x) or "schema_of_this_run" in str(x)
                              for x in (ctx.proof_failure or [])):
            # the regenerated statement order of api.Generate on the tree model: autobind x stale models file
            grid = [(ab, st) for ab in ("1", "0") for st in ("none", "Todo,User", "Todo,User,Gone")]
            outs = ctx.driver("c17", ["regen %s Todo,User,RegenAdded - %s" % g for g in grid])
            bad = [(g, o) for g, o in zip(grid, outs) if not o.endswith("spec=ok")]
            rf = (sweep.get("regeneration") or {}).get("failed") or []
            for (ab, st), o in bad[:2]:
                rep = {"kind": "proof", "failing": ctx.proof_failure, "model_on_regenerated_order": o,
                       "shape": {"stage": "second-generation-in-the-same-directory", "class": "regenerated-order-of-api.Generate-reads-stale-output",
                                 "model_package_autobound": ab == "1", "stale_models_file": st != "none"}}
                txt = ("schema types Todo, User, RegenAdded, model package %s, directory holds %s: api.Generate's statements in the order regenerated from api/generate.go "
                       "(Gen/GenerateSteps.lean) give `%s` on the tree model (theorems of Props/C17Regen.lean)" % (
                           "autobound" if ab == "1" else "not autobound", "no models file" if st == "none" else "a models file declaring " + st, o))
                if rf:
                    rep["input"] = rf[0]["input"]
                    txt += "; failing project %s (autobind=%s, %s): %s" % (rf[0]["project"], rf[0]["autobind"], rf[0]["edit"], rf[0]["error"][:300])
                rep["replay"] = txt
                ctx.violation(rep, no_failing_input=not rf)
                found = True
        if not found and not any(not nf for _, nf in ctx.violations):
            ctx.violation({"kind": "proof", "failing": ctx.proof_failure}, no_failing_input=True)

    ctx.cov.update({
        "evaluations": len(rows) + sweep["projects"],
        "distinct_nontrivial": len(nontriv),
        "rule": "names: directed (keywords, predeclared, every initialism in 16 shapes, underscore/digit shapes) + every string over {a,B,I,D,_,1,d,P,-} up to length 4 (6 thorough) + seeded random word soups + malformed ASCII; registry: seeded call sequences over a pool built to collide; TypeIdentifier: random pointer/slice nestings. Non-trivial = name containing an underscore, digit, upper case or keyword; a registry sequence with at least one collision; each generated project",
        "input_distribution": dict(branch),
        "correspondence_divergences": len(div),
        "sweep": sweep,
        "samples": [rows[5], rows[len(rows) // 3], next(r for r in rows if r[0] == "m"), next(r for r in rows if r[0] == "t")],
        "sampled_not_proved": ["generation succeeds / never panics", "generated exec, model, resolver and stub packages type-check", "text/template, go/types, x/tools/imports"],
    })


# ---------------------------------------------------------------- derived package names
GO_KW = set("break default func interface select case defer go map struct chan else goto package switch const fallthrough if range type continue for import return var".split())


def name_class(name):
    if name in GO_KW:
        return "keyword"
    if name[:1].isdigit():
        return "leading-digit"
    if any(ord(c) >= 128 for c in name):
        return "non-ascii"
    if re.fullmatch(r"[A-Za-z_][A-Za-z0-9_]*", name):
        return "upper-case" if name != name.lower() else "identifier"
    if "-" in name and "." in name:
        return "hyphen-and-dot"
    if "-" in name:
        return "hyphen"
    if "." in name:
        return "dot"
    return "other-non-identifier"


def state_entries(enc):
    if not enc.startswith("E:"):
        return []
    return [(unhex(e.split("=")[0]), None if e.split("=")[1] == "-" else unhex(e.split("=")[1])) for e in enc[2:].split(",")]


def state_has_clause(enc):
    """a Go file of the directory parses: NameForDir reads the name instead of deriving it"""
    return any(c is not None and n.lower().endswith(".go") for n, c in state_entries(enc))


def state_class(enc):
    if enc == "U":
        return "absent"
    es = state_entries(enc)
    if not es:
        return "empty"
    if state_has_clause(enc):
        return "go-files"
    if any(n.lower().endswith(".go") for n, _ in es):
        return "unparsable-go-files-only"
    return "non-go-files-only"


def describe_state(enc):
    c = state_class(enc)
    if c == "absent":
        return "does not exist yet"
    if c == "empty":
        return "exists and is empty"
    return "exists and holds " + ", ".join(n + (" (package %s)" % cl if cl else "") for n, cl in state_entries(enc))


def run_pkgnames(ctx, have_model, branch, nontriv):
    rc, so, se = ctx.harness("c17", ["-mode", "pkgnames", "-tier", ctx.tier, "-seed", ctx.seed])
    if rc != 0:
        raise RuntimeError("harness pkgnames failed: " + se[-2000:])
    rows = [l.split("\t") for l in so.split("\n") if l.startswith("k\t")]
    stats = {"cases": len(rows), "divergences": 0, "spec_failures": 0, "by_name_class_and_state": Counter()}
    if not have_model:
        ctx.cov["derived_package_names"] = stats
        return rows
    model = ctx.driver("c17", ["secpkg %s - %s %s" % (r[1], r[3], r[4]) for r in rows])
    spec = ctx.driver("c17", ["chkpkg " + (r[5] if re.fullmatch(r"[0-9a-f]+|-", r[5]) else "-") for r in rows])
    reported = set()
    for r, m, v in zip(rows, model, spec):
        name = unhex(r[3])
        nc, sc = name_class(name), state_class(r[4])
        branch["pkgname:%s:%s" % (nc, sc)] += 1
        stats["by_name_class_and_state"]["%s/%s" % (nc, sc)] += 1
        if nc != "identifier":
            nontriv.add("k%s/%s/%s" % (r[3], sc, r[1]))
        derived = not state_has_clause(r[4])
        cfgtxt = {"exec": "exec: {%s}" % ("filename: %s/generated.go" % name if r[2] == "single-file" else "layout: follow-schema, dir: %s" % name),
                  "model": "model: {filename: %s/models_gen.go}" % name,
                  "resolver": "resolver: {%s}" % ("filename: %s/resolver.go" % name if r[2] == "single-file" else "layout: follow-schema, dir: %s" % name)}[r[1]]
        desc = "gqlgen.yml `%s` with `package:` omitted, directory %r %s: (*%s).Check() leaves Package = %r" % (
            cfgtxt, name, describe_state(r[4]), {"exec": "ExecConfig", "model": "PackageConfig", "resolver": "ResolverConfig"}[r[1]],
            unhex(r[5]) if re.fullmatch(r"[0-9a-f]+|-", r[5]) else r[5])
        if derived and v != "ok":
            # Spec on the implementation's own output: a derived name must be able to stand in a package clause
            stats["spec_failures"] += 1
            key = (nc, sc)
            if key in reported or len(reported) >= 4:
                continue
            reported.add(key)
            ctx.violation({"kind": "spec", "what": "derived package name", "section": r[1], "layout": r[2], "directory_name": name,
                           "directory_state": describe_state(r[4]), "derived": unhex(r[5]) if re.fullmatch(r"[0-9a-f]+|-", r[5]) else r[5], "verdict": v,
                           "shape": {"stage": "derived-package-name", "class": "derived-name-is-not-a-package-name", "name_class": nc, "directory_state": sc},
                           "replay": desc + ", which is not a valid Go package name: every generated file of the section starts with `package %s` and generation fails (go/harness/c17 -mode pkgnames)" % (unhex(r[5]) if re.fullmatch(r"[0-9a-f]+|-", r[5]) else r[5])})
        elif m != r[5]:
            stats["divergences"] += 1
            if stats["divergences"] <= 4:
                ctx.violation({"kind": "correspondence", "what": "derived package name", "case": r, "model": m,
                               "replay": desc + "; Model/PkgName.lean over Gen/PkgNameRules.lean says %r" % unhex(m)}, no_failing_input=True)
    stats["by_name_class_and_state"] = dict(stats["by_name_class_and_state"])
    ctx.cov["derived_package_names"] = stats
    return rows


def read_layout(d):
    """layout.tsv of a c17l project -> (meta dict, [section rows: role, dir, configured hex|-, base hex, state enc, state, name class])"""
    meta, secs = {}, []
    for l in read(os.path.join(d, "layout.tsv")).split("\n"):
        f = l.split("\t")
        if f[0] == "section" and len(f) >= 8:
            secs.append(f[1:8])
        elif len(f) == 2:
            meta[f[0]] = f[1]
    return meta, secs


def layout_shape(d):
    meta, secs = read_layout(d)
    return {"exec_layout": meta.get("exec_layout"), "resolver_layout": meta.get("resolver_layout"),
            "sections": ["%s:%s:%s:%s" % (r[0], r[6], state_class(r[4]), "package-omitted" if r[2] == "-" else "package-given") for r in secs]}


def run_sweep(ctx, have_model, branch, nontriv):
    n = 24 if ctx.tier == "quick" else 160
    root = os.path.join(vf.GO, "genout", "c17")
    shutil.rmtree(root, ignore_errors=True)
    os.makedirs(root)
    rc, so, se = ctx.harness("c17", ["-mode", "schemas", "-out", root, "-n", n, "-seed", ctx.seed, "-tier", ctx.tier,
                                     "-bindings", "-corpus", os.path.join(vf.VERIF, "corpus", "C17", "bindings.txt"),
                                     "-rootrefs", "-rootcorpus", os.path.join(vf.VERIF, "corpus", "C17", "rootrefs.txt"),
                                     "-layouts", "-layoutcorpus", os.path.join(vf.VERIF, "corpus", "C17", "layouts.txt"),
                                     "-inputres", "-inputcorpus", os.path.join(vf.VERIF, "corpus", "C17", "inputres.txt"),
                                     "-schemalocs", "-loccorpus", os.path.join(vf.VERIF, "corpus", "C17", "schemalocs.txt"),
                                     "-filekinds", "-filecorpus", os.path.join(vf.VERIF, "corpus", "C17", "filekinds.txt"),
                                     "-dirargs", "-dirargcorpus", os.path.join(vf.VERIF, "corpus", "C17", "dirargs.txt"),
                                     "-regen", "-regencorpus", os.path.join(vf.VERIF, "corpus", "C17", "regen.txt")])
    if rc != 0:
        raise RuntimeError("harness schemas failed: " + se[-2000:])
    projects = [l.split("\t")[1] for l in so.split("\n") if l.startswith("project\t")]
    hbin = os.path.join(vf.CACHE, "h_c17")
    env = vf.go_env()
    env["GOMEMLIMIT"] = "3GiB"

    def gen(p):
        d = os.path.join(root, p)
        rc, so, se = vf.sh([hbin, "-mode", "gen", "-dir", d], cwd=vf.GO, env=env, timeout=600)
        open(os.path.join(d, "gen.err"), "w").write(se)
        return p, rc, se

    import time
    tm = {}
    t0 = time.time()
    results = {}
    with ThreadPoolExecutor(max_workers=8) as ex:
        for p, rc, se in ex.map(gen, projects):
            results[p] = (rc, se)
    ok = [p for p in projects if results[p][0] == 0]
    tm["sweep_generate"] = round(time.time() - t0, 1)
    t0 = time.time()

    # "autobind / no models" point of the configuration space: the models generated for a project become the
    # user's hand-written package of a second project that has no `model:` section and autobinds to it
    nab = 3 if ctx.tier == "quick" else 24
    ab = []
    for p in ok:
        src = os.path.join(root, p, "model", "models_gen.go")
        if len(ab) >= nab or not p.startswith("c17r") or not os.path.exists(src):
            continue
        q = p + "ab"
        d = os.path.join(root, q)
        os.makedirs(os.path.join(d, "mdl"))
        for f in os.listdir(os.path.join(root, p)):
            if f.endswith(".graphql"):
                shutil.copy(os.path.join(root, p, f), d)
        shutil.copy(src, os.path.join(d, "mdl"))
        y = read(os.path.join(root, p, "gqlgen.yml"))
        y = y.replace("model:\n  filename: model/models_gen.go\n  package: model\n", "").replace("package: %s\n" % p, "package: %s\n" % q)
        y += "autobind:\n  - verifharness/genout/c17/%s/mdl\n" % q
        open(os.path.join(d, "gqlgen.yml"), "w").write(y)
        ab.append(q)
    with ThreadPoolExecutor(max_workers=8) as ex:
        for p, rc, se in ex.map(gen, ab):
            results[p] = (rc, se)
    projects += ab
    ok += [p for p in ab if results[p][0] == 0]

    tm["sweep_autobind"] = round(time.time() - t0, 1)
    t0 = time.time()
    # independent second opinion: the Go compiler on everything that was generated without error
    build_fail = {}
    if ok:
        rc, so, se = vf.sh(["go", "build"] + ["./genout/c17/%s/..." % p for p in ok], cwd=vf.GO, env=vf.go_env(), timeout=1800)
        if rc != 0:
            cur = None
            for l in (so + se).split("\n"):
                m = re.match(r"# verifharness/genout/c17/(\w+)", l)
                if m:
                    cur = m.group(1)
                    continue
                m2 = re.match(r"genout/c17/(\w+)/", l)
                if m2:
                    cur = m2.group(1)
                if cur and l.strip():
                    build_fail.setdefault(cur, []).append(l)
            if not build_fail:
                raise RuntimeError("go build of generated packages failed without attributable output:\n" + (so + se)[-3000:])

    tm["sweep_go_build"] = round(time.time() - t0, 1)
    t0 = time.time()
    # declared identifiers vs the model's `emitted`
    emit_cmp = 0
    emit_idents = 0

    def decls(p):
        return p, vf.sh([hbin, "-mode", "decls", "-dir", os.path.join(root, p)], cwd=vf.GO, env=env, timeout=300)

    decl_out = {}
    with ThreadPoolExecutor(max_workers=8) as ex:
        for p, (rc, so, se) in ex.map(decls, [p for p in ok if p not in build_fail and not p.endswith("ab") and not p.startswith(("c17b", "c17l", "c17i", "c17s", "c17f", "c17a", "c17g"))]):
            if rc != 0:
                raise RuntimeError("harness decls failed for %s: %s" % (p, (so + se)[-1500:]))
            d = dict(l.split("\t", 1) for l in so.split("\n") if "\t" in l)
            decl_out[p] = d
    if have_model and decl_out:
        ps = sorted(decl_out)
        mouts = ctx.driver("c17", ["emit " + decl_out[p]["schema"] for p in ps])
        specs = ctx.driver("c17", ["chkemit " + (decl_out[p]["impl"] or "pkg=41") for p in ps])
        for p, mo, sv in zip(ps, mouts, specs):
            impl = [x for x in decl_out[p]["impl"].split(";") if x]
            mod = [x for x in mo.split(";") if x]
            emit_cmp += 1
            emit_idents += len(impl)
            iset, mset = Counter(impl), Counter(mod)
            bad = []
            for key in set(iset) | set(mset):
                scope = key.split("=")[0]
                if scope.startswith("res.") or scope.startswith("args."):
                    # only fields that are resolvers appear in the generated interface: implementation ⊆ model,
                    # and the parameter lists of the methods that do appear must be equal
                    if iset[key] > mset[key]:
                        bad.append(key)
                    elif scope.startswith("args.") and iset[key] != mset[key] and any(i.startswith(scope + "=") for i in iset):
                        bad.append(key)
                elif iset[key] != mset[key]:
                    bad.append(key)
            if sv != "ok":
                scope, ident = (sv.split(":") + ["", ""])[2:4]
                ctx.violation({"kind": "spec", "project": p, "verdict": sv,
                               "shape": {"stage": "declared-identifiers", "class": sv.split(":")[1] if ":" in sv else sv},
                               "replay": "project %s (go/genout/c17/%s: schema files + gqlgen.yml): generated code declares %r twice or invalidly in scope %s" % (p, p, unhex(ident), scope)})
            elif bad:
                ctx.violation({"kind": "correspondence", "what": "declared identifiers differ from the model's emitted", "project": p,
                               "differing": [(b.split("=")[0], unhex(b.split("=")[1])) for b in sorted(bad)[:12]],
                               "replay": "project %s: identifiers declared by the generated files differ from Naming.emitted" % p},
                              no_failing_input=True)

    tm["sweep_decls"] = round(time.time() - t0, 1)
    t0 = time.time()
    binding = run_bindings(ctx, have_model, root, [p for p in ok if p.startswith("c17b") and p not in build_fail], hbin, branch, nontriv)
    tm["sweep_bindings_execute"] = round(time.time() - t0, 1)

    layouts = run_layout_clauses(ctx, have_model, root, [p for p in ok if p.startswith("c17l") and p not in build_fail])

    embeds = run_schema_embeds(ctx, have_model, root, [p for p in projects if p.startswith(("c17l", "c17s"))], branch, nontriv)

    file_builds = run_file_builds(ctx, have_model, root, [p for p in projects if p.startswith("c17f")], results, build_fail, branch, nontriv)
    dir_args = dirarg_stats(root, [p for p in projects if p.startswith("c17a")], results, build_fail, branch)

    t0 = time.time()
    regen = run_regeneration(ctx, have_model, root, projects, results, build_fail, gen, branch, nontriv)
    tm["sweep_regenerate"] = round(time.time() - t0, 1)

    classes = Counter()
    samples = []
    failed_inputs = []
    rootref = Counter()
    rootref_shapes = Counter()
    # directed / dimension projects first: their inputs are minimal (bin/check prints the first few violations only)
    for p in sorted(projects, key=lambda q: q.startswith("c17r")):
        rc, se = results[p]
        branch["sweep:" + ("directed" if p.startswith("c17d") else "bindings" if p.startswith("c17b") else "root-typed-fields" if p.startswith("c17t") else "layout" if p.startswith("c17l")
                           else "input-field-resolvers" if p.startswith("c17i") else "schema-locations" if p.startswith("c17s")
                           else "file-contents" if p.startswith("c17f") else "directive-arguments" if p.startswith("c17a")
                           else "regeneration" if p.startswith("c17g") else "autobind-no-models" if p.endswith("ab") else "random")] += 1
        nontriv.add("p" + p)
        yml_p = read(os.path.join(root, p, "gqlgen.yml"))
        fsyn = bool(re.search(r"^use_function_syntax_for_execution_context: true", yml_p, re.M))
        rtf = root_typed_fields("".join(read(os.path.join(root, p, f)) for f in sorted(os.listdir(os.path.join(root, p))) if f.endswith(".graphql")))
        if rtf:
            rootref["projects_with_a_field_of_root_type"] += 1
            rootref["function_syntax" if fsyn else "method_syntax"] += 1
            for h in rtf:
                rootref["holder:" + h + (":function" if fsyn else ":method")] += 1
        if p.startswith("c17t"):
            for l in read(os.path.join(root, p, "rootshapes.tsv")).split("\n"):
                if l.startswith("shapes\t"):
                    for sh in l.split("\t")[1].split():
                        rootref_shapes[(sh, fsyn)] += 1
        if rc == 0 and p not in build_fail:
            classes["ok"] += 1
            continue
        if rc == 0:
            rc, se = 6, "\n".join(build_fail[p])
        shape, head = classify(os.path.join(root, p), rc, se)
        d = os.path.join(root, p)
        files = {f: read(os.path.join(d, f)) for f in sorted(os.listdir(d)) if f.endswith(".graphql") or f == "gqlgen.yml"}
        if p.startswith("c17t"):
            files["rootshapes.tsv"] = read(os.path.join(d, "rootshapes.tsv"))
        if p.startswith("c17i"):
            files["inputshapes.tsv"] = read(os.path.join(d, "inputshapes.tsv"))
            shape["input_resolvers"] = input_shape(d)
        if p.startswith("c17f"):
            files["filekinds.tsv"] = read(os.path.join(d, "filekinds.tsv"))
            fkm = read_filekinds(d) or {}
            shape["file_contents"] = {"exec_layout": fkm.get("layout"), "content_classes": fkm.get("classes", "").split()}
        if p.startswith("c17a"):
            files["dirargs.tsv"] = read(os.path.join(d, "dirargs.tsv"))
        if p.startswith(("c17l", "c17s")):
            # the project is more than its root: schema files and pre-existing Go files live in the output directories
            files = project_tree(d)
            if shape.get("class") == "embed-pattern-leaves-the-package":
                shape["schema_location"] = embed_location_classes(d, shape.pop("pattern", ""))
        if p.startswith("c17l"):
            _, lsecs = read_layout(d)
            files["directories-before-generation"] = "; ".join("%s %s/ %s, package %s" % (r[0], r[1], describe_state(r[4]), "omitted" if r[2] == "-" else unhex(r[2])) for r in lsecs)
            shape["layout"] = layout_shape(d)
            # a generated file whose package clause is not a package name: the derivation of the name is what failed
            for r in lsecs:
                sd = os.path.join(d, r[1])
                for fn in sorted(os.listdir(sd)) if os.path.isdir(sd) else []:
                    m = re.search(r"^package[ \t]+([^\n]*)", read(os.path.join(sd, fn)), re.M) if fn.endswith(".go") else None
                    if m and (not re.fullmatch(r"[A-Za-z_][A-Za-z0-9_]*", m.group(1).strip()) or m.group(1).strip() in GO_KW or m.group(1).strip() == "_"):
                        shape.update({"class": "generated-file-with-invalid-package-clause", "section": r[0], "name_class": r[6],
                                      "directory_state": state_class(r[4]), "package_omitted": r[2] == "-"})
                        shape.pop("message", None)
                        head = "%s/%s starts with `package %s` (%s directory %r %s, `package:` %s): %s" % (
                            r[1], fn, m.group(1).strip(), r[0], r[1], describe_state(r[4]), "omitted" if r[2] == "-" else "given", head)
                        break
                if shape.get("class") == "generated-file-with-invalid-package-clause":
                    break
            ex = next((r for r in lsecs if r[0] == "exec"), None)
            rs = next((r for r in lsecs if r[0] == "resolver"), None)
            if ex and rs and rc in (3, 6) and re.search(r'"[^"]+" imported as \w+ and not used|undefined: \w+', "\n".join(first_errors(se)[:40])):
                given = unhex(ex[2]) if ex[2] != "-" else ""
                base = unhex(ex[3])
                if given and given != base and re.fullmatch(r"[A-Za-z_][A-Za-z0-9_]*", base) and base not in GO_KW:
                    shape.update({"class": "resolver-names-unwritten-exec-package-by-directory",
                                  "exec_package_given_differs_from_directory_name": True,
                                  "exec_directory_name_is_identifier": True,
                                  "exec_directory_has_go_files": state_class(ex[4]) == "go-files",
                                  "resolver_outside_exec_package": rs[1] != ex[1]})
                    shape.pop("message", None)
        if p.startswith("c17b"):
            files["ext/ext.go"] = "go/harness/c17/bindext.go.txt (hand-written user package: Marshal/Unmarshal function pairs and MarshalGQL types)"
            files["shapes.tsv"] = read(os.path.join(d, "shapes.tsv"))
        classes[shape.get("class", "?")] += 1
        rep = {"kind": "generation", "project": p, "rc": rc, "first_error": head[:600], "errors": first_errors(se)[:12],
               "shape": shape, "input": files,
               "replay": "write the files of `input` into a directory under /verif/go/genout/, run `.cache/h_c17 -mode gen -dir <dir>` (api.Generate + stubgen from /repo): %s" % head[:300]}
        if len(samples) < 4:
            samples.append({"project": p, "class": shape.get("class"), "error": head[:200]})
        if ctx.violation(rep):   # not a known finding
            failed_inputs.append({"project": p, "function_syntax": fsyn, "input": files, "error": head, "class": shape.get("class"),
                                  "follow_schema": bool(re.search(r"^  layout: follow-schema\n  dir: ", yml_p.split("model:")[0], re.M))})
    return {"projects": len(projects), "random": len([p for p in projects if p.startswith("c17r")]),
            "generated_and_typechecked": classes["ok"], "outcome_classes": dict(classes),
            "declared_identifier_comparisons": emit_cmp, "declared_identifiers_compared": emit_idents,
            "failure_samples": samples, "bindings": binding, "layouts": layouts, "failed_inputs": failed_inputs,
            "timings": tm, "regeneration": regen, "schema_locations": embeds, "file_contents": file_builds, "directive_arguments": dir_args, "input_field_resolvers": input_resolver_stats(root, projects, results, build_fail),
            "root_typed_fields": dict(rootref, distinct_shapes_method_syntax=len([1 for (sh, f) in rootref_shapes if not f]),
                                      distinct_shapes_function_syntax=len([1 for (sh, f) in rootref_shapes if f])),
            "note": "sampled support for the first sentence of C17, not proof"}


# ---------------------------------------------------------------- the state of the project directory (regeneration)
GENERIC_EDIT = "\ntype RegenAdded { id: ID!  note: String  again: [RegenAdded!] }\n"


def go_types(src):
    """type names a Go file declares at top level"""
    return re.findall(r"^type (\w+) ", src, re.M)


def read_regen(d):
    """regen.tsv of a c17g project -> {autobind, edit, kind, note, step2: [files]}"""
    r = {}
    for l in read(os.path.join(d, "regen.tsv")).split("\n"):
        f = l.split("\t")
        if f[0] == "regen" and len(f) >= 4:
            r.update({"autobind": f[1], "edit": f[2], "kind": f[3]})
        elif f[0] == "note" and len(f) >= 2:
            r["note"] = f[1]
        elif f[0] == "step2" and len(f) >= 2:
            r["step2"] = f[1].split()
    return r


def tree_files(d, skip=("step2",)):
    """relative path -> size of every file below d (the directory state a generation starts from)"""
    out = {}
    for dp, dn, fn in os.walk(d):
        dn[:] = [x for x in dn if not (dp == d and x in skip)]
        for f in fn:
            if f not in ("gen.err", "gen2.err"):
                out[os.path.relpath(os.path.join(dp, f), d)] = os.path.getsize(os.path.join(dp, f))
    return out


def run_regeneration(ctx, have_model, root, projects, results, build_fail, gen, branch, nontriv):
    """C17 also holds when generation is run AGAIN: every c17g project (autobind x what changed since the generation whose
    output is in the directory) and a sample of every other family (a type added to the schema) is generated a second time
    in the same directory, in a new process, and type-checked again."""
    first_ok = [p for p in projects if results[p][0] == 0 and p not in build_fail]
    dim = [p for p in first_ok if p.startswith("c17g")]
    step = 8 if ctx.tier == "quick" else 2
    others = []
    per_family = Counter()
    for p in first_ok:
        if p.startswith("c17g") or p.endswith("ab") or not re.search(r"^model:", read(os.path.join(root, p, "gqlgen.yml")), re.M):
            continue
        fam = p[:4]
        per_family[fam] += 1
        if (per_family[fam] + ctx.seed) % step == 0:
            others.append(p)
    plan = {}
    for p in dim + others:
        d = os.path.join(root, p)
        before = {f: read(os.path.join(d, f)) for f in sorted(os.listdir(d)) if f.endswith(".graphql") or f == "gqlgen.yml"}
        if p.startswith("c17g"):
            meta = read_regen(d)
            step2 = {}
            for f in meta.get("step2", []):
                step2[f] = read(os.path.join(d, "step2", f))
                os.makedirs(os.path.dirname(os.path.join(d, f)), exist_ok=True)
                open(os.path.join(d, f), "w").write(step2[f])
            for f in tree_files(d):
                if f.endswith(".go") and f not in before and os.path.basename(f) in ("doc.go", "hand.go"):
                    before[f] = read(os.path.join(d, f))
        else:
            cands = sorted(f for f in os.listdir(d) if f.endswith(".graphql"))
            if not cands:
                continue
            f = next((c for c in cands if re.search(r"^type Query\b", read(os.path.join(d, c)), re.M)), cands[0])
            meta = {"autobind": "as-the-family", "edit": "type", "kind": "sampled:" + p[:4], "note": "type RegenAdded appended to " + f}
            step2 = {f: before[f] + GENERIC_EDIT}
            open(os.path.join(d, f), "w").write(step2[f])
        ym = re.search(r"^model:\n  filename: (\S+)", read(os.path.join(d, "gqlgen.yml")), re.M)
        meta["stale_models"] = go_types(read(os.path.join(d, ym.group(1)))) if ym and os.path.exists(os.path.join(d, ym.group(1))) else None
        plan[p] = (meta, before, step2, tree_files(d))
    res2 = {}

    def gen2(p):
        q, rc, se = gen(p)
        open(os.path.join(root, p, "gen2.err"), "w").write(se)
        return q, rc, se

    with ThreadPoolExecutor(max_workers=8) as ex:
        for p, rc, se in ex.map(gen2, list(plan)):
            res2[p] = (rc, se)
    ok2 = [p for p in plan if res2[p][0] == 0]
    bf2 = {}
    if ok2:
        rc, so, se = vf.sh(["go", "build"] + ["./genout/c17/%s/..." % p for p in ok2], cwd=vf.GO, env=vf.go_env(), timeout=1800)
        if rc != 0:
            cur = None
            for l in (so + se).split("\n"):
                m = re.match(r"# verifharness/genout/c17/(\w+)", l)
                if m:
                    cur = m.group(1)
                    continue
                m2 = re.match(r"genout/c17/(\w+)/", l)
                if m2:
                    cur = m2.group(1)
                if cur and l.strip():
                    bf2.setdefault(cur, []).append(l)
            if not bf2:
                raise RuntimeError("go build of regenerated packages failed without attributable output:\n" + (so + se)[-3000:])
    pairs = Counter()
    outcome = Counter()
    follows = 0
    failed = []
    # tie of the tree model (Model/Regenerate.lean over the REGENERATED statement order of api.Generate): fixed-schema
    # projects (Go-clean type names), prediction of success and of the types the new models file declares
    tied = 0
    if have_model:
        rows = []
        for p in plan:
            meta = plan[p][0]
            if meta.get("kind") not in ("directed", "cover"):
                continue
            d = os.path.join(root, p)
            types = re.findall(r"^(?:type|input|enum|interface|union) (\w+)", read(os.path.join(d, "schema.graphql")), re.M)
            hand = ["RegenHand"] if meta["autobind"] in ("hand", "other") else []
            st = meta["stale_models"]
            rows.append((p, "regen %s %s %s %s" % ("1" if meta["autobind"] in ("model", "hand") else "0", ",".join(types), ",".join(hand) or "-",
                                                   "none" if st is None else (",".join(st) or "-"))))
        for (p, line), mo in zip(rows, ctx.driver("c17", [l for _, l in rows])):
            tied += 1
            meta = plan[p][0]
            d = os.path.join(root, p)
            ym = re.search(r"^model:\n  filename: (\S+)", read(os.path.join(d, "gqlgen.yml")), re.M)
            real_ok = res2[p][0] == 0
            real_models = go_types(read(os.path.join(d, ym.group(1)))) if real_ok and ym else []
            mm = re.match(r"(ok|fail) models=(\S+) spec=(\S+)", mo)
            if not mm:
                raise RuntimeError("driver regen: %r -> %r" % (line, mo))
            m_models = [] if mm.group(2) in ("none", "-") else mm.group(2).split(",")
            meta["model_verdict"] = mo
            if (mm.group(1) == "ok") != real_ok or (real_ok and sorted(m_models) != sorted(real_models)):
                ctx.violation({"kind": "correspondence", "what": "second generation: tree model over the regenerated order of api.Generate vs the real run", "project": p,
                               "driver_input": line, "model": mo, "implementation": {"generated": real_ok, "models_file_declares": real_models},
                               "replay": "project %s: Model/Regenerate.lean over Gen/GenerateSteps.lean (driver_c17 `%s`) predicts %s, the real second generation %s" % (
                                   p, line, mo, ("declares " + ",".join(real_models)) if real_ok else "fails")}, no_failing_input=True)
    for p in sorted(plan, key=lambda q: (not q.startswith("c17g_"), not q.startswith("c17g"), q)):
        meta, before, step2, state = plan[p]
        pairs["autobind=%s edit=%s" % (meta["autobind"], meta["edit"])] += 1
        branch["regen:autobind=%s" % meta["autobind"]] += 1
        branch["regen:edit=%s" % meta["edit"]] += 1
        nontriv.add("g" + p)
        rc, se = res2[p]
        d = os.path.join(root, p)
        problem = None
        if rc == 0 and p in bf2:
            rc, se = 6, "\n".join(bf2[p])
        if rc != 0:
            shape, head = classify(d, rc, se)
            problem = head
            shape.pop("message", None)
            mt = re.search(r"unable to find type: \S+\.(\w+)", head)
            if mt:
                shape.update({"class": "bound-go-type-not-found", "type_was_declared_by_the_stale_models_file": mt.group(1) in (meta.get("stale_models") or [])})
        else:
            # generated and compiles: the model must FOLLOW the schema of the second step (not be frozen at the first)
            yml = read(os.path.join(d, "gqlgen.yml"))
            m = re.search(r"^model:\n  filename: (\S+)", yml, re.M)
            mg = read(os.path.join(d, m.group(1))) if m else ""
            want, unwanted = [], []
            if meta["edit"] == "field":
                want = ["RegenAdded "]
            elif meta["edit"] == "type":
                want = ["type RegenAdded struct"]
            elif meta["edit"] == "enum":
                want = ["RegenKindThird"]
            elif meta["edit"] == "drop":
                unwanted = ["type RegenGone struct"]
            if m and meta["autobind"] in ("hand", "other") and "type RegenHand struct" in mg:
                problem = "the hand-written model RegenHand was generated again into %s" % m.group(1)
                shape = {"class": "hand-written-model-regenerated"}
            miss = [w for w in want if w not in mg] + ["(still) " + w for w in unwanted if w in mg]
            if m and miss and not problem:
                problem = "%s does not follow the schema of the second generation: %s" % (m.group(1), ", ".join(miss))
                shape = {"class": "model-does-not-follow-the-schema"}
            if m and not problem:
                follows += 1
        if not problem:
            outcome["ok"] += 1
            continue
        shape = dict(shape, stage="second-generation-in-the-same-directory", first_generation="ok", autobind=meta["autobind"],
                     schema_edit=meta["edit"], directory_state="output of an earlier generation present" + (" (another configuration)" if meta["edit"] == "config" else ""))
        shape["class"] = "regeneration:" + shape.get("class", "?")
        outcome[shape["class"]] += 1
        failed.append({"project": p, "error": problem, "autobind": meta["autobind"], "edit": meta["edit"], "model": meta.get("model_verdict"),
                       "input": {"step 1": before, "step 2": step2, "files in the directory when step 2 starts": sorted(state)}})
        ctx.violation({"kind": "generation", "project": p, "rc": rc, "first_error": problem[:600], "errors": first_errors(se)[:12] if rc else [],
                       "shape": shape, "what_changed": meta.get("note"),
                       "input": {"step 1 (generated and compiled)": before, "step 2 (files replaced, then generated again in a new process)": step2,
                                 "files in the directory when step 2 starts": sorted(state)},
                       "replay": "write `step 1` into /verif/go/genout/c17/%s, run `.cache/h_c17 -mode gen -dir <dir>`, replace the `step 2` files, run it again "
                                 "(autobind: %s; %s): %s" % (p, meta["autobind"], meta.get("note"), problem[:300])})
    return {"projects_generated_twice": len(plan), "of_the_dimension": len(dim), "sampled_from_other_families": len(others),
            "sampled_by_family": dict(Counter(p[:4] for p in others)), "autobind_x_edit": dict(pairs), "outcomes": dict(outcome),
            "models_checked_to_follow_the_second_schema": follows, "compared_with_tree_model": tied, "failed": failed[:6]}


# ---------------------------------------------------------------- schema locations / input resolvers (helpers)
def project_tree(d):
    """every input file of a project whose schema files / pre-existing Go files live in sub-directories"""
    files = {}
    for dp, dns, fns in os.walk(d):
        for fn in sorted(fns):
            rel = os.path.relpath(os.path.join(dp, fn), d)
            if fn.endswith((".graphql", ".graphqls")) or fn in ("gqlgen.yml", "README.md", "doc.go", "layout.tsv", "schemalocs.tsv"):
                files[rel] = read(os.path.join(dp, fn))
    return files


def read_schemalocs(d):
    """schemalocs.tsv -> (meta, [(location class, path relative to the project)])"""
    meta, srcs = {}, []
    for l in read(os.path.join(d, "schemalocs.tsv")).split("\n"):
        f = l.split("\t")
        if f[0] == "source" and len(f) >= 3:
            srcs.append((f[1], f[2]))
        elif len(f) == 2:
            meta[f[0]] = f[1]
    return meta, srcs


def embed_location_classes(d, pattern):
    """the location classes of the schema files whose path relative to the exec directory is `pattern`"""
    meta, srcs = read_schemalocs(d)
    ex = os.path.normpath(os.path.join(d, meta.get("exec_dir", ".")))
    out = sorted({c for c, rel in srcs if os.path.relpath(os.path.join(d, rel), ex).replace(os.sep, "/") == pattern})
    return out or ["?"]


def input_shape(d):
    meta = dict(l.split("\t", 1) for l in read(os.path.join(d, "inputshapes.tsv")).split("\n") if "\t" in l)
    return {"exec_layout": meta.get("layout"), "flavour": meta.get("flavour"), "resolver_layout": meta.get("resolver"),
            "name_classes": meta.get("classes", "").split(), "options": [o for o in meta.get("options", "").split(",") if o]}


def input_resolver_stats(root, projects, results, build_fail):
    """which input-field-resolver shapes met which exec layout x template flavour (evidence)"""
    cells = Counter()
    shapes = {}
    n = 0
    for p in projects:
        d = os.path.join(root, p)
        if p.startswith("c17i"):
            n += 1
            meta = dict(l.split("\t", 1) for l in read(os.path.join(d, "inputshapes.tsv")).split("\n") if "\t" in l)
            key = "%s/%s" % (meta.get("layout"), meta.get("flavour"))
            cells[key] += 1
            shapes.setdefault(key, set()).update(meta.get("shapes", "").split())
        elif p.startswith("c17r") and not p.endswith("ab"):
            yml = read(os.path.join(d, "gqlgen.yml"))
            sch = "".join(read(os.path.join(d, f)) for f in sorted(os.listdir(d)) if f.endswith(".graphql"))
            inputs = set(re.findall(r"^(?:extend )?input (\w+)", sch, re.M))
            marked = [t for t in re.findall(r"^  (\w+):\n    fields:", yml, re.M) if t in inputs]
            if marked:
                cells["random-projects-with-an-input-field-resolver"] += 1
    return {"projects": n, "by_layout_and_flavour": dict(cells), "distinct_shapes_by_layout_and_flavour": {k: len(v) for k, v in shapes.items()}}


def run_file_builds(ctx, have_model, root, projs, results, build_fail, branch, nontriv):
    """File-contents projects (filekinds.tsv: c17f*): under exec layout follow-schema the set of `<name>.generated.go`
    files the generator wrote against Model/Builds.lean over the regenerated passes (driver op `persch`); Spec `chkfiles`:
    exactly the schema files that declare an object, an input, an interface / union or a referenced definition (+ the
    prelude) get a file."""
    cells = Counter()
    compared = divergences = 0
    lines, refs = [], []
    for p in projs:
        d = os.path.join(root, p)
        fk = read_filekinds(d)
        if not fk:
            continue
        for f in fk["files"]:
            cells["%s/%s" % (fk.get("layout"), f[1])] += 1
            branch["file-contents:%s:%s" % (fk.get("layout"), f[1])] += 1
            nontriv.add("fk:%s:%s:%s" % (fk.get("layout"), f[1], fk.get("flavour")))
        if fk.get("layout") != "follow-schema" or results[p][0] != 0:
            continue
        tmpl = fk.get("template", "{name}.generated.go")
        pre, suf = tmpl.split("{name}")
        impl = sorted(fn[len(pre):len(fn) - len(suf)] for fn in os.listdir(d)
                      if fn.startswith(pre) and fn.endswith(suf) and fn != "root_.generated.go" and len(fn) > len(pre) + len(suf))
        col = {k: ["prelude"] if k in "or" else [] for k in "oiar"}
        for fn, cls, fl in fk["files"]:
            base = os.path.splitext(fn)[0]
            for k, bit in zip("oiar", fl):
                if bit == "1":
                    col[k].append(base)
        j = lambda xs: ",".join(xs) if xs else "-"
        args = " ".join(j(col[k]) for k in "oiar")
        lines += ["persch " + args, "chkfiles %s %s" % (args, j(impl))]
        refs.append((p, fk, impl))
    if have_model and lines:
        outs = ctx.driver("c17", lines)
        for k, (p, fk, impl) in enumerate(refs):
            mo, sv = outs[2 * k], outs[2 * k + 1]
            compared += 1
            d = os.path.join(root, p)
            files = {f: read(os.path.join(d, f)) for f in sorted(os.listdir(d)) if f.endswith(".graphql") or f in ("gqlgen.yml", "filekinds.tsv")}
            shape = {"stage": "per-schema-files", "exec_layout": "follow-schema", "content_classes": fk.get("classes", "").split()}
            if sv != "ok":
                shape["class"] = "generated-files-differ-from-the-schema-files-that-declare-something"
                ctx.violation({"kind": "spec", "project": p, "verdict": sv, "generated_files": impl, "shape": shape, "input": files,
                               "replay": "project %s (go/genout/c17/%s, files in `input`), exec layout follow-schema: the generator wrote %s; %s (Spec: one <name> file per schema file that declares an object, an input, an interface / union or a referenced definition)" % (
                                   p, p, [fk.get("template", "{name}.generated.go").replace("{name}", x) for x in impl], sv)})
            elif not mo.startswith("files=") or set(x for x in mo[6:].split(",") if x != "-") != set(impl):
                divergences += 1
                ctx.violation({"kind": "correspondence", "what": "per-schema-file builds", "project": p, "model": mo, "generated_files": impl,
                               "replay": "project %s: Model/Builds.lean over Gen/BuildGuards.lean says %s, the generator wrote %s" % (p, mo, impl)}, no_failing_input=True)
    return {"projects": len(projs), "follow_schema_file_sets_compared": compared, "divergences": divergences,
            "files_by_layout_and_content_class": dict(cells)}


def dirarg_stats(root, projs, results, build_fail, branch):
    """which (location, kind, default, use) shapes met which exec layout x template flavour (evidence)"""
    shapes = {}
    cells = Counter()
    for p in projs:
        da = read_dirargs(os.path.join(root, p))
        if not da:
            continue
        key = "%s/%s" % (da.get("layout"), da.get("flavour"))
        shapes.setdefault(key, set()).update(da.get("shapes", "").split())
        for sh in da.get("shapes", "").split():
            f = sh.split(".")
            cells["%s:default-%s:use-%s" % (f[0], f[2], f[3] if f[1] != "multi" else "multi")] += 1
            branch["directive-arguments:%s:default-%s:use-%s" % (f[0], f[2], f[3] if f[1] != "multi" else "multi")] += 1
    allsh = set().union(*shapes.values()) if shapes else set()
    return {"projects": len(projs), "distinct_shapes": len(allsh), "distinct_shapes_by_layout_and_flavour": {k: len(v) for k, v in shapes.items()},
            "distinct_kind_default_use_triples": len({".".join(x.split(".")[1:]) for x in allsh}),
            "location_default_use_cells": len(cells)}


def run_schema_embeds(ctx, have_model, root, projs, branch, nontriv):
    """Projects that say where their schema files live (schemalocs.tsv: c17s*, c17l*): what the generated executor
    embeds (`//go:embed` patterns) and what it inlines (`sources` table) against Model/EmbedPath.lean over the
    regenerated decision, and the Spec (a pattern never leaves the package directory) on the implementation's own
    patterns - read from the generated file even when the generator's validation rejected it."""
    stats = {"projects": 0, "sources": 0, "embedded": 0, "inlined": 0, "divergences": 0, "spec_failures": 0,
             "by_location_class": Counter(), "failing": []}
    jobs = []
    for p in projs:
        d = os.path.join(root, p)
        meta, srcs = read_schemalocs(d)
        if not srcs:
            continue
        ex = os.path.normpath(os.path.join(d, meta.get("exec_dir", ".")))
        gen_txt = ""
        for fn in sorted(os.listdir(ex)) if os.path.isdir(ex) else []:
            if fn.endswith(".go"):
                t = read(os.path.join(ex, fn))
                if "var sources = []*ast.Source{" in t:
                    gen_txt = t
        if not gen_txt:
            continue   # generation stopped before the executor was written: reported by the sweep
        stats["projects"] += 1
        m = re.search(r"^\s*//go:embed(.*)$", gen_txt, re.M)
        patterns = re.findall(r'"((?:[^"\\]|\\.)*)"', m.group(1)) if m else []
        table = {}
        for nm, how in re.findall(r'^\s*\{Name: "((?:[^"\\]|\\.)*)", Input: (sourceData\(|`|")', gen_txt, re.M):
            table[nm] = how.startswith("sourceData")
        for cls, rel in srcs:
            jobs.append((p, cls, rel, ex, os.path.normpath(os.path.join(d, rel)), patterns, table, meta))
    if have_model and jobs:
        mouts = ctx.driver("c17", ["embed %s %s 0" % (j[3].encode().hex(), j[4].encode().hex()) for j in jobs])
        allpat = sorted({(j[0], pt) for j in jobs for pt in j[5]})
        pver = dict(zip(allpat, ctx.driver("c17", ["chkembed " + (pt.encode().hex() or "-") for _, pt in allpat]))) if allpat else {}
        reported = set()
        for j, mo in zip(jobs, mouts):
            p, cls, rel, ex, src, patterns, table, meta = j
            f = dict(x.split("=", 1) for x in mo.split(" ") if "=" in x)
            mrel = unhex(f.get("rel", "-"))
            stats["sources"] += 1
            stats["by_location_class"]["%s/%s" % (meta.get("exec_layout"), cls)] += 1
            branch["schema-location:" + cls] += 1
            nontriv.add("loc%s/%s/%s" % (cls, meta.get("exec_layout"), meta.get("exec_dir")))
            impl_emb = mrel in patterns
            stats["embedded" if impl_emb else "inlined"] += 1
            where = "project %s (go/genout/c17/%s): exec %s directory %s/, schema file %s (location class %s)" % (
                p, p, meta.get("exec_layout"), meta.get("exec_dir"), rel, cls)
            bad = [pt for pt in patterns if pver.get((p, pt)) != "ok" and os.path.normpath(os.path.join(ex, pt)) == src]
            if bad:
                stats["spec_failures"] += 1
                stats["failing"].append({"project": p, "class": cls, "pattern": bad[0], "out": ex, "src": src})
                if cls in reported or len(reported) >= 3:
                    continue
                reported.add(cls)
                ctx.violation({"kind": "spec", "what": "go:embed pattern of the generated executor", "project": p, "pattern": bad[0],
                               "exec_dir": meta.get("exec_dir"), "schema_file": rel, "verdict": pver.get((p, bad[0])), "input": project_tree(os.path.join(root, p)),
                               "shape": {"stage": "embed", "class": "embed-pattern-leaves-the-package", "schema_location": [cls],
                                         "exec_layout": meta.get("exec_layout")},
                               "replay": where + ": the generated executor says `//go:embed \"%s\"` - a go:embed pattern cannot leave the package directory (invalid pattern syntax, the executor does not compile); Model/EmbedPath.lean: the file is %s the exec directory, relative path %s" % (
                                   bad[0], "below" if f.get("below") == "1" else "NOT below", mrel)})
                continue
            if mrel not in table or (f.get("emb") == "1") != impl_emb or table.get(mrel) != impl_emb:
                stats["divergences"] += 1
                if stats["divergences"] <= 3:
                    ctx.violation({"kind": "correspondence", "what": "embedded / inlined schema files differ from Model/EmbedPath.lean", "project": p,
                                   "model": mo, "patterns": patterns, "sources_table": table,
                                   "replay": where + ": generated executor embeds %s and lists sources %s; the model over Gen/EmbedRule.lean says relative path %s, embeddable=%s" % (
                                       patterns, sorted(table), mrel, f.get("emb"))}, no_failing_input=True)
    stats["by_location_class"] = dict(stats["by_location_class"])
    stats["distinct_layout_x_location_cells"] = len(stats["by_location_class"])
    return stats


def run_layout_clauses(ctx, have_model, root, projs):
    """Layout projects that generated and built: the package clause of every Go file in each section's directory is
    what Model/PkgName.lean says Check() leaves in the section's Package (configured, read from Go files already
    there, or derived from the directory name), and is a valid package name."""
    stats = {"projects": len(projs), "sections": 0, "files": 0, "divergences": 0, "cells": Counter()}
    jobs = []
    for p in projs:
        d = os.path.join(root, p)
        _, secs = read_layout(d)
        for r in secs:
            sd = os.path.join(d, r[1])
            clauses = {}
            for fn in sorted(os.listdir(sd)) if os.path.isdir(sd) else []:
                if fn.endswith(".go"):
                    m = re.search(r"^package\s+(\S+)", read(os.path.join(sd, fn)), re.M)
                    clauses[fn] = m.group(1) if m else "?"
            jobs.append((p, r, clauses))
            stats["cells"]["%s/%s/%s/%s" % (r[0], r[6], state_class(r[4]), "omitted" if r[2] == "-" else "given")] += 1
    if have_model and jobs:
        want = ctx.driver("c17", ["secpkg %s %s %s %s" % (r[0], r[2], r[3], r[4]) for _, r, _ in jobs])
        for (p, r, clauses), w in zip(jobs, want):
            stats["sections"] += 1
            stats["files"] += len(clauses)
            w = unhex(w)
            wrong = {f: c for f, c in clauses.items() if c != w}
            if wrong or not clauses:
                stats["divergences"] += 1
                if stats["divergences"] <= 3:
                    ctx.violation({"kind": "correspondence", "what": "package clause of generated files", "project": p, "section": r[0], "dir": r[1],
                                   "model": w, "files": clauses,
                                   "replay": "layout project %s (go/genout/c17/%s): %s directory %s/ (%s, package %s): generated files carry %s, Model/PkgName.lean says %r" % (
                                       p, p, r[0], r[1], describe_state(r[4]), "omitted" if r[2] == "-" else unhex(r[2]), wrong or "no Go file", w)},
                                  no_failing_input=True)
    stats["cells"] = dict(stats["cells"])
    stats["distinct_cells_section_nameclass_state_package"] = len(stats["cells"])
    return stats


def run_bindings(ctx, have_model, root, projs, hbin, branch, nontriv):
    """Execute the generated servers of the bindings projects and compare every response with the Spec (and the
    implementation model) of Model/TypeRef.lean."""
    env = vf.go_env()

    def build_run(p):
        d = os.path.join(root, p)
        rc, so, se = vf.sh(["go", "build", "-o", os.path.join(d, "run.bin"), "./genout/c17/%s/run" % p], cwd=vf.GO, env=env, timeout=900)
        if rc != 0:
            return p, "build", (so + se)
        rc, so, se = vf.sh([os.path.join(d, "run.bin"), os.path.join(d, "cases.tsv")], cwd=d, env=env, timeout=300)
        if rc != 0:
            return p, "run", (so + se)[-3000:]
        return p, "ok", so

    outs = {}
    with ThreadPoolExecutor(max_workers=8) as ex:
        for p, st, o in ex.map(build_run, projs):
            outs[p] = (st, o)
    stats = {"projects": len(projs), "executed_queries": 0, "leaf_checks": 0, "spec_failures": 0, "model_divergences": 0,
             "shapes": Counter(), "positions": Counter()}
    jobs = []   # (project, case id, query, key, gtype, val, shape, pos, actual)
    for p in projs:
        d = os.path.join(root, p)
        st, o = outs[p]
        files = {f: read(os.path.join(d, f)) for f in ("schema.graphql", "gqlgen.yml", "shapes.tsv")}
        if st != "ok":
            ctx.violation({"kind": "generation", "project": p, "stage": "runner-" + st, "errors": first_errors(o)[:12], "input": files,
                           "shape": {"stage": "runner-" + st, "class": "other", "message": (first_errors(o) or [""])[0][:200]},
                           "replay": "bindings project %s (go/genout/c17/%s): the runner over the generated executor + stub does not %s: %s" % (
                               p, p, st, (first_errors(o) or [""])[0][:300])})
            continue
        target = {r[0]: r[1] for r in (l.split("\t") for l in files["shapes.tsv"].split("\n") if l)}
        om = "1" if re.search(r"^omit_slice_element_pointers: true", files["gqlgen.yml"], re.M) else "0"
        sample, resp = {}, {}
        for l in o.split("\n"):
            f = l.split("\t", 2)
            if len(f) == 3 and f[0] == "sample":
                sample[f[1]] = f[2]
            elif len(f) == 3 and f[0] == "resp":
                resp[f[1]] = f[2]
        for l in read(os.path.join(d, "cases.tsv")).split("\n"):
            c = l.split("\t")
            if len(c) < 3:
                continue
            stats["executed_queries"] += 1
            raw = resp.get(c[0], "MISSING")
            try:
                body = json.loads(raw)
            except ValueError:
                body = {"errors": [{"message": raw[:300]}]}
            for chk in c[2:]:
                key, gtype, val, shp, pos = chk.split("=")
                if "S" in val.split(","):
                    txt = json.loads(sample[shp])
                    if gtype.split(":")[-1] != "-":
                        txt = txt.split("|", 1)[1]
                    val = ",".join("a" + txt.encode().hex() if t == "S" else t for t in val.split(","))
                act = body.get("data") if not body.get("errors") else None
                if act is not None:
                    for k in key.split("."):
                        act = act.get(k) if isinstance(act, dict) else None
                jobs.append((p, c[0], c[1], key, gtype, val, shp, pos, target[shp], om, act, body.get("errors"), files))
    if have_model and jobs:
        specs = ctx.driver("c17", ["spec %s %s" % (j[4], j[5]) for j in jobs])
        models = ctx.driver("c17", ["%s %s %s %s %s" % ("mout" if j[7] == "out" else "echo", j[9], j[4], j[8], j[5]) for j in jobs])
        seen = set()
        for j, sp, mo in zip(jobs, specs, models):
            p, cid, query, key, gtype, val, shp, pos, tgt, om, act, errs, files = j
            stats["leaf_checks"] += 1
            stats["shapes"][shp] += 1
            stats["positions"][pos] += 1
            nontriv.add("b%s/%s/%s" % (shp, pos, gtype))
            branch["binding:" + pos] += 1
            try:
                want = json.loads(sp)
            except ValueError:
                raise RuntimeError("bindings: Spec not evaluable for %s %s: %s" % (gtype, val, sp))
            good = errs is None and act == want
            if not good:
                stats["spec_failures"] += 1
                k = (shp, pos, gtype)
                if k in seen:
                    continue
                seen.add(k)
                ctx.violation({"kind": "spec", "what": "response of the generated server", "project": p, "query": query, "at": key,
                               "graphql_type": gtype, "bound_shape": shp, "bound_go_type": tgt, "position": pos,
                               "expected": want, "got": act, "errors": errs, "input": files,
                               "shape": {"stage": "execute", "class": "binding-response-differs-from-spec", "bound_shape": shp, "position": pos},
                               "replay": "bindings project %s (go/genout/c17/%s: schema.graphql, gqlgen.yml, ext/ = go/harness/c17/bindext.go.txt; run.bin cases.tsv): query %s -> %s = %s%s, Spec (one leaf per named type, written by the bound %s function on the whole value): %s" % (
                                   p, p, query, key, json.dumps(act), (" errors " + json.dumps(errs)[:300]) if errs else "", shp, sp)})
            elif mo != sp:
                stats["model_divergences"] += 1
                if stats["model_divergences"] <= 3:
                    ctx.violation({"kind": "correspondence", "what": "Model/TypeRef.lean echo/marshal differs from the generated server", "project": p,
                                   "query": query, "model": mo, "implementation": act,
                                   "replay": "project %s query %s: implementation %s, model %s" % (p, query, json.dumps(act), mo)}, no_failing_input=True)
    stats["shapes"] = dict(stats["shapes"])
    stats["positions"] = dict(stats["positions"])
    return stats
