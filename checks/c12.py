"""C12 - streamed HTTP responses (SSE, multipart/mixed) are well-framed under any timing."""
import json
import os
from collections import Counter
from lib import vf, gensrv

PING = "C2070696e67"


def _hexlen(h):
    return 0 if h == "-" else len(h) // 2


def _sse_sched(items):
    """schedule (m = Do's next write, t = keep-alive ping) that reproduces the observed item order"""
    s = []
    for it in items[1:]:
        if it == PING:
            s.append("t")
        elif it.startswith("E"):
            s.append("m")
        else:
            return None
    return "".join(s) or "-"


def _mp_scheds(batches, merge_first):
    """batches = parts seen: [1 (initial), k1, k2, ...] -> schedule reproducing that batching"""
    if not batches:
        return "-"
    s = "m"
    rest = batches[1:]
    if merge_first and rest:
        s += "m" * rest[0]
        rest = rest[1:]
    for k in rest:
        s += "t" + "m" * k
    return s


def _mp_batches_from_bytes(rawhex):
    """batch sizes read directly off the wrapper lines (for streams mime/multipart gives up on)"""
    import json
    try:
        raw = bytes.fromhex("" if rawhex == "-" else rawhex)
        out = []
        for ln in raw.split(b"\r\n"):
            if ln.startswith(b'{"incremental":['):
                out.append(len(json.loads(ln)["incremental"]))
            elif ln.startswith(b"{"):
                out.append(1)
        return out
    except Exception:
        return None


def _split_fin(payloads, fin):
    """<payloads> is what has to be delivered; when the operation ended by a panic its last entry is the
    error response <fin>: the operation is (good responses, fin)"""
    if fin == "-":
        return payloads, "-"
    ps = payloads.split(",")
    assert ps and ps[-1] == fin, "harness: fin is not the last payload"
    return (",".join(ps[:-1]) or "-"), fin


def _has_pct(payloads):
    """some payload that has to be delivered contains a '%'"""
    for q in payloads.split(","):
        q = q.split(":")[0]
        if q not in ("-", "") and b"%" in bytes.fromhex(q):
            return True
    return False


def _nclass(n):
    return str(n) if n < 2 else "2-5" if n <= 5 else "6+"


def _fin_note(fin):
    return "" if fin == "-" else " (the last one is the error response of a panic raised while a response was being built)"


def _loop_end(m):
    """third field of the sseo / mpo answers: how the regenerated response loop ended"""
    for t in ("m1", "m2"):
        f = (m.get(t) or "").split(" ")
        if len(f) >= 3 and f[2] != "done":
            return f[2]
    return None


WIRE_PROBE = "c12"                           # own probe (copy of execsub): queries with @defer AND subscriptions
WIRE_CFGS = ["base", "follow_funcsyn_wl2"]   # both template flavours of the generated Exec


def _with_cancel(sched, cancel):
    """put the cancellation of the request context (c) where it struck: after <seen> responses had been produced"""
    if sched is None or cancel in ("-", "") or cancel.startswith("w"):
        return sched
    seen = int(cancel.split(":")[2])
    if seen < 0:
        return sched
    s = "" if sched == "-" else sched
    k = 0
    for i, ch in enumerate(s):
        if ch == "m":
            if k == seen:
                return s[:i] + "c" + s[i:]
            k += 1
    return s + "c"


def wire_cases(ctx, binary, cfg):
    """exchanges to run against a server GENERATED at check time from the current templates: queries with @defer
    over multipart/mixed (payloads held by the aggregator across flush ticks: DeliveryTimeout 1ms / 2ms / 200ms, the
    plan's own resolver delays or none at all) and over SSE (keep-alive off / 100us / 1ms), subscriptions over SSE,
    and the same with the request context cancelled on the server side at a logical-clock value"""
    quick = ctx.tier == "quick"
    picked = []
    cdir = os.path.join(vf.VERIF, "corpus", "C12")
    for f in sorted(os.listdir(cdir)):
        if f.endswith(".jsonl"):
            for l in open(os.path.join(cdir, f)):
                if l.strip():
                    picked.append(json.loads(l))
    rc, so, se = vf.sh([binary, "-mode", "gen", "-n", str(160 if quick else 1500), "-seed", str(ctx.seed), "-profile", "c13"],
                       env={"GOMEMLIMIT": "4GiB"}, timeout=1200)
    if rc != 0:
        raise RuntimeError("generated server %s: -mode gen failed: %s" % (cfg, se[-2000:]))
    gen = [json.loads(l) for l in so.split("\n") if l]
    gen = [r for r in gen if not r.get("gateErrors") and len(r.get("payloads") or []) >= 2]
    picked += [{"id": r["id"], "query": r["query"], "variables": r.get("variables"), "plan": r["plan"]} for r in gen][:(40 if quick else 400)]
    rc, so, se = vf.sh([binary, "-mode", "gen", "-n", str(16 if quick else 120), "-seed", str(ctx.seed), "-profile", "sub"],
                       env={"GOMEMLIMIT": "4GiB"}, timeout=1200)
    if rc != 0:
        raise RuntimeError("generated server %s: -mode gen (subscriptions) failed: %s" % (cfg, se[-2000:]))
    seen = set()
    for l in so.split("\n"):
        if l:
            r = json.loads(l)
            rid = r["id"].split("/ev")[0]
            if rid not in seen and not r.get("gateErrors") and r.get("plan"):
                seen.add(rid)
                picked.append({"id": rid, "query": r["query"], "variables": r.get("variables"), "plan": r["plan"]})
    cases = []
    for k, r in enumerate(picked):
        sub = r["query"].lstrip().startswith("subscription")
        base = {"query": r["query"], "variables": r.get("variables"), "timeoutMs": 6000, "record": True}
        fast = json.loads(json.dumps(r["plan"]))
        fast.setdefault("rates", {})["delay"] = 0
        variants = []
        if not sub:
            for plan, pname in ((r["plan"], "plan-delays"), (fast, "no-delays")):
                for us, ms in ((0, 0), (0, 200), (2000, 0)):
                    if (k + us + ms) % 2 == 0 or pname == "no-delays":
                        variants.append(("multipart", pname + "/timeout=%s" % ("default-1ms" if not us + ms else "%dus" % (us + 1000 * ms)),
                                         {"plan": plan, "deliveryTimeoutMs": ms, "deliveryTimeoutUs": us}))
        else:
            # a subscription over multipart/mixed: every event is held until the next flush (no hasNext: the stream
            # is outside the shape, its CONTENT is judged - every event once, in order, every part valid JSON)
            for us, ms in ((0, 0), (0, 200)):
                variants.append(("multipart", "timeout=%s" % ("default-1ms" if not us + ms else "%dus" % (us + 1000 * ms)),
                                 {"plan": fast, "deliveryTimeoutMs": ms, "deliveryTimeoutUs": us}))
        ka = [0, 100, 1000][k % 3]
        variants.append(("sse", "ka=%dus" % ka, {"plan": r["plan"], "keepAliveUs": ka}))
        if k % 2 == 0 or sub:
            # the request context ends on the server side when the logical clock (resolver entries / exits) reaches this value
            at = 1 + (k * 7 + ctx.seed) % 9
            variants.append(("sse", "cancel/ka=%dus" % ka, {"plan": r["plan"], "keepAliveUs": ka, "cancelAt": at}))
            if not sub:
                variants.append(("multipart", "cancel/timeout=default-1ms", {"plan": fast, "cancelAt": at}))
        for tr, vname, extra in variants:
            c = dict(base)
            c.update(extra)
            c["transport"] = tr
            c["id"] = "%s/%s/%s" % (r["id"], tr, vname)
            cases.append((c, "wire:%s:%s%s/%s" % (cfg, "subscription/" if sub else "", tr, vname.split("/timeout")[0] if tr == "multipart" else vname.split("/")[0])))
    return cases


def wire_rows(ctx, built):
    """run the exchanges, hand what was recorded to the harness's oracles (-judge): rows in the harness's format"""
    rows, info = [], {}
    nid = 0
    for cfg in WIRE_CFGS:
        b = built.get(cfg)
        if b is None or isinstance(b, Exception):
            continue
        cases = wire_cases(ctx, b, cfg)
        judge = []
        crashes = 0
        while cases:
            rc, so, se = vf.sh([b, "-mode", "http", "-maxhung", "3"], inp="\n".join(json.dumps(c) for c, _ in cases) + "\n", timeout=1800)
            outs = [json.loads(l) for l in so.split("\n") if l]
            for (c, desc), h in zip(cases, outs):
                info[nid] = (cfg, b, c, desc)
                if "panic" not in (h.get("produced") or []):
                    # (a panic out of the response handler itself - what nextResponse makes of it - is the harness's dimension)
                    judge.append(json.dumps({
                        "id": nid, "kind": "sse" if c["transport"] == "sse" else "mp", "ka_us": c.get("keepAliveUs", 0),
                        "timeout_us": c.get("deliveryTimeoutUs", 0) + 1000 * c.get("deliveryTimeoutMs", 0), "status": h.get("status", 0),
                        "ctype": h.get("ctype", ""), "produced": h.get("produced") or [], "body_hex": h.get("bodyHex", ""),
                        "hung": bool(h.get("hung")), "desc": desc, "cancel": ("w%d" % c["cancelAt"]) if c.get("cancelAt") else "-"}))
                nid += 1
            if rc == 0 or len(outs) >= len(cases):
                break
            # the process died (e.g. a panic in the aggregator's goroutine, which nothing recovers) in the case after
            # the last answered one; go on with the rest in a new process
            culprit = cases[len(outs)][0]
            info[nid] = (cfg, b, culprit, "wire:%s:crash" % cfg)
            rows.append(["crash", str(nid), vf_hex(("generated server %s died: " % cfg) + (se.strip().split("\n") or [""])[0]),
                         vf_hex(se[:3000]), "%s %s" % ("sse" if culprit["transport"] == "sse" else "mp", culprit["id"]), "wire:%d" % nid])
            nid += 1
            crashes += 1
            cases = cases[len(outs) + 1:] if crashes < 3 else []
        if judge:
            rcj, soj, sej = vf.sh([os.path.join(vf.CACHE, "h_c12"), "-judge"], inp="\n".join(judge) + "\n", timeout=600)
            if rcj != 0:
                raise RuntimeError("harness -judge failed: " + sej[-2000:])
            for l in soj.split("\n"):
                if l:
                    r = l.split("\t")
                    r.append("wire:%s" % r[1])
                    rows.append(r)
    return rows, info


def vf_hex(s):
    return s.encode("utf8", "replace").hex() or "-"


def run(ctx):
    ctx.assumptions += [
        "sync.Mutex gives mutual exclusion and net/http's ResponseWriter.Write/Flush hand whole byte slices, in call order, to the connection: one critical section of sseConnection.write / multipartResponseAggregator.flush is modelled as one atomic step (Go's memory model is not modelled; 'no data race' is observed with -race, never proved)",
        "that every write after the second goroutine exists happens inside such a critical section is read off the source by go/extract/streamfmt.go (syntactic lock discipline: Gen.StreamFmt.sseSites / mpSites) and re-proved on every run",
        "encoding/json: json.Marshal(*graphql.Response) returns one line of valid JSON starting with '{' (checked on every generated payload, not proved); the multipart wrapper is the byte form json.Marshal gives the anonymous struct of writeIncrementalJson (compared byte-exactly on every case)",
        "multipart theorem assumes the hasNext shape true...true,false (C13) - streams that do not have it (e.g. subscriptions over multipart/mixed) are only compared with the model, not judged",
        "timer behaviour (time.Ticker, Reset) only chooses the schedule; every schedule is covered by the theorems",
        "which responses reach the writers is read off the source by go/extract/streamloop.go (the statements of the two `for { response, panicked := nextResponse(...) }` loops and the literals of nextResponse's recover branch: Gen.StreamLoop) and re-proved on every run; that a Go panic unwinds to nextResponse's deferred recover is Go semantics, exercised (operations that end by a panic, 5 kinds of panic value x 5 RecoverFuncs), not modelled",
    ]
    ctx.assumptions += [
        "when sseConnection.write refuses to write and what the keep-alive / ticker goroutines do is read off the source by go/extract/streamguard.go (Gen.StreamGuard) and re-proved on every run; that cancelling a context derived from the request's does nothing to the connection is net/http behaviour, exercised (server-side cancellation before / between / after payloads and by deadline, client connected), not modelled",
        "the multipart theorems are about payload values; the aggregator holds *graphql.Response pointers between flush ticks: that the bytes behind them do not change is proved for a buffer per response (Model/StreamAlias.lean) and the generated Exec is read for it (go/extract/execbuf.go on servers generated at check time from the current templates, both flavours); bytes.Buffer semantics (Reset keeps the array) are Go's, exercised on the wire, not modelled beyond that",
    ]
    ctx.assumptions += [
        "fmt.Fprintf writes the operand of %s verbatim and a literal without % as it is (Model/GoFmt.lean: goFmt models only %s, %%, a missing operand and a lone %; flags, widths, indexes are not modelled); which expressions the transports hand to Fprintf / Fprint / Write is read off the source by go/extract/streambytes.go (Gen.StreamBytes) and re-proved on every run; exercised with payloads full of %, printf verbs, CR/LF, this exchange's multipart delimiters, SSE fields, quotes, non-ASCII, HTML, controls and values of 2 KiB - 70 KiB at every member of a response",
    ]
    # how payload bytes reach the writer: stands on its own (it must be judged even when the other regenerated facts are unusable)
    ok_bytes = ctx.extract("StreamBytes")
    ok_extract = ctx.extract("StreamFmt", "StreamLoop", "StreamGuard")
    # servers generated NOW from the current templates (the executor behind the transports)
    built = gensrv.build_matrix(ctx, WIRE_PROBE, WIRE_CFGS)
    gen_ok = [c for c in WIRE_CFGS if not isinstance(built.get(c), Exception)]
    for c in WIRE_CFGS:
        if c not in gen_ok:
            ctx.violation({"kind": "generated-server-does-not-build", "config": c, "detail": str(built[c])[-3000:],
                           "shape": {"transport": "wire", "failure": "build", "config": c},
                           "replay": "generate probe %s with configuration %s from the current templates (lib/gensrv.py)" % (WIRE_PROBE, c)}, True)
    props = ["GqlgenVerif.Props.C12"]
    if ok_bytes:
        props.append("GqlgenVerif.Props.C12Bytes")
    if ok_extract and gen_ok:
        ok_extract = ctx.extract("ExecBuf", arg=",".join(os.path.join(vf.GO, "genout", "%s_%s" % (WIRE_PROBE, c)) for c in gen_ok))
        props.append("GqlgenVerif.Props.C12Exec")
    proved = bool(ok_extract) and ctx.prove(props=props)
    if ok_extract and not proved:
        ctx.cov["proof_failure"] = ctx.proof_failure
    bytes_failed = False
    if not ok_extract and ok_bytes:
        bytes_failed = not ctx.prove(props=["GqlgenVerif.Props.C12Bytes"])
        if bytes_failed:
            ctx.cov["proof_failure"] = ctx.proof_failure
    have_model = bool(ok_extract) and getattr(ctx, "driver_ok", False)

    thorough = ctx.tier == "thorough"
    rows = []
    runs = []   # (race?, seed, extra args)
    for k in range(3 if thorough else 1):
        runs.append((False, ctx.seed + 1000 * k, []))
    # the same generators under the race detector, one case at a time (attributable reports)
    runs.append((True, ctx.seed + 1, ["-seq"] + (["-sse", 800, "-mp", 400] if thorough else ["-sse", 80, "-mp", 40])))
    corpus_dir = os.path.join(vf.VERIF, "corpus", "C12")
    runs = [(race, seed, ["-corpus", corpus_dir] + extra) for race, seed, extra in runs]
    n_plain = n_race = 0
    for race, seed, extra in runs:
        rc, so, se = ctx.harness("c12", ["-tier", ctx.tier, "-seed", seed] + extra, race=race, timeout=2400)
        if rc != 0:
            raise RuntimeError("harness failed: " + se[-2000:])
        got = [l.split("\t") for l in so.split("\n") if l]
        for r in got:
            r.append("%s:%d:%s" % ("race" if race else "plain", seed, " ".join(str(x) for x in extra)))
        rows += got
        if race:
            n_race += len(got)
        else:
            n_plain += len(got)
    n_wire = 0
    wire_info = {}
    if gen_ok:
        wrows, wire_info = wire_rows(ctx, built)
        n_wire = len(wrows)
        rows += wrows
    kinds = Counter(r[0] for r in rows)

    def replay_cmd(r, race):
        if r[-1].startswith("wire:"):
            cfg, b, c, _ = wire_info.get(int(r[-1].split(":")[1]), ("?", "?", {}, ""))
            return "echo '%s' | %s -mode http   # server generated from the current templates (probe %s, configuration %s); `produced` = what the executor handed to the transport, `bodyHex` = what the client received" % (
                json.dumps(c).replace("'", "'\\''"), b, WIRE_PROBE, cfg)
        mode, seed, extra = r[-1].split(":", 2)
        return "cd /verif/go && go build %s-tags verif -o /tmp/h_c12 ./harness/c12 && /tmp/h_c12 -tier %s -seed %s %s -only %s" % (
            "-race " if mode == "race" else "", ctx.tier, seed, extra, r[1])

    # ---------------------------------------------------------------- model side
    lines, idx = [], []
    for i, r in enumerate(rows):
        if not have_model:
            break
        if r[0] == "sse":
            items = [] if r[8] == "-" else r[8].split(",")
            seen = [x for x in items if x != "R"]
            disc = r[3] != "-1"
            lines.append("ssechk %s %s %s" % ("prefix" if disc else "full", r[6], r[7])); idx.append((i, "chk"))
            sched = "-" if not seen else (_sse_sched(seen) if seen[0] == "C-" else None)
            sched = _with_cancel(sched, r[13])
            if sched is not None:
                ka = "1" if r[2] != "0" else "0"
                good, fin = _split_fin(r[6], r[12])
                lines.append("sseo %s %s %s %s" % (ka, good, fin, sched)); idx.append((i, "m1"))
                if disc:
                    lines.append("sseo %s %s %s %s" % (ka, good, fin, (sched if sched != "-" else "") + "t")); idx.append((i, "m2"))
        elif r[0] == "mp":
            disc = r[4] != "-1"
            shape = r[13] == "1"
            if shape or disc:
                lines.append("mpchk %s %s %s %s" % ("prefix" if disc else "full", r[2], r[7], r[8])); idx.append((i, "chk"))
            else:
                # outside the hasNext shape delimiters cannot be judged; the content can
                lines.append("mpcontent %s %s" % (r[7], r[8])); idx.append((i, "content"))
            batches = [] if r[10] == "-" else [int(x) for x in r[10].split(",")]
            npay = 0 if r[7] == "-" else len(r[7].split(","))
            if not disc and sum(batches) != npay:
                batches = _mp_batches_from_bytes(r[8]) or batches   # mime/multipart stops at the first closing delimiter
            if disc and sum(batches) < npay:
                batches = batches + [npay - sum(batches)]
            good, fin = _split_fin(r[7], r[15])
            for tag, merge in (("m1", False), ("m2", True)):
                lines.append("mpo %s %s %s %s" % (r[2], good, fin, _mp_scheds(batches, merge))); idx.append((i, tag))
    outs = ctx.driver("c12", lines) if lines else []
    model = {}
    for (i, tag), o in zip(idx, outs):
        model.setdefault(i, {})[tag] = o

    # ---------------------------------------------------------------- decide
    branch = Counter()
    nontriv = set()
    div = 0
    samples = []
    races = 0

    def viol(rep, failing):
        ctx.violation(rep, no_failing_input=not failing)

    def wire_of(r):
        """the exchange of the generated server a row came from (None for rows of the hand-built harness)"""
        if not r[-1].startswith("wire:"):
            return None
        cfg, b, c, _ = wire_info.get(int(r[-1].split(":")[1]), ("?", "?", {}, ""))
        return {"probe": WIRE_PROBE, "configuration": cfg, "binary": b, "case": c}

    for i, r in enumerate(rows):
        race = r[-1].startswith("race:")
        kind = r[0]
        if kind in ("race", "crash", "timeout"):
            races += 1
            digest = bytes.fromhex(r[2]).decode("utf8", "replace") if r[2] != "-" else ""
            viol({"kind": kind, "case": r[4] if len(r) > 4 else "?", "report": digest, "generated_server": wire_of(r),
                  "stderr": bytes.fromhex(r[3]).decode("utf8", "replace")[:3000] if r[3] != "-" else "",
                  "shape": {"transport": (r[4].split(" ")[0] if len(r) > 4 else "?"), "failure": kind},
                  "replay": "%s   # case: %s -> %s" % (replay_cmd(r, race), r[4] if len(r) > 4 else "?", digest)}, True)
            continue
        if kind == "ns":
            branch["non-stream:" + r[2]] += 1
            if r[6] != "ok":
                viol({"kind": "non-stream-answer", "case": r, "shape": {"transport": r[2], "failure": r[6]},
                      "replay": "request body hex %s to transport %s answered status %s type %s body hex %s" % (r[7].split(" ")[-1], r[2], r[3], r[4], r[5])}, True)
            continue
        m = model.get(i, {})
        if kind == "sse":
            ka, disc, payloads, raw, items, gov, hstate, desc, fin = r[2], r[3], r[6], r[7], r[8], r[9], r[10], r[11], r[12]
            its = [] if items == "-" else items.split(",")
            npings_between = 0
            seen_event = False
            for it in its:
                if it.startswith("E"):
                    seen_event = True
                elif it == PING and seen_event:
                    npings_between += 1
            branch["sse:" + desc] += 1
            if _has_pct(payloads):
                branch["sse:a payload contains '%'"] += 1
            branch["sse:ka=" + ("off" if ka == "0" else "<=5us" if int(ka) <= 5 else "<=200us" if int(ka) <= 200 else "ms")] += 1
            if race:
                branch["sse:race-build"] += 1
            if fin != "-":
                branch["sse:ends-by-panic after %s good" % _nclass(len(payloads.split(",")) - 1)] += 1
            cancel = r[13]
            if cancel != "-":
                branch["sse:request context cancelled on the server side, client connected" + (" (generated server)" if cancel.startswith("w") else "")] += 1
            if npings_between or disc != "-1" or desc == "operr" or fin != "-" or cancel != "-" or desc.startswith("wire:") or "content" in desc:
                nontriv.add(("sse", r[1], r[-1]))
            chk = m.get("chk")
            leanv, leanitems = (chk.split(" ", 1) + ["-"])[:2] if chk else (None, None)
            spec_fail = gov != "ok" or (leanv is not None and leanv != "ok") or hstate != "ok"
            corr_fail = False
            why = []
            if leanitems is not None and leanitems != items:
                corr_fail = True; why.append("Lean and Go SSE parsers disagree on the implementation's bytes")
            if have_model and not spec_fail:
                m1 = m.get("m1")
                if _loop_end(m):
                    corr_fail = True; why.append("the response loop regenerated from SSE.Do does not end by a break on this operation: " + _loop_end(m))
                if m1 is None:
                    corr_fail = True; why.append("no schedule reproduces the observed items")
                else:
                    mb = m1.split(" ")[0]
                    if disc == "-1":
                        if mb != raw:
                            corr_fail = True; why.append("model byte stream differs from the implementation's")
                    else:
                        rr = "" if raw == "-" else raw
                        m2b = m.get("m2", "- -").split(" ")[0]
                        if not (mb.startswith(rr) or m2b.startswith(rr)):
                            corr_fail = True; why.append("bytes read before the disconnect are not a prefix of the model's stream")
            if spec_fail or corr_fail:
                div += 1
                failure = gov if gov != "ok" else (leanv if leanv not in (None, "ok") else hstate)
                viol({"kind": "spec" if spec_fail else "correspondence", "why": why, "go_oracle": gov, "lean_spec": leanv, "handler": hstate,
                      "input": {"transport": "sse", "keepalive_us": ka, "payloads_hex": payloads, "disconnect_after": disc, "case": desc,
                                "ends_by_panic_error_response_hex": fin,
                                "request_context_cancelled_server_side": cancel},
                      "generated_server": wire_of(r),
                      "impl_bytes_hex": raw[:6000], "impl_items": items[:3000], "model": (m.get("m1") or "")[:3000],
                      "shape": {"transport": "sse", "failure": failure if spec_fail else "correspondence"},
                      "replay": replay_cmd(r, race) + "   # SSE keepalive=%sus, %d payloads%s: %s" % (ka, 0 if payloads == "-" else len(payloads.split(",")), _fin_note(fin), failure if spec_fail else "; ".join(why))},
                     spec_fail)
            elif len(samples) < 3 and npings_between and _hexlen(raw) < 400:
                samples.append({"transport": "sse", "keepalive_us": ka, "payloads_hex": payloads, "impl_bytes_hex": raw, "items": items})
        elif kind == "mp":
            bnd, tmo, disc, payloads, raw, items, batches, gov, hstate, shape, desc, fin = r[2], r[3], r[4], r[7], r[8], r[9], r[10], r[11], r[12], r[13], r[14], r[15]
            bl = [] if batches == "-" else [int(x) for x in batches.split(",")]
            branch["mp:" + desc] += 1
            if _has_pct(payloads):
                branch["mp:a payload contains '%'"] += 1
            branch["mp:parts=" + (str(len(bl)) if len(bl) < 4 else "4+")] += 1
            branch["mp:maxbatch=" + (str(max(bl[1:] or [0])) if max(bl[1:] or [0]) < 3 else "3+")] += 1
            if race:
                branch["mp:race-build"] += 1
            if fin != "-":
                branch["mp:ends-by-panic after %s good" % _nclass(len(payloads.split(",")) - 1)] += 1
            cancel = r[16]
            if cancel != "-":
                branch["mp:request context cancelled on the server side, client connected" + (" (generated server)" if cancel.startswith("w") else "")] += 1
            if desc.startswith("wire:") and max(bl[1:] or [0]) >= 2:
                branch["mp:generated server, >= 2 payloads held across one flush"] += 1
            if len(bl) >= 2 or disc != "-1" or shape != "1" or fin != "-" or cancel != "-" or "content" in desc:
                nontriv.add(("mp", r[1], r[-1]))
            chk = m.get("chk")
            leanv, leanitems = (chk.split(" ", 1) + ["-"])[:2] if chk else (None, None)
            judged = shape == "1"
            spec_fail = hstate != "ok" or (judged and (gov != "ok" or (leanv is not None and leanv != "ok")))
            content = m.get("content")
            if content is not None and content != "ok":
                spec_fail, leanv = True, content
            corr_fail = False
            why = []
            if judged and leanitems is not None and disc == "-1" and leanitems != items:
                corr_fail = True; why.append("Lean and mime/multipart parsers disagree on the implementation's bytes")
            if have_model and not spec_fail:
                if _loop_end(m):
                    corr_fail = True; why.append("the response loop regenerated from MultipartMixed.Do does not end by a break on this operation: " + _loop_end(m))
                cands = [m[t].split(" ")[0] for t in ("m1", "m2") if t in m]
                rr = "" if raw == "-" else raw
                if disc == "-1":
                    if raw not in cands:
                        corr_fail = True; why.append("model byte stream differs from the implementation's")
                else:
                    # bytes up to the last complete delimiter must agree with the model
                    b = bytes.fromhex("" if bnd == "-" else bnd)
                    d = (b"\r\n--" + b + b"\r\n").hex()
                    k = rr.rfind(d)
                    upto = k + len(d) if k >= 0 else 0
                    if upto and not any(c.startswith(rr[:upto]) for c in cands):
                        corr_fail = True; why.append("parts read before the disconnect are not a prefix of the model's stream")
            if spec_fail or corr_fail:
                div += 1
                failure = hstate if hstate != "ok" else gov if (gov != "ok" and judged) else leanv
                viol({"kind": "spec" if spec_fail else "correspondence", "why": why, "go_oracle": gov, "lean_spec": leanv, "handler": hstate,
                      "input": {"transport": "multipart/mixed", "boundary_hex": bnd, "delivery_timeout_us": tmo, "payloads_hex_hasNext": payloads, "disconnect_after": disc, "case": desc,
                                "ends_by_panic_error_response_hex": fin,
                                "request_context_cancelled_server_side": cancel},
                      "generated_server": wire_of(r),
                      "impl_bytes_hex": raw[:6000], "impl_items": items[:3000], "batches": batches,
                      "shape": {"transport": "mp", "failure": failure if spec_fail else "correspondence"},
                      "replay": replay_cmd(r, race) + "   # multipart/mixed boundary=%r, %d payloads%s: %s" % (bytes.fromhex("" if bnd == "-" else bnd).decode("latin1"), 0 if payloads == "-" else len(payloads.split(",")), _fin_note(fin), failure if spec_fail else "; ".join(why))},
                     spec_fail)
            elif len(samples) < 5 and len(bl) >= 2 and _hexlen(raw) < 500:
                samples.append({"transport": "multipart/mixed", "boundary_hex": bnd, "payloads_hex_hasNext": payloads, "impl_bytes_hex": raw, "batches": batches})

    if ((ok_extract and not proved) or bytes_failed) and not any(not nf for _, nf in ctx.violations):
        # a theorem over the regenerated facts no longer checks and no failing input was found above
        ctx.violation({"kind": "proof", "failing": ctx.proof_failure,
                       "replay": "cd /verif/lean && lake build %s   # theorems over Gen/StreamBytes.lean, Gen/StreamFmt.lean, Gen/StreamLoop.lean, Gen/StreamGuard.lean regenerated from /repo and Gen/ExecBuf.lean regenerated from servers generated from the current templates" % " ".join(props)},
                      no_failing_input=True)

    ctx.cov.update({
        "evaluations": len(rows),
        "distinct_nontrivial": len(nontriv),
        "rule": "one evaluation = one real HTTP exchange with the transport behind httptest.Server (hand-built ExecutableSchema, 0-50 payloads with adversarial strings - CONTENT classes printf ('%', verbs), lines (CR/LF), ssefield, boundary (this exchange's delimiters), quotes, nonascii, html, ctrl, long (2 KiB - 70 KiB) drawn everywhere in random cases and, in directed cases, every class at every member of a response (data value / data key / error message / error extensions / response extensions / label / path / text of the panic that ends the operation) on both transports, corpus/C12/content-*.json, corpus/C12/wire-content.jsonl for the generated servers -, inter-payload delays 0-2.7ms, keep-alive 1us-5ms / flush tick 1ms-3ms, 10 boundaries, client disconnect points; an operation ends by nil or by a panic raised while the next response is being built - after 0, 1 or many good payloads, 5 kinds of panic value x 5 RecoverFuncs - whose error response must be delivered as the last payload), the request context cancelled ON THE SERVER SIDE while the client keeps reading - just before response k is built, k = 0..n, or by a deadline of 1us-3ms - with an operation that goes on / ends / says a last word; the same exchange against a server GENERATED at check time from the current templates (probe c12: generated @defer queries, directed corpus/C12/*.jsonl, generated subscriptions; multipart/mixed with DeliveryTimeout 1ms / 2ms / 200ms with and without resolver delays so that payloads are held across flush ticks, SSE with keep-alive off / 100us / 1ms, subscriptions over both, server-side cancellation at a logical-clock value; both template flavours), where the payloads that must arrive are json.Marshal of every response taken when the executor returned it), bytes parsed by bufio/mime-multipart parsers, by the Lean parsers, and compared byte-exactly with the Lean model (response loop regenerated from source + writer model) run on the operation and the observed schedule. Non-trivial = a directed content case; SSE case with a ping between two events, an operation-error stream, a disconnect, a panic, a server-side cancellation or a generated server; multipart case with >= 2 parts, a disconnect, a panic, a server-side cancellation, or a hasNext sequence outside the shape (judged on content: mpContentSpec)",
        "input_distribution": dict(branch),
        "kinds": dict(kinds),
        "plain_build_cases": n_plain,
        "generated_server_exchanges": n_wire,
        "race_build_cases": n_race,
        "race_or_crash_reports": races,
        "correspondence_or_spec_failures": div,
        "model_lines_executed": len(lines),
        "samples": samples,
        "sampled_not_proved": ["absence of data races (race detector)", "json.Marshal output is one line of valid JSON", "net/http chunked framing"],
    })
