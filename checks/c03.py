"""C03 - nothing executes unless the operation passed parsing, validation and every gate; hook order."""
import os
import re
from collections import Counter
from lib import vf

MAX_REPORTS = 12


def _rows(so):
    return [l.split("\t") for l in so.split("\n") if l]


def _run_rows(ctx, rows):
    """Feed the harness rows to the Lean driver in order. Every R/K row becomes its `R` line (model,
    state advances; K rows are concurrent, so only the Spec line is sent) followed by a `C` line (Spec
    verdict on the implementation's observation). Returns per row (model_out, spec_verdict)."""
    lines, idx = [], []
    for n, r in enumerate(rows):
        k = r[0]
        if k in ("Q", "G", "S"):
            lines.append(r[1]); idx.append((n, "ctl"))
        elif k == "R":
            lines.append("R " + r[1]); idx.append((n, "model"))
            lines.append("C " + r[1] + " " + r[2]); idx.append((n, "spec"))
        elif k == "K":
            lines.append("C " + r[1] + " " + r[2]); idx.append((n, "spec"))
    outs = ctx.driver("c03", lines)
    if len(outs) != len(lines):
        raise RuntimeError("driver answered %d lines for %d" % (len(outs), len(lines)))
    res = {}
    for (n, what), o in zip(idx, outs):
        if what == "ctl":
            if o != "ok":
                raise RuntimeError("driver rejected %r: %s" % (rows[n][1], o))
            continue
        res.setdefault(n, {})[what] = o
    return res


def _history(rows, n):
    """the session line, the Q lines and the earlier requests of the session that row n belongs to"""
    s = n
    while s >= 0 and rows[s][0] != "S":
        s -= 1
    hist = []
    for r in rows[max(s, 0):n + 1]:
        if r[0] == "S":
            hist.append({"session": r[1], "route": r[2]})
        elif r[0] in ("R", "K"):
            hist.append({"request": r[1], "observed": r[2], "class": r[4], "query": r[5],
                         "transport": r[6] if len(r) > 6 else "direct"})
    return hist


def _race_blocks(stderr):
    blocks = []
    for b in stderr.split("==================")[1:]:
        if "WARNING: DATA RACE" not in b:
            continue
        # the two access stacks: the frames before the first "Goroutine … created at"
        acc = b.split("Goroutine ")[0]
        frames = re.findall(r"^  (\S+)\(\)$", acc, re.M)
        tops = []
        for part in re.split(r"\n(?=(?:Previous )?(?:[Rr]ead|[Ww]rite|atomic [a-z]+) at )", acc):
            fs = re.findall(r"^  (\S+)\(\)$", part, re.M)
            if fs:
                tops.append(fs[0])
        blocks.append({"tops": tops, "frames": frames, "text": b.strip()[:3000]})
    return blocks


def run(ctx):
    ctx.assumptions += [
        "gqlparser (lexer, parser, each validation rule, VariableValues) is trusted base: the model takes, per query text, the verdicts an oracle obtains by calling gqlparser directly with explicit rule lists on its own copy of the document",
        "the schema side is a hand-built universal ExecutableSchema that calls RootResolverMiddleware/ResolverMiddleware once per field like generated code does (generated executors are C01's subject)",
        "goroutines are modelled as interleavings of the reads/writes of gqlparser's rule-list variable; the Go memory model is not modelled - data-race freedom is observed with the race detector (thorough tier), never proved",
        "hashicorp/golang-lru behaves like the recency-list model of Model/Apq.lean (validated by the cache get/add events of every case)",
    ]
    ctx.assumptions.append(
        "token limit: the number of tokens gqlparser consumes for a text (`need`) is obtained from gqlparser itself (smallest limit that parses like no limit); the model treats a text whose need exceeds the configured limit as having no document (World.withLimit)")
    ctx.assumptions.append(
        "transports: every function of graphql/handler/transport that calls CreateOperationContext is driven (POST, GET, multipart form, urlencoded form, application/graphql, multipart/mixed, SSE in-process with a ResponseRecorder; websocket over a real loopback connection, one connection per operation, both sub-protocols); what the client received is read back as the list of answers, the closing frame of a stream as the handler's nil")
    ok_steps = ctx.extract("PipelineSteps")
    ok_gates = ctx.extract("TransportGates")
    ok_guards = ctx.extract("ParseGuards")
    ok_extract = ok_steps and ok_gates and ok_guards
    proved = ok_extract and ctx.prove(props=["GqlgenVerif.Props.C03", "GqlgenVerif.Props.C03Guards"])
    if ok_extract and not proved:
        ctx.cov["proof_failure"] = ctx.proof_failure
    if not ok_extract:
        # the skeleton could not be re-read (reported as a broken tie); the driver needs no Gen file,
        # so the correspondence and the Spec still run and can produce the failing input
        rcd, sod, sed = vf.sh(["lake", "build", "driver_c03"], cwd=vf.LEAN, timeout=3000)
        ctx.driver_ok = rcd == 0
        ctx.driver_log = sod + sed

    # ------------------------------------------------------------ sequential correspondence
    rc, so, se = ctx.harness("c03", ["-mode", "seq", "-tier", ctx.tier, "-seed", ctx.seed])
    if rc != 0:
        raise RuntimeError("harness failed: " + se[-3000:])
    rows = _rows(so)
    res = _run_rows(ctx, rows)
    branch, classes, routes = Counter(), Counter(), Counter()
    nontriv = set()
    div = []
    dead_sessions = set()
    cur_session, route = -1, "?"
    for n, r in enumerate(rows):
        if r[0] == "S":
            cur_session, route = n, r[2]
            continue
        if r[0] != "R":
            continue
        m = res[n]["model"]
        mtoks = m.split(" ")
        gate = mtoks[3][1:] if len(mtoks) > 3 else "?"
        gk = re.sub(r"\d+$", "", gate)
        tag = gk
        if "h," in r[2].split(" ")[2] or re.search(r"g\d+h", r[2]):
            tag += "+cache-hit"
        branch[tag] += 1
        classes[r[4]] += 1
        via = r[6] if len(r) > 6 else route
        routes[via] += 1
        if gk != "ok" or "cache-hit" in tag or "blk" in m or "cX" in m:
            nontriv.add((rows[cur_session][1], r[1]))
        if cur_session in dead_sessions:
            continue
        spec = res[n]["spec"]
        if " ".join(mtoks[:3]) != r[2] or r[3] != "-" or spec != "ok":
            dead_sessions.add(cur_session)      # later requests of the session start from a different state
            div.append((n, m, spec))

    # report the divergences that come with a failing input (Spec violated) first
    div.sort(key=lambda t: (not (t[2].startswith("violates") or rows[t[0]][3] != "-"), t[0]))
    for n, m, spec in div[:MAX_REPORTS]:
        r = rows[n]
        srow = rows[[i for i in range(n, -1, -1) if rows[i][0] == "S"][0]]
        failing = spec.startswith("violates") or r[3] != "-"
        verdict = r[3] if r[3] != "-" else spec
        rep = {"kind": "correspondence", "history": _history(rows, n), "request": r[1], "query": r[5],
               "implementation": r[2], "model": " ".join(m.split(" ")[:3]), "spec_verdict": verdict,
               "transport": r[6] if len(r) > 6 else srow[2],
               "shape": {"verdict": verdict.split(":")[-1], "class": r[4]},
               "replay": "session `%s` (%s): after the listed history, request `%s` on query %s sent through transport `%s` -> implementation answered `%s`; model `%s`; Spec: %s"
                         % (srow[1], srow[2], r[1], r[5], r[6] if len(r) > 6 else srow[2], r[2][:400], " ".join(m.split(" ")[:3])[:400], verdict)}
        ctx.violation(rep, no_failing_input=not failing)

    # ------------------------------------------------------------ concurrent requests, judged by the Spec
    thorough = ctx.tier == "thorough"
    conc_total, conc_bad, race_reports = 0, [], []
    for disable in (False, True):
        for rnd in range(3 if thorough else 1):
            args = ["-mode", "conc", "-seed", str(int(ctx.seed) * 7 + rnd + (100 if disable else 0)),
                    "-workers", "8", "-per", "150" if thorough else "40"]
            if disable:
                args.append("-disable")
            rc, so, se = ctx.harness("c03", args, race=True, env={"GORACE": "halt_on_error=0 history_size=3"})
            blocks = _race_blocks(se)
            if rc not in (0, 66) or (rc == 66 and not blocks):
                raise RuntimeError("concurrent harness failed rc=%s: %s" % (rc, se[-3000:]))
            crow = _rows(so)
            cres = _run_rows(ctx, crow)
            for n, r in enumerate(crow):
                if r[0] != "K":
                    continue
                conc_total += 1
                spec = cres[n]["spec"]
                if spec != "ok" or r[3] != "-":
                    conc_bad.append((crow, n, spec, disable))
            for b in blocks:
                on_rules = b["tops"] and all(re.search(r"gqlparser/v2/validator\.(RemoveRule|ReplaceRule|Validate|AddRule)$", t) for t in b["tops"])
                race_reports.append(b["tops"])
                shape = {"kind": "data-race",
                         "variable": "gqlparser validator.specifiedRules" if on_rules else "other",
                         "config": "disableSuggestion" if disable else "suggestions-on"}
                ctx.violation({"kind": "data-race", "shape": shape, "report": b["text"],
                               "replay": "go build -race ./harness/c03 && h_c03_race %s : race detector report between %s" % (" ".join(args), " / ".join(b["tops"]))})
    for crow, n, spec, disable in conc_bad[:MAX_REPORTS]:
        r = crow[n]
        verdict = r[3] if r[3] != "-" else spec
        ctx.violation({"kind": "concurrent-request", "history": _history(crow, n)[:1], "request": r[1], "query": r[5],
                       "implementation": r[2], "spec_verdict": verdict,
                       "shape": {"verdict": verdict.split(":")[-1], "class": r[4], "concurrent": True,
                                 "config": "disableSuggestion" if disable else "suggestions-on"},
                       "replay": "8 goroutines x requests on one executor (`%s`): request `%s` on %s answered `%s`; Spec: %s"
                                 % (crow[0][1], r[1], r[5], r[2][:400], verdict)},
                      no_failing_input=not (verdict.startswith("violates") or r[3] != "-"))

    # ------------------------------------------------------------ the first-requests window of disableSuggestion
    tries = 60000 if thorough else 12000
    rc, so, se = ctx.harness("c03", ["-mode", "window", "-tries", tries, "-workers", "8"])
    w = [r for r in _rows(so) if r[0] == "W"]
    if rc != 0 or not w:
        raise RuntimeError("window harness failed rc=%s: %s" % (rc, se[-3000:]))
    wkv = dict(x.split("=", 1) for x in w[0][1:] if "=" in x)
    if int(wkv["accepted_tries"]) or int(wkv["panics"]) or int(wkv["good_rejected"]) or int(wkv.get("corrupted", 0)):
        what = [x for x in w[0][1:] if "=" not in x and x]
        ctx.violation({"kind": "concurrent-first-requests", "counts": wkv, "observed": what,
                       "shape": {"kind": "validate-without-field-rule" if int(wkv["accepted_tries"]) else "rule-list-torn",
                                 "config": "disableSuggestion", "concurrent": True},
                       "replay": "h_c03 -mode window -tries %s -workers 8 (per try: fresh rule list, then 8 goroutines send their first requests at once; tries cycle through the process configurations {one executor with SetDisableSuggestion(true) | executor A with it gets `{ name }`, executor B with suggestions on gets `{ nope_unknown_field }` 12 times per goroutine | two executors with it}): %s"
                                 % (tries, "; ".join(what))})

    if not proved and ok_extract:
        if not any(not nf for _, nf in ctx.violations):
            ctx.violation({"kind": "proof", "failing": ctx.proof_failure}, no_failing_input=True)

    # violations that carry a concrete failing input are listed first (a refused extraction / a broken
    # proof names the place, the failing input shows the behaviour)
    ctx.violations.sort(key=lambda v: v[1])

    reqs = [r for r in rows if r[0] == "R"]
    ctx.cov.update({
        "evaluations": len(reqs) + conc_total + int(wkv["tries"]),
        "sequential_requests": len(reqs),
        "sessions": sum(1 for r in rows if r[0] == "S"),
        "distinct_query_texts": sum(1 for r in rows if r[0] == "Q"),
        "concurrent_requests_judged_by_spec": conc_total,
        "window_tries": wkv,
        "race_detector_reports": len(race_reports),
        "distinct_nontrivial": len(nontriv),
        "rule": "sessions = (cache in none/map/lru1/lru2/lru3/lru1000) x disableSuggestion x random list of 0-11 extensions each implementing a random non-empty subset of the 6 hook interfaces (extension ids divisible by 3 register their rejection codes as protocol-kind errors, the others stay user-kind) x route (executor driven like a transport / handler.Server with all transports, per request one of post, get, multipart form, urlencoded form, application/graphql, SSE, multipart/mixed, websocket graphql-ws, websocket graphql-transport-ws); per session 3-12 requests over a pool of 2-5 texts (valid: anonymous, named, multi-operation, variables, subscription; 16 invalidation classes) with operation names (right/empty/unknown), variables (valid/missing/wrong type/null/extra), mutator rejections, query rewrites, blocking operation interceptors, Exec set-up errors, 0-3 subscription events, 1-5 polls; with probability 1/2 the pool also holds 1-3 near-key siblings of one of its texts (same text except for the kind of one separator incl. NBSP/VT/FF/U+2028/U+0085/BOM, separators at the edges, a # comment and what terminates it, white space inside a (block) string, letter case, the tail; validity decided by gqlparser), 40% of the sessions run with SetParserTokenLimit (1,2,3,5,1000 or the token need of a pool text -3..+2); plus 60 directed near-key sessions (6 families x 5 caches x direct/server: base, sibling, base, ...), 48 directed token-limit sessions (8 limits x none/map/lru2 x direct/server), 21 directed sessions and 18 directed transport sessions (every transport x {none, lru2} x 24 requests: each kind of rejection incl. protocol-kind and user-kind mutator rejections of queries, mutations and subscriptions). Non-trivial = distinct (session, request) that is rejected by some gate, hits the cache, is blocked or fails in Exec",
        "input_distribution": dict(branch),
        "generator_classes": dict(classes),
        "routes": dict(routes),
        "correspondence_divergences": len(div),
        "divergence_classes": dict(Counter(rows[n][4] for n, _, _ in div)),
        "samples": [rows[i][:3] for i in (3, 6, 9) if i < len(rows)],
        "traces_validated_against_impl": len(reqs),
    })
