"""C05 - operations terminate and leave nothing running, even when cancelled mid-flight (PARTIAL)."""
import json
from collections import Counter

from lib import vf, gensrv
from checks import c01

OPS = [
    # (id, query, plan)  -- list fan-out, nesting, deferral
    ("list-fanout", "{ t { kids { nid kid { nid } } kidsNNNN { y } } ts { nid } }", {"seed": 11, "rates": {"maxLen": 4, "delay": 500, "maxDelay": 2000}}),
    ("union-list", "{ us { __typename ... on T { nid kids { nid } } ... on P { friends { name } } } }", {"seed": 12, "rates": {"maxLen": 4, "delay": 500, "maxDelay": 2000}}),
    ("defer", "{ t { nid ... @defer(label: \"a\") { x kids { nid ... @defer(label: \"b\") { y } } } } ts { nid ... @defer { s } } }", {"seed": 13, "rates": {"maxLen": 3, "delay": 500, "maxDelay": 2000}}),
    ("matrix", "{ t { matrix { nid nodes { nid } } } }", {"seed": 14, "rates": {"maxLen": 3, "delay": 300, "maxDelay": 1500}}),
    ("mutation", "mutation { m1 { kids { nid } } m3 { friends { name } } }", {"seed": 15, "rates": {"maxLen": 4, "delay": 500, "maxDelay": 1500}}),
    # a panic OUTSIDE a field function inside list-element goroutines (a value that is not a member of the union)
    ("ghost-in-list", "{ us { __typename ... on T { nid } } t { us { __typename } } }", {"seed": 17, "rates": {"maxLen": 5}, "overrides": {"us": {"kind": "value", "len": 5}, "us/1#elem": {"kind": "value", "type": "__ghost"}, "us/3#elem": {"kind": "value", "type": "__ghost"}, "t/us": {"kind": "value", "len": 4}, "t/us/0#elem": {"kind": "value", "type": "__ghost"}}}),
    ("errors", "{ tNN { kidNN { y } kidsNN { y } } p { t { kids { nid } } } }", {"seed": 16, "rates": {"err": 150, "nil": 100, "maxLen": 4, "delay": 500, "maxDelay": 1500}}),
]


def run(ctx):
    if getattr(ctx, "replay", None):
        from checks import execreplay
        if execreplay.replay(ctx, "C05"):
            return
    ctx.assumptions += [
        "wall-clock bounds and real goroutine liveness are not expressible in the model: they are observed (time-boxed runs; goroutine dumps filtered to gqlgen/generated frames after the request ended and its context was cancelled)",
        "resolvers return promptly when their context is cancelled (the universal resolver's sleeps select on ctx.Done)",
        "sync.WaitGroup, semaphore.Weighted, channels and context are modelled by the transition systems of Model/Join.lean, not verified",
        "websocket: operations (queries, @defer queries, mutations) run as graphql-transport-ws `subscribe` payloads over a real connection incl. client complete / abrupt disconnect / cancellation; event-stream subscriptions and the protocol itself are C11's",
    ]
    cfgs = ["base", "wl1", "wl2", "wl8", "follow_funcsyn_wl2"]
    built = gensrv.build_matrix(ctx, "exec", cfgs)
    ok_extract = not isinstance(built["wl2"], Exception) and ctx.extract("JoinFacts", arg=gensrv.gen_dir("exec", "wl2"))
    proved = ok_extract and ctx.prove(props=["GqlgenVerif.Props.C05", "GqlgenVerif.Props.C05Gen"])
    if ok_extract and not proved:
        ctx.cov["proof_failure"] = ctx.proof_failure
    dist = Counter()
    total = 0
    nontriv = set()
    bad = []
    samples = []
    ops = OPS if ctx.tier == "quick" else OPS + [(i + "-s%d" % k, q, dict(p, seed=p["seed"] * 100 + k)) for (i, q, p) in OPS for k in range(4)]
    for cfg in cfgs:
        b = built[cfg]
        if isinstance(b, Exception):
            ctx.violation({"kind": "generated-server-does-not-build", "config": cfg, "detail": str(b)[-3000:],
                           "shape": {"config": cfg, "build": "fail"}})
            continue
        # 1. how long is each operation (logical clock) when nothing is cancelled
        base_cases = [json.dumps({"id": i, "query": q, "plan": p, "timeoutMs": 4000, "leakCheck": True}) for i, q, p in ops]
        rc, so, se = vf.sh([b, "-mode", "run", "-maxhung", "3"], inp="\n".join(base_cases) + "\n", timeout=600)
        if rc != 0:
            raise RuntimeError("runner failed: " + se[-2000:])
        clocks = {}
        for l in so.split("\n"):
            if l:
                r = json.loads(l)
                clocks[r["id"]] = max([i["end"] for i in r["log"]] + [1])
        for i, q, p in ops:
            clocks.setdefault(i, 8)
        # 2. every cancellation point x {drain all payloads, single payload}
        cases = []
        for i, q, p in ops:
            pts = range(1, clocks[i] + 2) if ctx.tier != "quick" else range(1, clocks[i] + 2, max(1, clocks[i] // 12))
            for at in pts:
                for mp in (0, 1):
                    cases.append({"id": "%s@%d/%d" % (i, at, mp), "query": q, "plan": p, "cancelAt": at,
                                  "maxPayloads": mp, "timeoutMs": 1500, "leakCheck": True})
            for mp in (0, 1):
                cases.append({"id": "%s@never/%d" % (i, mp), "query": q, "plan": p, "maxPayloads": mp,
                              "timeoutMs": 3000, "leakCheck": True})
        rc, so, se = vf.sh([b, "-mode", "run", "-maxhung", "3"], inp="\n".join(json.dumps(c) for c in cases) + "\n", timeout=2400)
        if rc != 0:
            raise RuntimeError("runner failed: " + se[-2000:])
        for c, l in zip(cases, [x for x in so.split("\n") if x]):
            r = json.loads(l)
            total += 1
            tag = "cancelled" if r.get("cancelled") else "not-cancelled"
            dist[cfg + ":" + tag] += 1
            if c["maxPayloads"] == 1 and "@defer" in c["query"]:
                dist["single-payload-with-defer"] += 1
            nontriv.add(c["id"] + cfg)
            why = []
            if r.get("hung"):
                why.append("response-function-did-not-return")
            if r.get("leaked"):
                why.append("goroutines-alive-after-cancel")
            if r.get("crash"):
                # a panic that escapes the response function ends it (C04's subject, not a hang or a leak):
                # seen only in the ghost case, where gqlgen's own `ret = nil` in a list-element recover races
                # with the other elements (a value of an unregistered Go type is outside C04's statement)
                dist["response-function-panicked"] += 1
            if why:
                bad.append((cfg, c, r, why))
            elif len(samples) < 3 and r.get("cancelled") and len(r["log"]) > 3:
                samples.append({"config": cfg, "case": c["id"], "query": c["query"], "invocations": len(r["log"]),
                                "payloads": len(r["payloads"]), "errors": [e["message"] for p in r["payloads"] for e in p["errors"]][:4]})
        # 3. the same operations over real HTTP transports (single-response and streaming), with client disconnects
        hcases = []
        for i, q, p in ops[:6]:
            if q.startswith("mutation"):
                trs = ["post"]
            else:
                trs = ["post", "get", "sse", "multipart"]
            for tr in trs:
                hcases.append({"id": "%s/%s" % (i, tr), "query": q, "plan": p, "transport": tr, "timeoutMs": 4000})
                hcases.append({"id": "%s/%s/drop" % (i, tr), "query": q, "plan": p, "transport": tr,
                               "timeoutMs": 4000, "disconnectAfter": 20})
                hcases.append({"id": "%s/%s/cancel" % (i, tr), "query": q, "plan": p, "transport": tr,
                               "timeoutMs": 4000, "cancelAt": 4})
            # websocket: run to completion; client completes / drops the connection after the first payload; cancel
            hcases.append({"id": "%s/ws" % i, "query": q, "plan": p, "transport": "ws", "timeoutMs": 4000})
            hcases.append({"id": "%s/ws/complete" % i, "query": q, "plan": p, "transport": "ws", "timeoutMs": 4000,
                           "clientEnds": "complete", "afterNext": 1})
            hcases.append({"id": "%s/ws/drop" % i, "query": q, "plan": p, "transport": "ws", "timeoutMs": 4000,
                           "clientEnds": "drop", "afterNext": 1})
            hcases.append({"id": "%s/ws/cancel" % i, "query": q, "plan": p, "transport": "ws", "timeoutMs": 4000, "cancelAt": 4})
            # the server closes the connection itself while the operation runs: a second operation under the running id
            # (4409), connection_terminate (legacy subprotocol); and the legacy subprotocol's ordinary paths
            hcases.append({"id": "%s/ws/dupid" % i, "query": q, "plan": p, "transport": "ws", "timeoutMs": 4000, "clientEnds": "dupid"})
            hcases.append({"id": "%s/ws/dupid-after-next" % i, "query": q, "plan": p, "transport": "ws", "timeoutMs": 4000, "clientEnds": "dupid", "afterNext": 1})
            hcases.append({"id": "%s/gqlws" % i, "query": q, "plan": p, "transport": "ws", "timeoutMs": 4000, "subproto": "graphql-ws"})
            hcases.append({"id": "%s/gqlws/terminate" % i, "query": q, "plan": p, "transport": "ws", "timeoutMs": 4000, "subproto": "graphql-ws", "clientEnds": "terminate"})
            hcases.append({"id": "%s/gqlws/dupid" % i, "query": q, "plan": p, "transport": "ws", "timeoutMs": 4000, "subproto": "graphql-ws", "clientEnds": "dupid"})
            hcases.append({"id": "%s/gqlws/stop" % i, "query": q, "plan": p, "transport": "ws", "timeoutMs": 4000, "subproto": "graphql-ws", "clientEnds": "complete", "afterNext": 1})
            # a server whose InitFunc builds the connection's context itself (not derived from the request's)
            hcases.append({"id": "%s/ws/detached-init/drop" % i, "query": q, "plan": p, "transport": "ws", "timeoutMs": 4000,
                           "clientEnds": "drop", "afterNext": 1, "detachedInit": True})
            hcases.append({"id": "%s/ws/detached-init" % i, "query": q, "plan": p, "transport": "ws", "timeoutMs": 4000, "detachedInit": True})
        # SSE with keep-alive pings (their goroutine must end with the request)
        for i, q, p in ops[:4]:
            if q.startswith("mutation"):
                continue
            for extra, tag in (({}, ""), ({"disconnectAfter": 20}, "/drop"), ({"cancelAt": 4}, "/cancel")):
                c = {"id": "%s/sse-keepalive%s" % (i, tag), "query": q, "plan": p, "transport": "sse", "timeoutMs": 4000, "keepAliveUs": 1500}
                c.update(extra)
                hcases.append(c)
        # requests that are REFUSED before anything executes (parse error, validation error, unknown operation name):
        # whatever the transport started on their behalf must be gone as well
        plan0 = {"seed": ctx.seed, "rates": {}}
        for name, rq, opn in (("validation", "{ nope }", ""), ("parse", "{ i ", ""), ("unknown-operation", "query A { i }", "B")):
            for tr in ("post", "get", "sse", "multipart", "ws"):
                c = {"id": "refused-%s/%s" % (name, tr), "query": rq, "operationName": opn, "plan": plan0, "transport": tr, "timeoutMs": 4000}
                if tr == "sse":
                    c["keepAliveUs"] = 1500
                hcases.append(c)
        rc, so, se = vf.sh([b, "-mode", "http", "-maxhung", "3"], inp="\n".join(json.dumps(c) for c in hcases) + "\n", timeout=1200)
        if rc != 0:
            raise RuntimeError("http runner failed: " + se[-2000:])
        for c, l in zip(hcases, [x for x in so.split("\n") if x]):
            r = json.loads(l)
            total += 1
            dist["http:" + c["transport"] + (":refused" if c["id"].startswith("refused-") else "") + (":keepalive" if c.get("keepAliveUs") else "") + (":" + c["subproto"] if c.get("subproto") else "") + (":server-closes:" + c["clientEnds"] if c.get("clientEnds") in ("dupid", "terminate") else
                                             ":drop" if c.get("disconnectAfter") or c.get("clientEnds") == "drop" else
                                             ":client-complete" if c.get("clientEnds") else ":cancel" if c.get("cancelAt") else "")] += 1
            nontriv.add(c["id"] + cfg)
            why = []
            if r.get("hung"):
                why.append("http-response-did-not-end")
            if r.get("leaked"):
                why.append("goroutines-alive-after-request")
            if why:
                bad.append((cfg, c, r, why))
    for cfg, c, r, why in bad:
        if len(ctx.violations) >= 20:
            break
        ctx.violation({"kind": "observation", "config": cfg, "why": why, "case": c,
                       "leaked": r.get("leaked"), "hung": r.get("hung"),
                       "shape": {"why": ",".join(why), "transport": c.get("transport", "executor"),
                                 "single_payload": c.get("maxPayloads") == 1},
                       "replay": "echo '<case json>' | <generated server %s> -mode %s" % (cfg, "http" if c.get("transport") else "run")})
    if ok_extract and not proved and not ctx.violations:
        ctx.violation({"kind": "proof", "failing": ctx.proof_failure}, no_failing_input=True)
    ctx.cov.update({
        "evaluations": total,
        "distinct_nontrivial": len(nontriv),
        "rule": "operations with list fan-out, nested lists, unions, @defer (nested, in lists) and mutations x worker_limit 0/1/2/8 x every cancellation point of the logical clock (before/after each user-code invocation; quick tier: every ~12th) x {response function drained, called once as single-response transports do}; plus the same operations over real POST/GET/SSE/multipart connections and as graphql-transport-ws operations over a real websocket, incl. client disconnect, client complete and mid-flight cancellation; observation = response function / HTTP response ended within the time box, and no goroutine with gqlgen or generated frames alive 400ms after cancel",
        "input_distribution": dict(dist),
        "observed_failures": len(bad),
        "samples": samples,
    })
