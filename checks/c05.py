"""C05 - operations terminate and leave nothing running, even when cancelled mid-flight (PARTIAL)."""
import hashlib
import json
import os
import random
from collections import Counter

from lib import vf, gensrv
from checks import c01

OPS = [
    # (id, query, plan)  -- list fan-out, nesting, deferral
    ("list-fanout", "{ t { kids { nid kid { nid } } kidsNNNN { y } } ts { nid } }", {"seed": 11, "rates": {"maxLen": 4, "delay": 500, "maxDelay": 2000}}),
    ("union-list", "{ us { __typename ... on T { nid kids { nid } } ... on P { friends { name } } } }", {"seed": 12, "rates": {"maxLen": 4, "delay": 500, "maxDelay": 2000}}),
    ("defer", "{ t { nid ... @defer(label: \"a\") { x kids { nid ... @defer(label: \"b\") { y } } } } ts { nid ... @defer { s } } }", {"seed": 13, "rates": {"maxLen": 3, "delay": 500, "maxDelay": 2000}}),
    ("matrix", "{ t { matrix { nid nodes { nid } } } }", {"seed": 14, "rates": {"maxLen": 3, "delay": 300, "maxDelay": 1500}}),
    ("mutation", "mutation { m1 { kids { nid } } m3 { friends { name } } }", {"seed": 15, "rates": {"maxLen": 4, "delay": 500, "maxDelay": 1500}}),
    # a panic OUTSIDE a field function inside list-element goroutines (a value that is not a member of the union)
    ("ghost-in-list", "{ us { __typename ... on T { nid } } t { us { __typename } } }", {"seed": 17, "rates": {"maxLen": 5}, "overrides": {"us": {"kind": "value", "len": 5}, "us/1#elem": {"kind": "value", "type": "__ghost"}, "us/3#elem": {"kind": "value", "type": "__ghost"}, "t/us": {"kind": "value", "len": 4}, "t/us/0#elem": {"kind": "value", "type": "__ghost"}}}),
    ("errors", "{ tNN { kidNN { y } kidsNN { y } } p { t { kids { nid } } } }", {"seed": 16, "rates": {"err": 150, "nil": 100, "maxLen": 4, "delay": 500, "maxDelay": 1500}}),
]


# ------------------------------------------------------------------ round 6: shipped extensions x faults
FTV1 = {"apollo-federation-include-trace": "ftv1"}
# (name, extensions installed in this order, request headers)
EXT_SETS = [
    ("ftv1", ["ftv1"], FTV1),
    ("ftv1-all-errors", ["ftv1:all"], FTV1),
    ("ftv1-transform", ["ftv1:transform"], FTV1),
    ("ftv1-not-requested", ["ftv1"], {}),
    ("apollotracing", ["apollotracing"], {}),
    ("introspection+complexity", ["introspection", "complexity:100000"], {}),
    ("complexity-refuses", ["complexity:2"], {}),
    ("apq", ["apq"], {}),
    ("everything", ["introspection", "complexity:100000", "apq", "apollotracing", "ftv1"], FTV1),
    # user code: a response extension encoding/json cannot marshal (NaN) - the transport must still end the request
    ("unserializable-extension", ["unserializable"], {}),
]
# queries over the positions where a list element can be null / fail without any field of it having run
FAULT_QUERIES = [
    "{ ts { nid y } us { __typename ... on T { nid } } }",
    "{ t { kidsNN { nid s } kidsNNNN { y } matrix { nid } nodes { nid } } }",
    "{ ts { nid kidsNN { nid kidsNN { y } } } tNN { s } }",
    "{ ts { nid ... @defer(label: \"k\") { kidsNN { nid y } s } } t { nid ... @defer { kidsNN { y } } } }",
    "{ p { t { kidsNN { nid } } friends { name } } named { name } us { ... on P { nameNN } ... on R { ok } } }",
]


def result_lines(so):
    """the runner's result lines; the federated tracer prints to the process's stdout when marshalling its trace
    fails (fmt.Print in InterceptResponse): such text precedes a result line and is cut off"""
    out = []
    for x in so.split("\n"):
        k = x.find('{"id":')
        if k >= 0:
            out.append(x[k:])
    return out


def corpus(name):
    return json.load(open(os.path.join(vf.VERIF, "corpus", "C05", name)))


def fault_ops(ctx):
    """directed operations (corpus/C05/fault_ops.json) + generated ones: fault rates (errors, nil results, NULL LIST
    ELEMENTS, panics) over queries rich in non-null lists, seeds derived from the run's seed"""
    ops = [(o["id"], o["query"], o["plan"]) for o in corpus("fault_ops.json")]
    n = 2 if ctx.tier == "quick" else 8
    for qi, q in enumerate(FAULT_QUERIES):
        for k in range(n):
            sd = ctx.seed * 1000 + qi * 50 + k
            rates = {"err": 120, "nil": 60, "elemNil": [350, 150, 600][k % 3], "panic": [0, 40][k % 2], "maxLen": 4,
                     "delay": 300, "maxDelay": 1500}
            ops.append(("gen-faults-%d-%d" % (qi, sd), q, {"seed": sd, "rates": rates}))
    return ops


def with_ext(case, ext, query):
    name, shipped, headers = ext
    case["shipped"] = shipped
    if headers:
        case["headers"] = headers
    if "apq" in shipped:
        # a persisted-query registration (hash + text); every third one only names the hash (refused: not found)
        h = hashlib.sha256(query.encode()).hexdigest()
        case["extensions"] = {"persistedQuery": {"version": 1, "sha256Hash": h}}
        if int(h[:4], 16) % 3 == 0:
            case["query"] = ""
    return case


def ext_run_cases(ctx, ops):
    """executor level: every fault operation x every extension set x {drained, single payload} (+ a cancellation)"""
    cases = []
    for i, q, p in ops:
        for ext in EXT_SETS:
            for mp in (0, 1):
                if mp == 1 and "@defer" not in q:
                    continue
                cases.append(with_ext({"id": "%s+%s/%d" % (i, ext[0], mp), "query": q, "plan": p, "maxPayloads": mp,
                                       "timeoutMs": 1500, "leakCheck": True}, ext, q))
            if ext[0] in ("ftv1", "everything"):
                cases.append(with_ext({"id": "%s+%s@2" % (i, ext[0]), "query": q, "plan": p, "cancelAt": 2,
                                       "timeoutMs": 1500, "leakCheck": True}, ext, q))
    return cases


def ext_http_cases(ctx, ops, rnd):
    """every transport: each fault operation with the federated tracer, and with one more extension set (rotating)"""
    hcases = []
    for k, (i, q, p) in enumerate(ops):
        exts = [EXT_SETS[0], EXT_SETS[1 + (k + ctx.seed) % (len(EXT_SETS) - 1)]]
        if ctx.tier != "quick":
            exts = EXT_SETS
        elif "@defer" in q and EXT_SETS[-1] not in exts:
            exts = exts + [EXT_SETS[-1]]        # streamed payloads x a response that cannot be serialized: always
        for ext in exts:
            for tr in ("post", "get", "sse", "multipart", "ws", "gqlws"):
                c = {"id": "%s+%s/%s" % (i, ext[0], tr), "query": q, "plan": p, "transport": tr, "timeoutMs": 3000}
                if tr == "gqlws":
                    c["transport"], c["subproto"] = "ws", "graphql-ws"
                if tr == "sse":
                    c["keepAliveUs"] = 1500
                v = rnd.randrange(4)
                if ext[0] == "unserializable-extension":
                    v = 0       # run to the end: what matters is who writes the payload that cannot be written
                if v == 1 and tr in ("post", "get", "sse", "multipart"):
                    c["id"] += "/drop"
                    c["disconnectAfter"] = 20
                elif v == 2:
                    c["id"] += "/cancel"
                    c["cancelAt"] = 2
                elif v == 3 and c["transport"] == "ws":
                    c["id"] += "/drop"
                    c["clientEnds"], c["afterNext"] = "drop", 1
                hcases.append(with_ext(c, ext, q))
    return hcases


# ------------------------------------------------------------------ round 6: websocket options x clients
WS_SERVERS = [
    # (name, options, subprotocols they act on)
    ("plain", {}, ("", "graphql-ws")),
    ("init-timeout", {"initTimeoutMs": 40}, ("", "graphql-ws")),
    ("init-timeout+funcs", {"initTimeoutMs": 40, "funcs": True}, ("", "graphql-ws")),
    ("init-timeout+ping-pong", {"initTimeoutMs": 40, "pingPongMs": 20}, ("",)),
    ("ping-pong", {"pingPongMs": 20}, ("",)),
    ("ping-pong-missing-pong-ok", {"pingPongMs": 20, "missingPongOk": True}, ("",)),
    ("pong-only", {"pongOnlyMs": 15}, ("",)),
    ("keep-alive", {"keepAliveMs": 15}, ("graphql-ws",)),
    ("init-timeout+keep-alive", {"initTimeoutMs": 40, "keepAliveMs": 15}, ("graphql-ws",)),
]
WS_INITFUNCS = [{}, {"initFunc": "derived"}, {"initFunc": "detached"}, {"initFunc": "error"},
                {"initFunc": "slow", "initFuncMs": 30}, {"initFunc": "payload"}, {"initFunc": "deadline", "initFuncMs": 50}]
# clients that never get as far as an acknowledged connection
WS_CLIENT_INITS = [
    ("never", {"clientInit": "never"}),
    ("late", {"clientInit": "late", "initDelayMs": 100}),
    ("just-in-time", {"clientInit": "late", "initDelayMs": 10}),
    ("vanishes-at-once", {"clientInit": "drop"}),
    ("vanishes-at-timeout", {"clientInit": "drop", "initDelayMs": 40}),
    ("closes", {"clientInit": "close", "initDelayMs": 5}),
    ("garbage", {"clientInit": "garbage"}),
    ("other-frame", {"clientInit": "other"}),
]
# clients that stop cooperating later
WS_CLIENT_STOPS = [("cooperates", {"idleMs": 60})] + [
    ("%s-%s" % (at, how), {"stopAt": at, "stopHow": how, "silentMs": 120})
    for at in ("acked", "subscribed", "next", "completed") for how in ("silent", "drop", "close")]
WS_SLOW = {"delay": 700, "maxDelay": 25000}   # resolvers slow enough for an operation to be in flight


def ws_case(cid, op, wsx, subproto, slow):
    i, q, p = op
    if slow:
        p = dict(p, rates=dict(p.get("rates", {}), **WS_SLOW))
    c = {"id": cid, "query": q, "plan": p, "transport": "ws", "timeoutMs": 3000, "wsx": wsx}
    if subproto:
        c["subproto"] = subproto
    return c


def ws_init_cases(ctx, ops):
    """every option set x every client that fails to initialise (the operation is never started)"""
    out = []
    for sname, sopt, subs in WS_SERVERS:
        for sub in subs:
            for cname, copt in WS_CLIENT_INITS:
                out.append(ws_case("wsx/%s/%s/%s" % (sname, sub or "transport-ws", cname), ops[0], dict(sopt, **copt), sub, False))
    return out


def ws_session_cases(ctx, ops, rnd, n):
    """option set x InitFunc x client that stops at a later stage x answers pings or not x operation: the directed
    sessions of corpus/C05/ws_sessions.json and a seeded sample of n from the product (thorough, base config: the whole product)"""
    out = []
    for k, d in enumerate(corpus("ws_sessions.json")):
        out.append(ws_case("wsx/directed/" + d["id"], ops[k % len(ops)], d["wsx"], d.get("subproto", ""), d.get("slow", False)))
    prod = [(s, sub, f, c, np) for s in WS_SERVERS for sub in s[2] for f in WS_INITFUNCS for c in WS_CLIENT_STOPS
            for np in ((False, True) if "pingPongMs" in s[1] else (False,))]
    rnd.shuffle(prod)
    for (sname, sopt, _), sub, f, (cname, copt), np in prod[:n]:
        wsx = dict(sopt, **f)
        wsx.update(copt)
        if np:
            wsx["noPong"] = True
        op = ops[rnd.randrange(len(ops))]
        out.append(ws_case("wsx/%s/%s/%s/%s%s/%s" % (sname, sub or "transport-ws", f.get("initFunc", "no-init-func"), cname,
                                                       "/no-pong" if np else "", op[0]), op, wsx, sub, rnd.randrange(2) == 0))
    return out


def run(ctx):
    if getattr(ctx, "replay", None):
        from checks import execreplay
        if execreplay.replay(ctx, "C05"):
            return
    ctx.assumptions += [
        "wall-clock bounds and real goroutine liveness are not expressible in the model: they are observed (time-boxed runs; goroutine dumps filtered to gqlgen/generated frames after the request ended and its context was cancelled)",
        "resolvers return promptly when their context is cancelled (the universal resolver's sleeps select on ctx.Done)",
        "sync.WaitGroup, semaphore.Weighted, channels and context are modelled by the transition systems of Model/Join.lean, not verified",
        "websocket: operations (queries, @defer queries, mutations) run as graphql-transport-ws `subscribe` payloads over a real connection incl. client complete / abrupt disconnect / cancellation; event-stream subscriptions and the protocol itself are C11's",
        "hand-written locks and channel sends of graphql/** are modelled as control-flow skeletons (Model/SyncProg.lean, regenerated by go/extract/syncfacts.go): calls, panics between Lock and Unlock, and mutexes reached through two different expressions are not followed; a loop is taken to preserve the lock state (checked) and to contain no bare send",
        "shipped extensions: apollofederatedtracingv1.Tracer (three error options, with and without its header), apollotracing.Tracer, extension.Introspection, FixedComplexityLimit, AutomaticPersistedQuery over a fresh in-memory cache; what they add to the response (trace content) is not judged, only that the operation ends and leaves nothing running",
    ]
    cfgs = ["base", "wl1", "wl2", "wl8", "follow_funcsyn_wl2"]
    built = gensrv.build_matrix(ctx, "exec", cfgs)
    ok_extract = not isinstance(built["wl2"], Exception) and ctx.extract("JoinFacts", arg=gensrv.gen_dir("exec", "wl2")) \
        and ctx.extract("SyncFacts")
    proved = ok_extract and ctx.prove(props=["GqlgenVerif.Props.C05", "GqlgenVerif.Props.C05Gen", "GqlgenVerif.Props.C05Sync"])
    sync_report = ""
    if ok_extract and not proved:
        ctx.cov["proof_failure"] = ctx.proof_failure
        # which regenerated synchronisation skeleton broke its invariant (names the function)
        try:
            sync_report = (ctx.driver("c05", ["sync"]) or [""])[0]
        except Exception as ex:  # the driver does not build either
            sync_report = "driver: %r" % (ex,)
        ctx.cov["sync_report"] = sync_report
    fops = fault_ops(ctx)
    dist = Counter()
    total = 0
    nontriv = set()
    bad = []
    samples = []
    ops = OPS if ctx.tier == "quick" else OPS + [(i + "-s%d" % k, q, dict(p, seed=p["seed"] * 100 + k)) for (i, q, p) in OPS for k in range(4)]
    for cfg in cfgs:
        b = built[cfg]
        if isinstance(b, Exception):
            ctx.violation({"kind": "generated-server-does-not-build", "config": cfg, "detail": str(b)[-3000:],
                           "shape": {"config": cfg, "build": "fail"}})
            continue
        # 1. how long is each operation (logical clock) when nothing is cancelled
        base_cases = [json.dumps({"id": i, "query": q, "plan": p, "timeoutMs": 4000, "leakCheck": True}) for i, q, p in ops]
        rc, so, se = vf.sh([b, "-mode", "run", "-maxhung", "3"], inp="\n".join(base_cases) + "\n", timeout=600)
        if rc != 0:
            raise RuntimeError("runner failed: " + se[-2000:])
        clocks = {}
        for l in so.split("\n"):
            if l:
                r = json.loads(l)
                clocks[r["id"]] = max([i["end"] for i in r["log"]] + [1])
        for i, q, p in ops:
            clocks.setdefault(i, 8)
        # 2. every cancellation point x {drain all payloads, single payload}
        cases = []
        for i, q, p in ops:
            pts = range(1, clocks[i] + 2) if ctx.tier != "quick" else range(1, clocks[i] + 2, max(1, clocks[i] // 12))
            for at in pts:
                for mp in (0, 1):
                    cases.append({"id": "%s@%d/%d" % (i, at, mp), "query": q, "plan": p, "cancelAt": at,
                                  "maxPayloads": mp, "timeoutMs": 1500, "leakCheck": True})
            for mp in (0, 1):
                cases.append({"id": "%s@never/%d" % (i, mp), "query": q, "plan": p, "maxPayloads": mp,
                              "timeoutMs": 3000, "leakCheck": True})
        rc, so, se = vf.sh([b, "-mode", "run", "-maxhung", "3"], inp="\n".join(json.dumps(c) for c in cases) + "\n", timeout=2400)
        if rc != 0:
            raise RuntimeError("runner failed: " + se[-2000:])
        # 2b. the fault operations under every set of shipped extensions (quick: half of them on the other configs)
        xcases = ext_run_cases(ctx, fops if ctx.tier != "quick" or cfg in ("base", "wl2") else fops[:len(fops) // 2 + 1])
        rc, so2, se = vf.sh([b, "-mode", "run", "-maxhung", "3"], inp="\n".join(json.dumps(c) for c in xcases) + "\n", timeout=2400)
        if rc != 0:
            raise RuntimeError("runner failed: " + se[-2000:])
        answered = list(zip(cases, result_lines(so))) + list(zip(xcases, result_lines(so2)))
        for c, l in answered:
            r = json.loads(l)
            total += 1
            tag = "cancelled" if r.get("cancelled") else "not-cancelled"
            if c.get("shipped"):
                dist["ext:" + c["id"].split("+")[-1].split("/")[0].split("@")[0] + (":refused" if r.get("gateErrors") else "")] += 1
                errs = [e for p_ in r["payloads"] for e in p_["errors"]]
                if len(errs) >= 2 and any(e["path"].split("/")[-1].isdigit() for e in errs):
                    dist["ext:error-at-a-list-element-and-another-error"] += 1
            else:
                dist[cfg + ":" + tag] += 1
            if c.get("maxPayloads") == 1 and "@defer" in c["query"]:
                dist["single-payload-with-defer"] += 1
            nontriv.add(c["id"] + cfg)
            why = []
            if r.get("hung"):
                why.append("response-function-did-not-return")
            if r.get("leaked"):
                why.append("goroutines-alive-after-cancel")
            if r.get("crash"):
                # a panic that escapes the response function ends it (C04's subject, not a hang or a leak):
                # seen only in the ghost case, where gqlgen's own `ret = nil` in a list-element recover races
                # with the other elements (a value of an unregistered Go type is outside C04's statement)
                dist["response-function-panicked"] += 1
            if why:
                bad.append((cfg, c, r, why))
            elif len(samples) < 3 and r.get("cancelled") and len(r["log"]) > 3:
                samples.append({"config": cfg, "case": c["id"], "query": c["query"], "invocations": len(r["log"]),
                                "payloads": len(r["payloads"]), "errors": [e["message"] for p in r["payloads"] for e in p["errors"]][:4]})
        # 3. the same operations over real HTTP transports (single-response and streaming), with client disconnects
        hcases = []
        for i, q, p in ops[:6]:
            if q.startswith("mutation"):
                trs = ["post"]
            else:
                trs = ["post", "get", "sse", "multipart"]
            for tr in trs:
                hcases.append({"id": "%s/%s" % (i, tr), "query": q, "plan": p, "transport": tr, "timeoutMs": 4000})
                hcases.append({"id": "%s/%s/drop" % (i, tr), "query": q, "plan": p, "transport": tr,
                               "timeoutMs": 4000, "disconnectAfter": 20})
                hcases.append({"id": "%s/%s/cancel" % (i, tr), "query": q, "plan": p, "transport": tr,
                               "timeoutMs": 4000, "cancelAt": 4})
            # websocket: run to completion; client completes / drops the connection after the first payload; cancel
            hcases.append({"id": "%s/ws" % i, "query": q, "plan": p, "transport": "ws", "timeoutMs": 4000})
            hcases.append({"id": "%s/ws/complete" % i, "query": q, "plan": p, "transport": "ws", "timeoutMs": 4000,
                           "clientEnds": "complete", "afterNext": 1})
            hcases.append({"id": "%s/ws/drop" % i, "query": q, "plan": p, "transport": "ws", "timeoutMs": 4000,
                           "clientEnds": "drop", "afterNext": 1})
            hcases.append({"id": "%s/ws/cancel" % i, "query": q, "plan": p, "transport": "ws", "timeoutMs": 4000, "cancelAt": 4})
            # the server closes the connection itself while the operation runs: a second operation under the running id
            # (4409), connection_terminate (legacy subprotocol); and the legacy subprotocol's ordinary paths
            hcases.append({"id": "%s/ws/dupid" % i, "query": q, "plan": p, "transport": "ws", "timeoutMs": 4000, "clientEnds": "dupid"})
            hcases.append({"id": "%s/ws/dupid-after-next" % i, "query": q, "plan": p, "transport": "ws", "timeoutMs": 4000, "clientEnds": "dupid", "afterNext": 1})
            hcases.append({"id": "%s/gqlws" % i, "query": q, "plan": p, "transport": "ws", "timeoutMs": 4000, "subproto": "graphql-ws"})
            hcases.append({"id": "%s/gqlws/terminate" % i, "query": q, "plan": p, "transport": "ws", "timeoutMs": 4000, "subproto": "graphql-ws", "clientEnds": "terminate"})
            hcases.append({"id": "%s/gqlws/dupid" % i, "query": q, "plan": p, "transport": "ws", "timeoutMs": 4000, "subproto": "graphql-ws", "clientEnds": "dupid"})
            hcases.append({"id": "%s/gqlws/stop" % i, "query": q, "plan": p, "transport": "ws", "timeoutMs": 4000, "subproto": "graphql-ws", "clientEnds": "complete", "afterNext": 1})
            # a server whose InitFunc builds the connection's context itself (not derived from the request's)
            hcases.append({"id": "%s/ws/detached-init/drop" % i, "query": q, "plan": p, "transport": "ws", "timeoutMs": 4000,
                           "clientEnds": "drop", "afterNext": 1, "detachedInit": True})
            hcases.append({"id": "%s/ws/detached-init" % i, "query": q, "plan": p, "transport": "ws", "timeoutMs": 4000, "detachedInit": True})
        # SSE with keep-alive pings (their goroutine must end with the request)
        for i, q, p in ops[:4]:
            if q.startswith("mutation"):
                continue
            for extra, tag in (({}, ""), ({"disconnectAfter": 20}, "/drop"), ({"cancelAt": 4}, "/cancel")):
                c = {"id": "%s/sse-keepalive%s" % (i, tag), "query": q, "plan": p, "transport": "sse", "timeoutMs": 4000, "keepAliveUs": 1500}
                c.update(extra)
                hcases.append(c)
        # requests that are REFUSED before anything executes (parse error, validation error, unknown operation name):
        # whatever the transport started on their behalf must be gone as well
        plan0 = {"seed": ctx.seed, "rates": {}}
        for name, rq, opn in (("validation", "{ nope }", ""), ("parse", "{ i ", ""), ("unknown-operation", "query A { i }", "B")):
            for tr in ("post", "get", "sse", "multipart", "ws"):
                c = {"id": "refused-%s/%s" % (name, tr), "query": rq, "operationName": opn, "plan": plan0, "transport": tr, "timeoutMs": 4000}
                if tr == "sse":
                    c["keepAliveUs"] = 1500
                hcases.append(c)
        rc, so, se = vf.sh([b, "-mode", "http", "-maxhung", "3"], inp="\n".join(json.dumps(c) for c in hcases) + "\n", timeout=1200)
        if rc != 0:
            raise RuntimeError("http runner failed: " + se[-2000:])
        answered = list(zip(hcases, result_lines(so)))
        # 3b. the fault operations with shipped extensions installed, over every transport
        # 3c. the websocket transport's options x clients that stay silent / answer late / vanish at every stage
        rnd = random.Random(ctx.seed * 7919 + cfgs.index(cfg))
        xh = ext_http_cases(ctx, fops if ctx.tier != "quick" or cfg in ("base", "wl2") else fops[:len(fops) // 2 + 1], rnd)
        wsops = [o for o in ops[:6] if not o[1].startswith("mutation")] + fops[:3]
        ws = ws_session_cases(ctx, wsops, rnd, (60 if cfg == "base" else 25) if ctx.tier == "quick" else (2000 if cfg == "base" else 300))
        if ctx.tier != "quick" or cfg == "base":
            ws = ws_init_cases(ctx, wsops) + ws
        for extra in (xh, ws):
            rc, so, se = vf.sh([b, "-mode", "http", "-maxhung", "3"], inp="\n".join(json.dumps(c) for c in extra) + "\n", timeout=2400)
            if rc != 0:
                # net/http logs one "superfluous response.WriteHeader" line per contained serialization panic: not the reason
                why = [x for x in se.split("\n") if x.strip() and "superfluous response.WriteHeader" not in x]
                done_n = len(result_lines(so))
                if any(x.startswith("panic:") or x.startswith("fatal error:") for x in why) and done_n < len(extra):
                    # the PROCESS died (a panic on a goroutine nothing recovers): the operation being served is the failing input
                    k0 = next(i for i, x in enumerate(why) if x.startswith("panic:") or x.startswith("fatal error:"))
                    ctx.violation({"kind": "process-crash", "config": cfg, "case": extra[done_n], "stderr": "\n".join(why[k0:k0 + 14])[:3000],
                                   "shape": {"crash": True, "transport": extra[done_n].get("transport"), "goroutine": next((x.strip().split(" in goroutine")[0] for x in why[k0:] if x.startswith("created by")), "")[:120]},
                                   "replay": "echo '<case json>' | <generated server %s> -mode http   (the process exits with the panic)" % cfg})
                    answered += list(zip(extra, result_lines(so)))
                    continue
                raise RuntimeError("http runner failed rc=%s after %d result lines: %s" % (rc, done_n, "\n".join(why)[-2000:]))
            answered += list(zip(extra, result_lines(so)))
        for c, l in answered:
            r = json.loads(l)
            total += 1
            if c.get("wsx"):
                x = c["wsx"]
                dist["wsx:options:" + ("+".join(k for k in ("initTimeoutMs", "pingPongMs", "missingPongOk", "pongOnlyMs", "keepAliveMs", "funcs") if x.get(k)) or "none")] += 1
                dist["wsx:client:" + (x.get("clientInit") and "init-" + x["clientInit"] or (x.get("stopAt") and x["stopAt"] + "-" + x["stopHow"]) or "cooperates") + ("/no-pong" if x.get("noPong") else "")] += 1
                if x.get("initFunc"):
                    dist["wsx:initFunc:" + x["initFunc"]] += 1
                if x.get("initTimeoutMs") and x.get("clientInit") in ("never", "late") and "initialisation timeout" in (r.get("body") or ""):
                    dist["wsx:init-timeout-won"] += 1
            elif c.get("shipped"):
                dist["http-ext:" + c["id"].split("+")[-1].split("/")[0] + ":" + c["transport"]] += 1
            dist["http:" + c["transport"] + (":refused" if c["id"].startswith("refused-") else "") + (":keepalive" if c.get("keepAliveUs") else "") + (":" + c["subproto"] if c.get("subproto") else "") + (":server-closes:" + c["clientEnds"] if c.get("clientEnds") in ("dupid", "terminate") else
                                             ":drop" if c.get("disconnectAfter") or c.get("clientEnds") == "drop" else
                                             ":client-complete" if c.get("clientEnds") else ":cancel" if c.get("cancelAt") else "")] += 1
            nontriv.add(c["id"] + cfg)
            why = []
            if r.get("hung"):
                why.append("http-response-did-not-end")
            if r.get("leaked"):
                why.append("goroutines-alive-after-request")
            if why:
                bad.append((cfg, c, r, why))
    for cfg, c, r, why in bad:
        if len(ctx.violations) >= 20:
            break
        ctx.violation({"kind": "observation", "config": cfg, "why": why, "case": c,
                       "leaked": r.get("leaked"), "hung": r.get("hung"), "session": r.get("body") if c.get("wsx") else None,
                       "regenerated_sync_facts": sync_report or "Props/C05Sync holds",
                       "shape": {"why": ",".join(why), "transport": c.get("transport", "executor"),
                                 "single_payload": c.get("maxPayloads") == 1,
                                 "shipped": ",".join(c.get("shipped", [])),
                                 "ws_options": ",".join(sorted("%s=%s" % kv for kv in c.get("wsx", {}).items()))},
                       "replay": "echo '<case json>' | <generated server %s> -mode %s" % (cfg, "http" if c.get("transport") else "run")})
    if ok_extract and not proved and not ctx.violations:
        ctx.violation({"kind": "proof", "failing": ctx.proof_failure, "sync_report": sync_report}, no_failing_input=True)
    ctx.cov.update({
        "evaluations": total,
        "distinct_nontrivial": len(nontriv),
        "rule": "operations with list fan-out, nested lists, unions, @defer (nested, in lists) and mutations x worker_limit 0/1/2/8 x every cancellation point of the logical clock (before/after each user-code invocation; quick tier: every ~12th) x {response function drained, called once as single-response transports do}; plus the same operations over real POST/GET/SSE/multipart connections and as graphql-transport-ws operations over a real websocket, incl. client disconnect, client complete and mid-flight cancellation; the fault operations (corpus/C05/fault_ops.json + seeded: errors, nil results, null elements of non-null lists, panics in elements, in initial and deferred payloads) under every set of gqlgen's shipped extensions, at executor level and over every transport; websocket sessions = transport options (InitTimeout, PingPongInterval with/without MissingPongOk, PongOnlyInterval, KeepAlivePingInterval, ErrorFunc/CloseFunc, seven InitFunc behaviours) x both subprotocols x clients that never / late / wrongly initialise or go silent / vanish / close at each later stage, answering pings or not (corpus/C05/ws_sessions.json + the whole init-stage matrix + a seeded sample of the rest); observation = response function / HTTP response / session ended within the time box, and no goroutine with gqlgen or generated frames alive 400-500ms after the request ended",
        "input_distribution": dict(dist),
        "observed_failures": len(bad),
        "samples": samples,
    })
