"""--replay for the execution-model checks (C01, C04, C06, C13, C05): re-run the recorded case on a server
generated from /repo's CURRENT tree and decide it again."""
import json

from lib import vf, gensrv, defermerge


def replay(ctx, prop):
    d = json.load(open(ctx.replay))
    cfg = d.get("config") or "base"
    if cfg not in gensrv.CONFIGS:
        cfg = "base"
    if d.get("kind") in ("proof", "broken-tie", "check-error", "generated-server-does-not-build"):
        return False          # nothing case-specific to replay: the caller runs the whole check
    b = gensrv.build_matrix(ctx, "exec", [cfg], race=(prop == "C06"))[cfg]
    if isinstance(b, Exception):
        ctx.violation({"kind": "generated-server-does-not-build", "config": cfg, "detail": str(b)[-2000:]}, no_failing_input=True)
        return True
    case = d.get("case") or {"id": "replay", "query": d["query"], "variables": d.get("variables"),
                             "plan": d.get("plan") or {"seed": 1, "rates": {}}}
    if isinstance(case.get("plan"), str):
        case["plan"] = json.loads(case["plan"])
    mode = "http" if case.get("transport") else "run"
    rc, so, se = vf.sh([b, "-mode", mode], inp=json.dumps(case) + "\n", timeout=300)
    line = [l for l in so.split("\n") if l]
    if rc != 0 or not line:
        ctx.violation({"kind": "crash", "config": cfg, "stderr": se[-3000:], "case": case, "shape": {"crash": True}})
        return True
    r = json.loads(line[0])
    ctx.cov.update({"evaluations": 1, "distinct_nontrivial": 2, "rule": "replay of one recorded case",
                    "samples": [{"case": case, "result_payloads": r.get("payloads")}]})
    if prop == "C05":
        why = [w for w, f in (("hung", r.get("hung")), ("goroutines-alive", r.get("leaked"))) if f]
        if why:
            ctx.violation({"kind": "observation", "config": cfg, "why": why, "case": case, "leaked": r.get("leaked"),
                           "shape": {"why": ",".join(why)}})
        return True
    from checks import c01
    schema = c01.schema_of(b)
    ctx.prove(props=["GqlgenVerif.Props." + prop])
    if prop == "C13":
        q = case["query"]
        import re
        op = q.index("{")
        pc = dict(case, id="plain", query=q[:op] + re.sub(r"\s*@defer(\([^)]*\))?", "", q[op:]))
        rc, so2, se = vf.sh([b, "-mode", "run"], inp=json.dumps(pc) + "\n", timeout=300)
        pr = json.loads([l for l in so2.split("\n") if l][0])
        bad = defermerge.check(r["payloads"], pr["payloads"]) if not pr.get("gateErrors") else []
        if bad:
            ctx.violation({"kind": "spec-violation", "config": cfg, "spec_clauses": bad, "query": q, "plan": case.get("plan"),
                           "impl": r["payloads"], "plain": pr["payloads"],
                           "shape": {"clauses": ",".join(sorted(set(x.split(":")[0] for x in bad)))}})
        return True
    m = ctx.driver(prop.lower(), [schema, line[0]])[0]
    why = []
    if r.get("crash") or r.get("hung"):
        why.append("crash-or-hung")
    if m.startswith("{") and r["payloads"]:
        mj = json.loads(m)
        p = r["payloads"][0]
        if mj["data"] != c01.rawdata(line[0]):
            why.append("data")
        if mj["errors"] != sorted(e["path"] + " :: " + e["message"] for e in p["errors"]):
            why.append("errors")
        if mj["invs"] != sorted(i["path"] + " " + i["hook"] for i in r["log"]):
            why.append("invocations")
        if mj["recovers"] != r["recovers"]:
            why.append("recovers")
        if mj.get("spec") not in (None, "agree"):
            why.append("spec:" + mj["spec"])
        shape = {"why": ",".join(sorted(w.split(":")[0] for w in why))}
        if any(w.startswith("spec:") for w in why):
            shape = {"spec_disagrees": True, "duplicate_keys": not mj.get("wf"),
                     "dups_only_under_unrelated_type_conditions": bool(mj.get("dupsUnrelated")) and not mj.get("wf"),
                     "corresponds_to_impl_model": all(w.startswith("spec:") for w in why)}
        if why:
            ctx.violation({"kind": "replay", "config": cfg, "why": why, "query": case["query"], "variables": case.get("variables"),
                           "plan": case.get("plan"), "impl": r["payloads"], "model": mj, "shape": shape})
    elif why:
        ctx.violation({"kind": "replay", "config": cfg, "why": why, "case": case, "shape": {"why": ",".join(why)}})
    return True
