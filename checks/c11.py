"""C11 - websocket sessions follow the subscription protocol for every message sequence.

extract (Gen/WsTables.lean, Gen/WsCtx.lean) -> prove (Props/C11.lean over Model/Ws.lean) -> run scripted conversations against
the real transport (go/harness/c11) -> trace membership in the model (lean/Driver/C11.lean) -> decide.
"""
import os
import re
from collections import Counter
from lib import vf

RETRY_Q = [40, 300]     # settle periods (ms) for re-running scripts whose first observation was not a member


class HarnessCrash(RuntimeError):
    def __init__(self, rc, log, progress=None):
        RuntimeError.__init__(self, "harness c11 failed rc=%s: %s" % (rc, log[-3000:]))
        self.rc, self.log, self.progress = rc, log, progress


def _panic_head(log):
    """the panic message and the first goroutine of a Go crash log"""
    i = log.find("panic: ")
    if i < 0:
        i = log.find("fatal error: ")
    if i < 0:
        return log[-1500:]
    return "\n".join(log[i:].split("\n\n")[:2])[:2500]


def _attribute_crash(ctx, hc):
    """The harness process died (an unrecovered panic in a goroutine of the transport takes the whole server
    down - e.g. gorilla's 'concurrent write to websocket connection').  Find a script that does it: the scripts
    in flight at the crash are re-run on their own, many times, in separate processes."""
    head = _panic_head(hc.log)
    rep = {"kind": "crash", "what": "the process serving the websocket connections died while these conversations ran (unrecovered panic in a transport goroutine)",
           "panic": head, "shape": {"spec": "violates:server-process-crashed", "panic": head.split("\n")[0][:120]},
           "replay": "/verif/.cache/h_c11 -tier %s -seed %s" % (ctx.tier, ctx.seed)}
    try:
        bin_ = os.path.join(vf.CACHE, "h_c11")
        rc, so, _ = vf.sh([bin_, "-list", "-tier", ctx.tier, "-seed", str(ctx.seed)], cwd=vf.GO, env=vf.go_env(), timeout=300)
        scripts = [l for l in so.split("\n") if l]
        begun, ended = [], set()
        for l in open(hc.progress).read().split("\n"):
            t = l.split(" ")
            if len(t) == 2 and t[1].isdigit():
                (begun.append(int(t[1])) if t[0] == "B" else ended.add(int(t[1])))
        cand = [scripts[i] for i in begun if i not in ended and i < len(scripts)]
        cand = sorted(set(cand), key=len)[:32]
        rep["in_flight"] = cand

        def once(sc):
            r, o, e = vf.sh([bin_, "-stdin", "-q", "5", "-par", "4", "-leakcheck=false"], cwd=vf.GO, env=vf.go_env(),
                            inp="\n".join([sc] * 160) + "\n", timeout=600)
            return sc, r, e
        from concurrent.futures import ThreadPoolExecutor
        with ThreadPoolExecutor(max_workers=8) as ex:
            res = list(ex.map(once, cand))
        hits = [(sc, e) for sc, r, e in res if r != 0 and ("panic: " in e or "fatal error: " in e)]
        same = [h for h in hits if _panic_head(h[1]).split("\n")[0] == head.split("\n")[0]]
        if same or hits:
            sc, e = (same or hits)[0]
            rep.update({"script": sc, "panic": _panic_head(e), "reproduced": "the script alone, repeated 160 times in a fresh process (4 at a time), crashes the process again",
                        "replay": "yes '%s' | head -160 | /verif/.cache/h_c11 -stdin -q 5 -par 4" % sc})
    except Exception as x:      # attribution is best effort; the crash itself is reported regardless
        rep["attribution_error"] = repr(x)
    return rep


def _attribute_leak(ctx):
    """goroutines of the transport were left after every session had been wound down: bisect the generated
    scripts (each half in a fresh process) down to one conversation that leaves some behind on its own."""
    bin_ = os.path.join(vf.CACHE, "h_c11")
    rc, so, _ = vf.sh([bin_, "-list", "-tier", ctx.tier, "-seed", str(ctx.seed)], cwd=vf.GO, env=vf.go_env(), timeout=300)
    scripts = [l for l in so.split("\n") if l]
    for _ in range(20):
        if len(scripts) <= 1:
            break
        half = scripts[:len(scripts) // 2]
        _, lk = _run_harness(ctx, half)
        scripts = half if lk else scripts[len(scripts) // 2:]
    if len(scripts) == 1:
        rows, lk = _run_harness(ctx, scripts)
        if lk:
            return scripts[0], rows[0], lk
    return None


def _run_harness(ctx, scripts=None, q=5, race=False, extra=None):
    args = ["-tier", ctx.tier, "-seed", ctx.seed, "-q", q]
    if extra:
        args += extra
    if scripts is None:
        prog = os.path.join(vf.CACHE, "c11_progress_%s.txt" % os.getpid())
        rc, so, se = ctx.harness("c11", args + ["-progress", prog], race=race, timeout=2400)
        if rc != 0:
            raise HarnessCrash(rc, se or so, prog)
        try:
            os.remove(prog)
        except OSError:
            pass
        ctx.c11_leak_dump = "\n".join(l for l in (se or "").split("\n\n") if l.startswith("LEAKED "))[:6000]
    else:
        # re-run of selected scripts: feed them on stdin
        bin_ = os.path.join(vf.CACHE, "h_c11" + ("_race" if race else ""))
        e = vf.go_env()
        rc, so, se = vf.sh([bin_, "-stdin", "-q", str(q)] + (extra or []), cwd=vf.GO, env=e,
                           inp="\n".join(scripts) + "\n", timeout=1200)
    if rc != 0:
        raise RuntimeError("harness c11 failed rc=%s: %s" % (rc, (se or so)[-3000:]))
    lines = [l for l in so.split("\n") if l]
    leak = [l for l in lines if l.startswith("LEAK\t")]
    rows = [l for l in lines if not l.startswith("LEAK\t")]
    return rows, (int(leak[0].split("\t")[1]) if leak else 0)


def _membership(ctx, rows, workers=12):
    """trace membership of every observed conversation, several driver processes in parallel"""
    if len(rows) < 64:
        return ctx.driver("c11", rows)
    from concurrent.futures import ThreadPoolExecutor
    n = (len(rows) + workers - 1) // workers
    chunks = [rows[i:i + n] for i in range(0, len(rows), n)]
    with ThreadPoolExecutor(max_workers=workers) as ex:
        outs = list(ex.map(lambda c: ctx.driver("c11", c, timeout=900), chunks))
    res = []
    for c, o in zip(chunks, outs):
        if len(o) != len(c):
            raise RuntimeError("lean driver returned %d lines for %d inputs" % (len(o), len(c)))
        res += o
    return res


def _script_of(row):
    return row.split("\t")[0]


def _classes(row):
    """branch / shape classes of one observed conversation (for the input distribution)."""
    parts = row.split("\t")
    script, frames = parts[0], parts[1]
    cls = set()
    toks = script.split(" ")
    cls.add("proto:" + toks[0])
    for c in toks[1]:
        if c != "-":
            cls.add("cfg:" + c)
    if "~" in script:
        cls.add("race")
    if " error:" in frames:
        cls.add("error-frame")
    if ":P" in frames:
        cls.add("panic")
    if re.search(r":E\d", frames):
        cls.add("subscription-error")
    if "connection_error" in frames:
        cls.add("connection-error")
    for m in re.finditer(r"cf=(\d+)", parts[-2] if len(parts) > 3 else ""):
        cls.add("closed-mid:" + m.group(1))
    if "connection_ack" not in frames:
        cls.add("init-not-accepted")
    m = re.search(r"m:connection_init:-:(\w+):", script)
    if m:
        cls.add("init-payload:" + {"n": "absent", "nul": "null", "obj": "empty-object", "tok": "non-empty"}.get(m.group(1), m.group(1)))
        if m.group(1) in ("obj", "tok"):
            if re.search(r"m:(stop|complete):", script):
                cls.add("init-payload+stop")
            if re.search(r" (sc|a|z|g|m:connection_terminate:\S+)~?( |$)", script):
                cls.add("init-payload+close")
    if re.search(r"m:(stop|complete):", script):
        cls.add("stop")
    if re.search(r"m:(start|subscribe):[^:]+:(num|badq|pq|n|obj|rej):", script) and "connection_ack" in frames:
        cls.add("start-refused-before-execution")
    if re.search(r" (a|z)~?( |$)", script):
        cls.add("client-gone")
    if " sc" in script:
        cls.add("server-cancel")
    if " it" in script:
        cls.add("init-timeout")
    if " g" in script:
        cls.add("garbage")
    ids = re.findall(r"m:(?:start|subscribe):([^:]+):sub", script)
    if len(ids) != len(set(ids)):
        cls.add("id-reused-or-duplicate")
    if ":s " in script + " ":
        cls.add("resolver-event-skipped")
    return cls


def _shrink(ctx, script, want):
    """drop steps while the (re-run, patient) observation stays a non-member with the same verdict class."""
    toks = script.split(" ")
    head, steps = toks[:2], toks[2:]
    steps = [re.sub(r":[ds](~?)$", r"\1", s) if s.startswith("r:") else s for s in steps]
    tried = 0
    i = len(steps) - 1
    while i >= 0 and tried < 40:
        cand = steps[:i] + steps[i + 1:]
        if cand:
            tried += 1
            rows, _ = _run_harness(ctx, [" ".join(head + cand)], q=RETRY_Q[0], extra=["-leakcheck=false"])
            v = ctx.driver("c11", rows)[0]
            if v.startswith("nonmember") and _spec(v) == want:
                steps = cand
        i -= 1
    rows, _ = _run_harness(ctx, [" ".join(head + steps)], q=RETRY_Q[0], extra=["-leakcheck=false"])
    return rows[0], ctx.driver("c11", rows)[0]


def _spec(verdict):
    m = re.search(r"spec=(\S+)", verdict)
    s = m.group(1) if m else "?"
    return re.sub(r":id=.*$", "", s)


def run(ctx):
    ctx.assumptions += [
        "Go runtime, scheduler, sync.Mutex, context, time.Ticker, net/http hijacking and gorilla/websocket are modelled, not verified: goroutines are interleavings of the critical sections of websocket.go; a frame written after the close frame is never delivered (gorilla refuses writes after a close message)",
        "liveness (all connection goroutines end) is not a theorem: it is observed on the implementation (goroutine dump filtered to transport.(*wsConnection) frames after every session was wound down); only 'every thread finished => CloseFunc ran exactly once, nothing active' is proved",
        "data-race freedom is not a theorem (Go memory model); proved: every socket write site of websocket.go is inside c.mu (regenerated from source) and the model's steps are those critical sections; observed: -race build in the thorough tier",
        "the ping read-deadline (PingPongInterval without MissingPongOk) is wall-clock behaviour and only appears as a read error of the reader thread (`eof`) in the model",
        "gqlparser / executor (CreateOperationContext, DispatchOperation) are abstracted to the payload classes sub / badq / pq / num / none of the model; the controllable ExecutableSchema of the harness stands for generated resolver code",
    ]
    ok_extract = ctx.extract("WsTables", "WsCtx")
    proved = ok_extract and ctx.prove(props=["GqlgenVerif.Props.C11"])
    if ok_extract and not proved:
        ctx.cov["proof_failure"] = ctx.proof_failure

    # ---- implementation side: minimised past failures first, then the generated scripts
    import glob, json
    corpus = []
    for f in sorted(glob.glob(os.path.join(vf.VERIF, "corpus", "C11", "*.json"))):
        corpus.append(json.load(open(f))["script"])
    try:
        rows, leak = _run_harness(ctx)
    except HarnessCrash as hc:
        rep_ = _attribute_crash(ctx, hc)
        ctx.violation(rep_, no_failing_input="script" not in rep_)
        ctx.cov.update({"evaluations": 0, "harness_crashed": True})
        try:
            os.remove(hc.progress)
        except OSError:
            pass
        return
    if corpus:
        rows_c, _ = _run_harness(ctx, corpus, q=10, extra=["-leakcheck=false"])
        rows = rows_c + rows
    ctx.cov["corpus_scripts"] = len(corpus)
    n_total = len(rows)
    dist = Counter()
    nontrivial = set()
    for r in rows:
        cl = _classes(r)
        for c in cl:
            dist[c] += 1
        if cl - {"proto:gqlws", "proto:tws"}:
            nontrivial.add(_script_of(r))

    if not getattr(ctx, "driver_ok", False):
        # the model does not build against the regenerated tables: no membership decision possible
        ctx.violation({"kind": "proof", "failing": getattr(ctx, "proof_failure", None) or ["driver does not build"],
                       "detail": getattr(ctx, "driver_log", "")[-3000:]}, no_failing_input=True)
        ctx.cov.update({"evaluations": n_total, "distinct_nontrivial": len(nontrivial), "input_distribution": dict(dist)})
        return

    # ---- model side: trace membership
    verdicts = _membership(ctx, rows)
    bad = [(r, v) for r, v in zip(rows, verdicts) if not v.startswith("member")]
    first_pass_nonmembers = len(bad)
    retried = 0
    if len(bad) > 120:
        # hundreds of non-members are not a settle-heuristic hiccup: confirm on a sample only,
        # a few per verdict class, shortest scripts first
        per = Counter()
        sample = []
        for r, v in sorted(bad, key=lambda rv: len(_script_of(rv[0]))):
            k = _spec(v)
            if per[k] < 12:
                per[k] += 1
                sample.append((r, v))
        ctx.cov["nonmembers_sampled_for_confirmation"] = len(sample)
        bad = sample
    # the observation depends on the harness's settle heuristic: re-run non-members with more patience,
    # a real defect stays a non-member
    for q in RETRY_Q:
        if not bad:
            break
        scripts = []
        for r, _ in bad:
            toks = _script_of(r).split(" ")
            toks = [re.sub(r":[ds](~?)$", r"\1", t) if t.startswith("r:") else t for t in toks]
            scripts.append(" ".join(toks))
        retried += len(scripts)
        rows2, _ = _run_harness(ctx, scripts, q=q, extra=["-leakcheck=false", "-par", "8"])
        v2 = _membership(ctx, rows2)
        bad = [(r, v) for r, v in zip(rows2, v2) if not v.startswith("member")]

    spec_bad_members = [(r, v) for r, v in zip(rows, verdicts) if v.startswith("member") and "spec=ok" not in v]

    # ---- decide
    reported = Counter()
    for r, v in bad:
        spec = _spec(v)
        key = spec
        reported[key] += 1
        if reported[key] > 2:
            continue
        try:
            r_min, v_min = _shrink(ctx, _script_of(r), spec)
        except Exception:
            r_min, v_min = r, v
        if not v_min.startswith("nonmember"):
            r_min, v_min = r, v     # the shrunk script did not reproduce in its confirmation run: report the original
        failing = not v_min.endswith("spec=ok")
        parts = r_min.split("\t")
        rep = {
            "kind": "correspondence",
            "what": "the frames / resolver events / CloseFunc calls observed on the real transport for this script are not producible by the proved model (Ws.fire)",
            "script": parts[0], "observed": parts[1:], "driver": v_min, "original_script": _script_of(r),
            "shape": {"spec": _spec(v_min), "proto": parts[0].split(" ")[0]},
            "replay": "printf '%s\\n' | /verif/.cache/h_c11 -stdin -q 40   # then pipe the line to lean/.lake/build/bin/driver_c11" % parts[0],
        }
        ctx.violation(rep, no_failing_input=not failing)
    for r, v in spec_bad_members[:3]:
        # cannot happen while the theorems hold (a member trace satisfies the Spec); kept as a cross-check of the driver
        ctx.violation({"kind": "spec-on-member", "script": _script_of(r), "observed": r.split("\t")[1:], "driver": v,
                       "shape": {"spec": _spec(v)}, "replay": _script_of(r)})
    if leak:
        culprit = None
        try:
            culprit = _attribute_leak(ctx)
        except Exception:
            pass
        extra_ = {}
        if culprit:
            extra_ = {"script": culprit[0], "observed": culprit[1].split("\t")[1:], "frames_in_dump_for_this_script_alone": culprit[2]}
        ctx.violation({"kind": "liveness-observation", **extra_, "what": "transport goroutines still alive after every session was wound down",
                       "frames_in_dump": leak, "goroutines": getattr(ctx, "c11_leak_dump", ""), "shape": {"leak": True},
                       "replay": ("printf '%s\\n' | /verif/.cache/h_c11 -stdin | tail -1" % culprit[0]) if culprit else
                                 "/verif/.cache/h_c11 -tier %s -seed %s | tail -1" % (ctx.tier, ctx.seed)})

    if ctx.tier == "thorough":
        # data races / concurrent socket writes: observed only
        # (the quick script set: a -race binary is several times slower)
        bin_r = os.path.join(vf.CACHE, "h_c11_race")
        ctx.go_build("./harness/c11", bin_r, race=True)
        e = vf.go_env(); e["GOMEMLIMIT"] = "6GiB"
        rc, so, se = vf.sh([bin_r, "-tier", "quick", "-seed", str(ctx.seed), "-q", "15", "-par", "16"], cwd=vf.GO, env=e, timeout=2400)
        if rc != 0 or "DATA RACE" in se:
            ctx.violation({"kind": "race-observation", "what": "the -race build of the harness reported a data race or crashed (e.g. gorilla's concurrent-write panic)",
                           "detail": (se or so)[-3000:], "shape": {"race": True},
                           "replay": "cd /verif/go && go build -race -tags verif -o /tmp/h ./harness/c11 && /tmp/h -tier quick -seed %s" % ctx.seed})
        rows_r = [l for l in so.split("\n") if l and not l.startswith("LEAK\t")]
        vr = _membership(ctx, rows_r)
        ctx.cov["race_build_scripts"] = len(rows_r)
        ctx.cov["race_build_nonmembers_first_pass"] = sum(1 for v in vr if not v.startswith("member"))

    if not proved and ok_extract:
        if not any(not nf for _, nf in ctx.violations):
            ctx.violation({"kind": "proof", "failing": ctx.proof_failure}, no_failing_input=True)

    samples = [rows[i] for i in (0, len(rows) // 3, len(rows) // 2, len(rows) - 1)] if rows else []
    ctx.cov.update({
        "evaluations": n_total,
        "distinct_nontrivial": len(nontrivial),
        "rule": "one evaluation = one scripted conversation run against the real transport and decided for membership in the model. Scripts: every first message x {alone, +init+start, after server cancel}; all words up to length 4 (quick) / 5 (thorough) over {start1,start2,stop1,emit,end,panic,terminate,cancel} after init; all words up to length 2/3 over a 19-symbol alphabet after init+start; ~50 directed adversarial shapes x 6 configurations (duplicate ids, id reuse, stop racing completion, close during send, queued messages behind a closing one, stubborn resolvers, bursts without settling), the plain-init ones also with a non-empty init payload; the init dimension: connection_init payload {absent, null, {}, non-empty} x InitFunc result {same context, derived context + ack payload, detached context} x all words up to length 2 (3 in thorough for the plain InitFunc) over the ways an operation ends {stop, result, end, error, panic, terminate, server cancel, abrupt close, close frame, undecodable frame, duplicate id, stop of another id} followed by a requested result, the same with stubborn resolvers / racing steps, and two-operation shapes; seeded random conversations of length 4-20 (10% malformed stream). Non-trivial = anything but a plain init/start/emit/end conversation without race markers, errors, closes or special configuration",
        "input_distribution": dict(dist),
        "traces_validated_against_impl": n_total,
        "first_pass_nonmembers": first_pass_nonmembers,
        "rerun_with_longer_settle": retried,
        "nonmembers_after_retries": len(bad),
        "goroutine_frames_left": leak,
        "samples": samples,
    })
