"""C18 - generation is deterministic and idempotent.

PARTIAL by design. Proved (Lean, every permutation of every map's iteration order): the collect-then-sort,
keyed-write, search and accumulation shapes in which the generator consumes Go maps are order independent, and
every `range` over a map in the generator packages is of one of those shapes - `Gen/MapRanges.lean` is
regenerated from /repo by go/extract/mapranges.go (go/packages + syntactic rules + a hash-pinned reviewed list),
`all_sites_invariant` is re-decided on it, so a new / edited loop the rules cannot classify fails the check.
Sampled only: independence from process, GOMAXPROCS, start directory, and idempotence on a generated tree -
repeated REAL generations (api.Generate via go/harness/c18, one process per run = fresh map seed), SHA-256 of
every file must agree; plus the declaration order of the generated model file against the order model.

Round 2: further project dimensions (checks/c18proj.py, corpus/C18): configuration x value-edge cycles between generated
structs, bound Go packages with colliding package names, multi-key object constants. Regenerated: a collected slice
must not be used before its sort call (mapranges.go; reviewed sites pinned by loop + source up to the sorts);
`Gen/ResolverImports.lean` = the alias argument of (*File).Imports. Proved (Props/C18Regen.lean): modelgen's pointer
pass runs on sorted input (and needs to); re-generation returns the import aliases of the previous output. Ties:
pointer/value type of every struct field of models_gen.go vs `driver_c18 cyc`; `driver_c18 regen` on a grid.

Round 3: project dimensions federation (versions x explicit_requires / computed_requires / multi, many entities) and autobind
(the model package holds hand-written code and is autobound, models in / out of the exec package); a generation that fails
after an earlier run of the same inputs succeeded is a violation. Regenerated: `Gen/SortComparators.lean` (every comparator
literal; mapranges.go refuses a sort whose comparator does not compare element i with element j), `Gen/GenerateSteps.lean`
(order of api.Generate's statements). Proved (Props/C18Run.lean): a proper comparator is the sort of the order model, a
comparator over one index sorts nothing; with the regenerated step order a run does not depend on the previous exec / models
output (Model/Regenerate.lean). Tie: types declared by the real models file after each run vs `driver_c18 gen2`.

Round 4: project dimensions modular (follow-schema exec over several schema files in several directories, base names shared
between directories, object-free files, directives with arguments in some of them, schema lists / globs, filename_template)
and extrafields (`models.<T>.extraFields` / embedExtraFields / @goExtraField with several entries). Regenerated:
`Gen/PerSchemaSteps.lean` (the passes of codegen.generatePerSchema in source order, slice or map pass). Proved
(Props/C18Layout.lean): with the slice passes first, the source every per-file build is pinned to - hence the directive
functions each generated file holds - does not depend on map order when every shared output file holds an object or input
(the uncovered case is open finding F18b, with witness); the extra fields of a model come out sorted whatever the map order.
Ties: `driver_c18 pins` on every follow-schema project's summary under several delivery orders (Spec: one outcome) vs the
dir_<name>_args functions in the really generated files; `driver_c18 xf` vs the extra fields of the real structs.

Round 5: (a) templates.Render on template SETS of every shape (0-4 `!.gotpl` roots x ordinary roots, includes, templates defined
inside files, sub-directories; TemplateFS as directory / in-memory, templates next to the caller) rendered repeatedly in separate
processes (`h_c18 -mode render`); regenerated `Gen/RenderOrder.lean` (the comparator literal of Render, guard by guard); proved
(Props/C18Tpl.lean): it is a strict total order ("important first, then by name"), so the execution order of the roots does not
depend on the map order, whatever the set. Ties: `driver_c18 roots` under several delivery orders (Spec: one outcome) vs the
regions of the really rendered file. (b) project dimension shadow: hand-written model packages whose nested-scope identifiers
(type parameters, parameters, results, locals, local types, labels, receivers …) are named like bound types; regenerated
`Gen/IndexDefs.lean` (the guards of binder.indexDefs); mapranges.go no longer accepts an index DERIVED from the loop key as
keyed write (reviewed, hash-pinned); proved (Props/C18Bind.lean): only package-scope definitions are indexed, hence FindObject
does not depend on the order of TypesInfo.Defs. Ties: `h_c18 -mode find` (fresh binders, real FindObject) vs `driver_c18 idx`.
A project whose FIRST generation fails is generated again (up to 3 times): failing in one process and succeeding in the next is
a violation too.

Round 6 (after the misses C18-change11 / C18-change12): (a) WHERE the generator process is started. Every generation is a
process STARTED in its start directory (cwd and $PWD - `h_c18` refuses to run otherwise; until round 5 the harness chdir'ed
after process start, which a package-level `var wd, _ = os.Getwd()` never sees); start directories are derived per project from
its own gqlgen.yml by class (c18proj.start_dirs: root, output dirs, below the exec dir, schema dirs, unrelated dirs); the config
is found by the upward search or, from the root, named as gqlgen.yml / ./gqlgen.yml / absolute path. Regenerated
`Gen/WorkDirReads.lean` (reads of the working directory with their phase, the steps of LoadConfigFromDefaultLocations);
proved (Props/C18Start.lean): no read at package initialisation, find -> chdir -> load, hence every read made while generating
sees the config directory. (b) names that COLLIDE after Go name normalisation: project dimension collisions (c18col*, corpus
collide_*), more processes for these projects; regenerated `Gen/RegistryCallers.lean` (type-checked call graph: who reaches the
process-global registry `modelNames`, from which range-over-map loops); proved (Props/C18Names.lean over
Model/NameRegistry.lean): no map loop reaches the registry, without collisions every request order gives the plain names, with a
collision two orders give two allocations. Tie: `h_c18 -mode names` (real ToGoModelName) vs `driver_c18 reg`.
"""
import difflib
import os
import re
import shutil
import time
from collections import Counter
from concurrent.futures import ThreadPoolExecutor

from checks import c18proj
from lib import vf

INPUT_SUFFIXES = (".graphql", ".yml", "_src.go")     # *_src.go: hand-written Go packages bound through `models:`

ORDER_PROJECT = """{dirs}
scalar Time
{enums}
{ifaces}
{objects}
{unions}
{inputs}
type Query {{
{qfields}
}}
type Mutation {{ m(in: In0): Boolean }}
type Subscription {{ s: Obj0 }}
"""


def order_project(n):
    """many types of each kind over three files, referenced types in many nullability shapes, several directives:
    every map the generator ranges over has well over 8 entries (beyond one runtime bucket)."""
    f = ["", "", ""]
    f[0] += "".join("directive @d%d(a%d: Int) on FIELD_DEFINITION | ARGUMENT_DEFINITION | INPUT_FIELD_DEFINITION | OBJECT | QUERY | MUTATION\n" % (i, i) for i in range(n))
    f[0] += "scalar Time\n"
    for i in range(n):
        f[i % 3] += "enum En%d { A%d B_%d b%d }\n" % (i, i, i, i)
        f[(i + 1) % 3] += "interface If%d { f%d: Int @d%d(a%d: %d) }\n" % (i, i, i, i, i)
        f[(i + 2) % 3] += "type Obj%d implements If%d & If%d { f%d: Int  f%d: Int  o: Obj%d  e: [En%d!]  l(x: [In%d!], y: En%d = A%d): [[Obj%d]!] @d%d }\n" % (
            i, i, (i + 1) % n, i, (i + 1) % n, (i + 3) % n, i, i, i, i, (i + 5) % n, i)
        f[i % 3] += "union Un%d = Obj%d | Obj%d\n" % (i, i, (i + 2) % n)
        f[(i + 1) % 3] += "input In%d { a: Int = %d  b: [String!]  c: In%d  t: Time  e: En%d @d%d(a%d: 1) }\n" % (i, i, (i + 1) % n, i, i, i)
    q = "".join("  q%d(a: In%d, b: [En%d]): Un%d\n  i%d: [If%d!]!\n" % (i, i, i, i, i, i) for i in range(n))
    f[0] += "type Query {\n" + q + "}\ntype Mutation { m(in: In0): Boolean }\ntype Subscription { s: Obj0 }\n"
    f[1] += "extend type Query { extra1: Obj1 }\n"
    f[2] += "extend type Query { extra2: [Time] }\n"
    return f


ORDER_YML = """schema:
  - schema.graphql
  - type_ext.graphql
  - more-types.graphql
exec:
  layout: follow-schema
  dir: .
  package: {name}
model:
  filename: model/models_gen.go
  package: model
resolver:
  layout: follow-schema
  dir: res
  package: res
skip_mod_tidy: true
"""

SINGLE_YML = """schema:
  - "*.graphql"
exec:
  filename: generated.go
model:
  filename: models_gen.go
resolver:
  filename: res/resolver.go
  package: res
  type: Resolver
skip_mod_tidy: true
"""


def listing(hbin, d, env):
    rc, so, se = vf.sh([hbin, "-mode", "hash", "-dir", d], cwd=vf.GO, env=env, timeout=300)
    if rc != 0:
        raise RuntimeError("hash failed: " + se[-500:])
    return dict(l.split("\t") for l in so.split("\n") if l)


def wipe_generated(d):
    for root, dirs, files in os.walk(d, topdown=False):
        for f in files:
            if not f.endswith(INPUT_SUFFIXES) and f != "keep":
                os.remove(os.path.join(root, f))
        for x in dirs:
            p = os.path.join(root, x)
            if not os.listdir(p):
                os.rmdir(p)
    os.makedirs(os.path.join(d, "sub", "deep"), exist_ok=True)
    open(os.path.join(d, "sub", "deep", "keep"), "w").write("")


def run(ctx):
    ctx.assumptions += [
        "PARTIAL: independence from process, GOMAXPROCS and start directory, and idempotence on a generated tree are NOT theorems (I/O behaviour of go/packages, text/template, x/tools/imports); sampled by the repeated real generations of this run",
        "classification of map-range sites is syntactic (go/extract/mapranges.go): calls made on right-hand sides / in conditions of a loop body are assumed not to leak the iteration order through shared state; `<value>.Name` is taken to be the loop's key; sites the rules cannot classify are accepted only through go/extract/mapranges_reviewed.json, pinned by the SHA-256 of the loop's source text",
        "Go's sort.Slice is modelled by a merge sort; on lists with pairwise distinct keys (GraphQL type names) every correct sort returns the same list",
        "maps ranged over by text/template are visited in sorted key order (text/template contract)",
        "cycle-pass model (Model/CyclePass.lean): struct names are compared as Go names; templates.ToGo is the identity on the names the relations projects use",
        "per-file builds (Model/PerSchema.lean): a build is reduced to the one source addBuild pins it to; the output name of an element is the base name of its schema file put into exec.filename_template; data.Objects / data.Inputs are delivered sorted by name (BuildData's sort, inventory); tied to the real generator by the dir_<name>_args functions of the generated files of every follow-schema project",
        "root-template order (Model/RenderOrder.lean): sort.SliceStable is modelled by a merge sort - with a strict total order every correct sort returns the same list; template names are compared as byte strings; tied to the real Render by the regions of the rendered files",
        "binder index (Model/IndexDefs.lean): an entry of TypesInfo.Defs is reduced to (identifier name, object, nil?, parent scope is nil / the package scope / another scope); the Go type checker keeps package-scope names pairwise distinct (hypothesis PkgDistinct); tied to the real binder by FindObject on every bound type of the projects with hand-written packages",
        "start-directory model (Model/StartDir.lean): a read of the working directory is os.Getwd / filepath.Abs / os.Getenv(\"PWD\") written with the package's own import name (go/extract/workdirreads.go, syntactic); reads inside function literals of package-level initialisers count as made on demand unless the literal is invoked on the spot; the config is found by the upward search (an explicitly named config never moves the process: those runs start in the project root); tied to the real generator by starting every generation PROCESS in the start directory",
        "name-registry model (Model/NameRegistry.lean): single-part requests (type names; enum values ask with two parts and are covered only by the real generations); the call graph of go/extract/registrycallers.go follows static calls only (no interface / function-value calls); tied to the real registry by `h_c18 -mode names` on request sequences over colliding names",
        "import-table model (Model/Imports.lean): the imports internal/rewrite reads back from an existing resolver file are a subset of the first rendering's table with the alias Import.String printed; tied to the real generator only by the bound-package projects (imports dimension)",
    ]
    t0 = time.time()
    timings = {}
    ok_extract = ctx.extract("Keywords", "MapRanges", "ResolverImports", "SortComparators", "GenerateSteps", "PerSchemaSteps", "RenderOrder", "IndexDefs", "WorkDirReads", "RegistryCallers")
    proved = ok_extract and ctx.prove(props=["GqlgenVerif.Props.C18", "GqlgenVerif.Props.C18Regen", "GqlgenVerif.Props.C18Run", "GqlgenVerif.Props.C18Layout",
                                           "GqlgenVerif.Props.C18Tpl", "GqlgenVerif.Props.C18Bind", "GqlgenVerif.Props.C18Start", "GqlgenVerif.Props.C18Names"])
    gen_file = os.path.join(vf.LEAN, "GqlgenVerif", "Gen", "MapRanges.lean")
    sites = []
    if os.path.exists(gen_file):
        for l in open(gen_file):
            m = re.match(r'\s*⟨"([^"]+)", "([^"]+)", "((?:[^"\\]|\\.)*)", (\d+), \.(\w+), (true|false), "((?:[^"\\]|\\.)*)"⟩', l)
            if m:
                sites.append({"file": m.group(1), "func": m.group(2), "expr": m.group(3), "line": int(m.group(4)),
                              "class": m.group(5), "error_path": m.group(6) == "true", "evidence": m.group(7)})
    sensitive = [s for s in sites if s["class"] == "orderSensitive"]
    if ok_extract and not proved:
        ctx.cov["proof_failure"] = ctx.proof_failure

    timings["extract_and_prove"] = round(time.time() - t0, 1)
    t0 = time.time()
    # ------------------------------------------------------------ real generations
    hbin = os.path.join(vf.CACHE, "h_c18")
    ctx.go_build("./harness/c18", hbin)
    h17 = os.path.join(vf.CACHE, "h_c17_for_c18")
    ctx.go_build("./harness/c17", h17)
    root = os.path.join(vf.GO, "genout", "c18")
    shutil.rmtree(root, ignore_errors=True)
    os.makedirs(root)
    quick = ctx.tier == "quick"
    # projects: an order-stress project, the shared exec probe, seeded random projects of the C17 grammar
    projects = []
    d = os.path.join(root, "c18order")
    os.makedirs(d)
    for name, body in zip(["schema.graphql", "type_ext.graphql", "more-types.graphql"], order_project(11 if quick else 17)):
        open(os.path.join(d, name), "w").write(body)
    open(os.path.join(d, "gqlgen.yml"), "w").write(ORDER_YML.format(name="c18order"))
    projects.append("c18order")
    d = os.path.join(root, "c18probe")
    os.makedirs(d)
    shutil.copy(os.path.join(vf.GO, "probes", "exec", "schema.graphql"), d)
    open(os.path.join(d, "gqlgen.yml"), "w").write(SINGLE_YML)
    projects.append("c18probe")
    # federation plugin (entities, several @key per type, nested key fields): plugin/federation ranges over maps too
    d = os.path.join(root, "c18fed")
    os.makedirs(d)
    n = 9 if quick else 14
    fed = 'extend schema @link(url: "https://specs.apollo.dev/federation/v2.3", import: ["@key", "@requires", "@external", "@shareable"])\n'
    for i in range(n):
        fed += 'type Ent%d @key(fields: "id") %s{ id: ID!  sku%d: String!  next: Ent%d  owner: Ent%d! }\n' % (
            i, '@key(fields: "sku%d") ' % i if i % 2 else ('@key(fields: "id owner { id }") ' if i % 3 == 0 else ""), i, (i + 1) % n, (i + 2) % n)
    fed += "type Query { me: Ent0 }\n"
    open(os.path.join(d, "schema.graphql"), "w").write(fed)
    open(os.path.join(d, "gqlgen.yml"), "w").write(
        "schema:\n  - schema.graphql\nexec:\n  filename: generated.go\nfederation:\n  filename: federation.go\n  package: c18fed\n  version: 2\n"
        "model:\n  filename: models_gen.go\nresolver:\n  layout: follow-schema\n  dir: res\n  package: res\nskip_mod_tidy: true\n")
    projects.append("c18fed")
    nrand = 5 if quick else 24
    rc, so, se = vf.sh([h17, "-mode", "schemas", "-out", root, "-n", str(nrand), "-seed", str(ctx.seed + 18), "-tier", ctx.tier], cwd=vf.GO, env=vf.go_env(), timeout=300)
    if rc != 0:
        raise RuntimeError("schema generator failed: " + se[-1000:])
    for l in so.split("\n"):
        if l.startswith("project\tc17r"):
            projects.append(l.split("\t")[1])
        elif l.startswith("project\tc17d"):
            shutil.rmtree(os.path.join(root, l.split("\t")[1]), ignore_errors=True)
    # further input dimensions (checks/c18proj.py): configuration x relationship structure of the generated models,
    # bound Go packages with colliding package names, constants rendered into Go source; directed cases: corpus/C18
    pkg_prefix = "verifharness/genout/c18"
    meta = {}
    prng = vf.Rng(ctx.seed * 1000003 + 1801)
    for case, proj in c18proj.load_corpus(os.path.join(vf.VERIF, "corpus", "C18")):
        name = "c18d_" + case
        c18proj.write(root, name, proj, pkg_prefix)
        meta[name] = proj["meta"]
        projects.append(name)
    fed_opts = ["explicit_requires", "computed_requires", "", None]     # the first projects cover every option, then random
    for dim, gen, n in (("rel", c18proj.relations, 3 if quick else 12), ("imp", c18proj.imports, 4 if quick else 14),
                        ("lit", c18proj.literals, 1 if quick else 4), ("fed", c18proj.federation, 4 if quick else 12),
                        ("ab", c18proj.autobind, 4 if quick else 12), ("mod", c18proj.modular, 4 if quick else 12),
                        ("xf", c18proj.extrafields, 2 if quick else 6), ("sh", c18proj.shadow, 4 if quick else 10),
                        ("col", c18proj.collisions, 4 if quick else 12)):
        for i in range(n):
            name = "c18%s%d" % (dim, i)
            if dim == "rel":
                proj = gen(prng, name, always_false=i % 3 != 2)
            elif dim == "fed":
                proj = gen(prng, name, option=fed_opts[min(i, 3)], version=1 if i == 2 else None, min_requires=9 if i < 2 else 3)
            elif dim == "col":
                proj = gen(prng, name, groups=1 if i == 0 else None)            # the first: a single group (one race)
            elif dim == "sh":
                proj = gen(prng, name, collisions=(1, 2)[i] if i < 2 else None)      # the first two: few collisions (a run may go either way)
            else:
                proj = gen(prng, name)
            c18proj.write(root, name, proj, pkg_prefix)
            meta[name] = proj["meta"]
            projects.append(name)

    # what generatePerSchema sees of each follow-schema project (derived from the project's files)
    layouts = {}
    for p in projects:
        L = c18proj.layout_summary(os.path.join(root, p))
        if L:
            layouts[p] = L

    # (GOMAXPROCS, class of the directory the PROCESS is started in (c18proj.start_dirs; "*" = drawn per project), wipe
    #  generated files first?, how the config is found: search = upward search + chdir (`gqlgen generate`), "*" = drawn per
    #  project from search / rel / dotrel / abs (`gqlgen generate -c <path>`, only meaningful from the root))
    plan = [(1, "root", True, "*"), (4, "out", False, "search"), (16, "*", True, "search"), (2, "*", False, "search")]
    if not quick:
        plan += [(8, "*", True, "search"), (1, "deep", False, "search"), (3, "root", True, "*"), (16, "root", False, "*"),
                 (2, "*", True, "search"), (5, "*", True, "search")]
    if (sensitive or (ok_extract and not proved)) and quick:
        plan += [(8, "root", True, "search"), (1, "root", True, "search"), (3, "root", True, "search"), (16, "root", True, "search")]
    # projects whose output can depend on the order in which NAMES are first requested get more processes (each process
    # decides a two-way race with probability 1/2)
    extra_plan = [(8, "root", True, "search"), (3, "*", True, "search"), (1, "root", True, "search"), (16, "*", True, "search"),
                  (2, "root", True, "search"), (5, "root", True, "search")]
    FREE_STARTS = ("deep", "out", "schema", "tool", "below", "sub")
    CFGS = ("search", "rel", "abs", "dotrel")

    def gen_cmd(d, start, cfg, procs):
        """One generation = one process STARTED in d/start (cwd and $PWD, as a shell would)."""
        env = vf.go_env()
        sd = os.path.join(d, start) if start else d
        os.makedirs(sd, exist_ok=True)
        env.update({"GOMAXPROCS": str(procs), "GOMEMLIMIT": "3GiB", "PWD": sd})
        rc, so, se = vf.sh([hbin, "-mode", "gen", "-dir", d, "-start", start, "-cfg", cfg], cwd=sd, env=env, timeout=600)
        if rc == 2:
            raise RuntimeError("harness refused to run: " + se[-400:])
        return rc, so, se, env

    def one(p):
        d = os.path.join(root, p)
        runs = []
        pidx = projects.index(p)
        prng_p = vf.Rng(ctx.seed * 7919 + 31 * pidx + 5)
        classes = None
        my_plan = plan + (extra_plan[:3 if quick else 6] if meta.get(p, {}).get("more_processes") else [])
        for step, (procs, sclass, wipe, cfg) in enumerate(my_plan):
            if wipe:
                wipe_generated(d)
            os.makedirs(os.path.join(d, "sub", "deep"), exist_ok=True)
            if classes is None:
                classes = c18proj.start_dirs(d)
            if sclass == "*":
                sclass = FREE_STARTS[(pidx + step + prng_p.below(len(FREE_STARTS))) % len(FREE_STARTS)]
            cands = classes[sclass]
            start = cands[prng_p.below(len(cands))]
            if cfg == "*":
                cfg = CFGS[(pidx + step) % len(CFGS)]
            if start:
                cfg = "search"
            rc, so, se, env = gen_cmd(d, start, cfg, procs)
            if rc != 0:
                err = [l for l in se.split("\n") if l.strip() and not l.startswith("/verif")]
                err = ([l for l in err if re.match(r"(GENERATE-ERROR|CONFIG-ERROR|PANIC)", l)] + err)[:3]
                if not runs:
                    # the project's first generation fails. C17's business - unless the SAME inputs generate in another process
                    first_failures.setdefault(p, []).append({"GOMAXPROCS": procs, "start": start or ".", "config": cfg, "clean_tree": True, "failed": err})
                    again = None
                    for procs2 in (2, 8, 1):
                        wipe_generated(d)
                        rc2, so2, se2, env2 = gen_cmd(d, "", "search", procs2)
                        if rc2 == 0:
                            again = procs2
                            break
                        first_failures[p].append({"GOMAXPROCS": procs2, "start": ".", "clean_tree": True, "failed": [l for l in se2.split("\n") if re.match(r"(GENERATE-ERROR|CONFIG-ERROR|PANIC)", l)][:2]})
                    if again is None:
                        first_failures.pop(p, None)
                        return p, None, err
                    files = {k: v for k, v in listing(hbin, d, env2).items() if not k.endswith(INPUT_SUFFIXES) and not k.endswith("keep")}
                    runs.append({"GOMAXPROCS": again, "start": ".", "clean_tree": True, "files": files,
                                 "_text": {k: open(os.path.join(d, k), errors="replace").read() for k in files}})
                    continue
                # an earlier generation of the SAME inputs succeeded: this one must too (and must leave the same tree)
                files = {k: v for k, v in listing(hbin, d, env).items() if not k.endswith(INPUT_SUFFIXES) and not k.endswith("keep")}
                runs.append({"GOMAXPROCS": procs, "start": start or ".", "config": cfg, "clean_tree": wipe, "files": files, "failed": err, "_text": {}})
                return p, runs, None
            files = {k: v for k, v in listing(hbin, d, env).items() if not k.endswith(INPUT_SUFFIXES) and not k.endswith("keep")}
            run = {"GOMAXPROCS": procs, "start": start or ".", "start_class": sclass, "config": cfg, "clean_tree": wipe, "files": files}
            same_group = [r for r in runs if r["clean_tree"] == wipe]
            runs.append(run)
            if not same_group or files != same_group[0]["files"]:
                run["_text"] = {k: open(os.path.join(d, k), errors="replace").read() for k in files}
            if same_group and files != same_group[0]["files"]:
                break
        return p, runs, None

    results = {}
    first_failures = {}
    with ThreadPoolExecutor(max_workers=6) as ex:
        for p, runs, err in ex.map(one, projects):
            results[p] = (runs, err)
    timings["real_generations"] = round(time.time() - t0, 1)
    t0 = time.time()

    branch = Counter()
    nontriv = set()
    total_runs = 0
    files_hashed = 0
    skipped = []
    mismatches = 0
    for p in projects:
        runs, err = results[p]
        if runs is None:
            skipped.append({"project": p, "error": err})
            branch["project:generation-failed(C17's business)"] += 1
            continue
        total_runs += len(runs)
        files_hashed += sum(len(r["files"]) for r in runs)
        branch["project:compared"] += 1
        nontriv.add(p)
        d = os.path.join(root, p)
        inputs = {}
        for r_, _, fs_ in os.walk(d):
            for f in sorted(fs_):
                if f.endswith(INPUT_SUFFIXES):
                    inputs[os.path.relpath(os.path.join(r_, f), d)] = open(os.path.join(r_, f)).read()
        single_file_resolver = bool(re.search(r"^resolver:\n  filename:", inputs.get("gqlgen.yml", ""), re.M))

        def report(base, r, kind):
            diff_files = sorted(k for k in set(r["files"]) | set(base["files"]) if r["files"].get(k) != base["files"].get(k))
            excerpt = []
            f0 = diff_files[0]
            a = base.get("_text", {}).get(f0, "").split("\n")
            b = r.get("_text", {}).get(f0, "").split("\n")
            for l in difflib.unified_diff(a, b, "run%d/%s" % (runs.index(base) + 1, f0), "run%d/%s" % (runs.index(r) + 1, f0), lineterm="", n=0):
                excerpt.append(l[:160])
                if len(excerpt) > 30:
                    break
            added = [l[1:].strip() for l in excerpt if l.startswith("+") and not l.startswith("+++")]
            removed = [l for l in excerpt if l.startswith("-") and not l.startswith("---")]
            shape = {"kind": kind, "file": os.path.basename(f0)}
            L_ = layouts.get(p)
            if L_ and L_["uncovered"]:
                # several schema files of one base name, none of which holds an object or input type (open finding F18b)
                unc = {os.path.normpath(os.path.join(L_["exec_dir"], f)) for f in L_["uncovered"]}
                shape.update({"same_basename_schema_files_without_object_or_input": True,
                              "differs_only_in_their_output": set(diff_files) <= unc})
            if kind == "idempotence":
                only_warning = (not removed and len(diff_files) == 1 and any("!!! WARNING !!!" in l for l in added)
                                and [l for l in added if l and not l.startswith("//") and l not in ("/*", "*/")] == ["type Resolver struct{}"])
                shape.update({"single_file_resolver_layout": single_file_resolver,
                              "only_change_is_warning_block_with_empty_root_resolver_struct": only_warning})
            ctx.violation({"kind": "hash-mismatch", "project": p, "differing_files": diff_files[:10], "diff_excerpt": excerpt,
                           "run_a": {k: v for k, v in base.items() if k in ("GOMAXPROCS", "start", "config", "clean_tree")},
                           "run_b": {k: v for k, v in r.items() if k in ("GOMAXPROCS", "start", "config", "clean_tree")},
                           "input": inputs, "order_sensitive_sites": sensitive[:6], "shape": shape,
                           "replay": "project %s (files in `input`, directory /verif/go/genout/c18/%s): `.cache/h_c18 -mode gen -dir <dir> -start %s` (process started IN <dir>/<start>) with GOMAXPROCS=%d %s wrote %s differently from run %d (GOMAXPROCS=%d, start %s, %s)" % (
                               p, p, r["start"], r["GOMAXPROCS"], "on a clean tree" if r["clean_tree"] else "on the tree left by the previous run",
                               ", ".join(diff_files[:4]), runs.index(base) + 1, base["GOMAXPROCS"], base["start"],
                               "clean tree" if base["clean_tree"] else "on previous output")})

        if p in first_failures:
            # clean tree, same inputs: one process fails, another generates
            ff = first_failures[p]
            ok_run = runs[0]
            mismatches += 1
            ctx.violation({"kind": "generation-outcome-differs-between-processes", "project": p, "failing_runs": ff,
                           "succeeding_run": {k: v for k, v in ok_run.items() if k in ("GOMAXPROCS", "start", "config", "clean_tree")},
                           "input": inputs, "dimension": meta.get(p, {}), "order_sensitive_sites": sensitive[:6],
                           "shape": {"kind": "determinism", "generation_failed": True, "on_previous_output": False},
                           "replay": "project %s (files in `input`, directory /verif/go/genout/c18/%s): `.cache/h_c18 -mode gen -dir <dir>` on a clean tree FAILED in %d process(es) (%s) "
                                     "and succeeded in the next one (GOMAXPROCS=%d) - same schema, configuration and Go sources" % (
                                         p, p, len(ff), " / ".join(ff[0]["failed"])[:300], ok_run["GOMAXPROCS"])})
        firsts = {}
        if runs[-1].get("failed"):
            # the same inputs generated fine in an earlier run of this project
            r = runs[-1]
            base = next(x for x in runs if x["clean_tree"]) if not r["clean_tree"] else runs[0]
            prev = runs[-2]
            kind = "determinism" if r["clean_tree"] else "idempotence"
            removed = sorted(k for k in prev["files"] if k not in r["files"]) if not r["clean_tree"] else []
            mismatches += 1
            ctx.violation({"kind": "generation-failed-after-success", "project": p, "error": r["failed"], "files_removed_by_the_failing_run": removed[:10],
                           "run_a": {k: v for k, v in base.items() if k in ("GOMAXPROCS", "start", "config", "clean_tree")},
                           "run_b": {k: v for k, v in r.items() if k in ("GOMAXPROCS", "start", "config", "clean_tree")},
                           "input": inputs, "dimension": meta.get(p, {}), "order_sensitive_sites": sensitive[:6],
                           "shape": {"kind": kind, "generation_failed": True,
                                     "on_previous_output": not r["clean_tree"]},
                           "replay": "project %s (files in `input`, directory /verif/go/genout/c18/%s): run %d, `.cache/h_c18 -mode gen -dir <dir> -start %s` (process started IN <dir>/<start>) with GOMAXPROCS=%d %s, FAILED (%s)%s although run %d of the same inputs (GOMAXPROCS=%d, start %s, %s) succeeded" % (
                               p, p, len(runs), r["start"], r["GOMAXPROCS"], "on a clean tree" if r["clean_tree"] else "on the un-edited tree left by the previous run",
                               " / ".join(r["failed"])[:300], (" and removed " + ", ".join(removed[:4])) if removed else "",
                               runs.index(base) + 1, base["GOMAXPROCS"], base["start"], "clean tree" if base["clean_tree"] else "on previous output")})
            runs = runs[:-1]
        for r in runs:
            branch["run:GOMAXPROCS=%d,%s" % (r["GOMAXPROCS"], "clean" if r["clean_tree"] else "on-previous-output")] += 1
            branch["start:%s,config=%s" % (r.get("start_class", "root"), r.get("config", "search"))] += 1
            g = r["clean_tree"]
            if g not in firsts:
                firsts[g] = r
            elif r["files"] != firsts[g]["files"]:
                # same kind of tree, different process / GOMAXPROCS / start directory: the output moved
                mismatches += 1
                report(firsts[g], r, "determinism")
                break
        if True in firsts and False in firsts and firsts[True]["files"] != firsts[False]["files"]:
            # generating again on the freshly generated tree changed something
            mismatches += 1
            report(firsts[True], firsts[False], "idempotence")
    if len([p for p in projects if results[p][0] is not None]) < 2:
        raise RuntimeError("fewer than two projects could be generated: %r" % skipped[:3])

    # ------------------------------------------------------------ declaration order vs the order model
    order_cmp = 0
    have_model = getattr(ctx, "driver_ok", False)
    rng = vf.Rng(ctx.seed + 1818)
    for p in projects:
        if results[p][0] is None or not have_model:
            continue
        yml_text = open(os.path.join(root, p, "gqlgen.yml")).read()
        if results[p][0][-1].get("failed"):
            continue        # reported above; the failing run removed the generated files
        if re.search(r"^(federation|autobind):", yml_text, re.M):
            # the schema summary of `h_c17 -mode decls` is taken from the sources and the `models:` section alone: a federation
            # schema only loads with the plugin's sources, and which types autobind binds is decided inside cfg.Init()
            continue
        if any("@goModel(" in open(os.path.join(r_, f_)).read() for r_, _, fs_ in os.walk(os.path.join(root, p))
               for f_ in fs_ if f_.endswith(".graphql")):
            # a type bound by the @goModel DIRECTIVE is not generated either, and the schema summary does not know that
            # binding (it reads the `models:` section only): the order model has no prediction for such a project
            continue
        rc, so, se = vf.sh([h17, "-mode", "decls", "-dir", os.path.join(root, p)], cwd=vf.GO, env=vf.go_env(), timeout=300)
        if rc != 0:
            raise RuntimeError("decls failed for %s: %s" % (p, (so + se)[-800:]))
        dd = dict(l.split("\t", 1) for l in so.split("\n") if "\t" in l)
        impl = [x.split("=")[1] for x in dd["impl"].split(";") if x.startswith("pkg=")]
        decls = dd["schema"].split("|")
        outs = []
        perms = [decls]
        for _ in range(3):      # the map could have delivered the types in any order: the prediction must not move
            q = list(decls)
            for i in range(len(q) - 1, 0, -1):
                j = rng.below(i + 1)
                q[i], q[j] = q[j], q[i]
            perms.append(q)
        outs = ctx.driver("c18", ["order " + "|".join(q) for q in perms])
        order_cmp += 1
        if len(set(outs)) != 1:
            ctx.violation({"kind": "model", "what": "order model is not permutation invariant on a concrete schema", "project": p},
                          no_failing_input=True)
        pred = [x for x in outs[0].split(",") if x]
        if pred != impl:
            first = next((i for i, (a, b) in enumerate(zip(pred, impl)) if a != b), min(len(pred), len(impl)))
            ctx.violation({"kind": "correspondence", "project": p,
                           "what": "declaration order of the generated model file differs from the order model (interfaces, models, enums each sorted by name)",
                           "first_difference": {"index": first, "model": bytes.fromhex(pred[first]).decode() if first < len(pred) else None,
                                                "impl": bytes.fromhex(impl[first]).decode() if first < len(impl) else None},
                           "replay": "project %s: models_gen.go declares %s where the model predicts %s" % (
                               p, bytes.fromhex(impl[first]).decode() if first < len(impl) else None,
                               bytes.fromhex(pred[first]).decode() if first < len(pred) else None)},
                          no_failing_input=True)

    # ------------------------------------------------------------ pointer decisions of modelgen vs the cycle-pass model
    ptr_cmp = ptr_fields = 0
    for p in projects:
        m = meta.get(p, {})
        if results[p][0] is None or not have_model or "models" not in m:
            continue
        line = "|".join("%s:%s" % (x["name"], ",".join("%s/%s/%s" % (f["name"], f["target"], "v" if f["val"] else "o") for f in x["fields"]))
                        for x in m["models"])
        pred = {}
        for part in ctx.driver("c18", ["cyc " + line])[0].split(";"):
            n, _, fs = part.partition(":")
            pred[n] = dict(f.split("=") for f in fs.split(",") if f)
        ptr_cmp += 1
        for r in results[p][0]:
            text = r.get("_text", {}).get("model/models_gen.go")
            if text is None:
                continue
            for sm in re.finditer(r"^type (\w+) struct \{\n(.*?)^\}", text, re.M | re.S):
                for fm in re.finditer(r"^\t\w+\s+(\S+)\s+`json:\"(\w+)", sm.group(2), re.M):
                    want = pred.get(sm.group(1), {}).get(fm.group(2), "-")
                    if want == "-":
                        continue
                    ptr_fields += 1
                    if m.get("always_pointers"):
                        want = "p"
                    got = "p" if fm.group(1).startswith("*") else "v"
                    if got != want:
                        ctx.violation({"kind": "pointer-decision", "project": p, "struct": sm.group(1), "field": fm.group(2),
                                       "generated_type": fm.group(1), "model": {"p": "pointer", "v": "value"}[want],
                                       "input": {f: open(os.path.join(root, p, f)).read() for f in ("schema.graphql", "gqlgen.yml")},
                                       "run": {k: v for k, v in r.items() if k in ("GOMAXPROCS", "start", "config", "clean_tree")},
                                       "shape": {"kind": "pointer-decision"},
                                       "replay": "project %s (directory go/genout/c18/%s): models_gen.go declares %s.%s as %s; sorting the models by name and then "
                                                 "running the cycle pass (Model/CyclePass.lean modelPointers, driver_c18 `cyc %s`) makes it a %s" % (
                                                     p, p, sm.group(1), fm.group(2), fm.group(1), line[:200], {"p": "pointer", "v": "value"}[want])})
                        break

    # ------------------------------------------------------------ import aliases: first rendering vs re-generation (model, regenerated File.Imports)
    regen_cases = 0
    if have_model:
        pk = [("zed/model", "model"), ("alpha/model", "model"), ("mid/modelpkg", "model"), ("yak/ast", "ast"), ("beta/types", "types"), ("fmt", "fmt")]
        grng = vf.Rng(ctx.seed + 181818)
        lines, cases = [], []
        for i in range(40):
            k = 2 + grng.below(4)
            sel = c18proj.shuffle(grng, pk)[:k]
            order = [x[0] for x in c18proj.shuffle(grng, sel + sel[:1])]
            cases.append((sel, order))
            lines.append("regen res %s %s" % (";".join("%s=%s" % x for x in sel), ";".join(order)))
        cases.insert(0, (pk[:2], ["zed/model", "alpha/model"]))
        lines.insert(0, "regen res zed/model=model;alpha/model=model zed/model;alpha/model")
        for (sel, order), out in zip(cases, ctx.driver("c18", lines)):
            regen_cases += 1
            m = re.match(r"first=(\S*) second=(\S*)$", out)
            if not m or m.group(1) != m.group(2):
                ctx.violation({"kind": "import-alias-regeneration", "packages": dict(sel), "lookups_in_order_of_first_use": order,
                               "aliases_first_generation": m.group(1) if m else out, "aliases_second_generation": m.group(2) if m else out,
                               "shape": {"kind": "import-alias-regeneration"},
                               "replay": "import table model with (*File).Imports as regenerated from plugin/resolvergen/resolver.go (Gen/ResolverImports.lean): "
                                         "packages %s referenced in the order %s get the aliases %s on a clean tree and %s when generation runs again over that output "
                                         "(driver_c18 `%s`); real project with this shape: corpus/C18/same_package_name" % (
                                             dict(sel), order, m.group(1) if m else out, m.group(2) if m else out, lines[regen_cases - 1])})
                break

    # ------------------------------------------------------------ what the second run sees of the first run's output (model over the regenerated
    # order of api.Generate's steps) vs the types the real models file declares after the first / the second generation
    regen_cmp = 0
    roots_ = {"Query", "Mutation", "Subscription"}
    for p in projects:
        m = meta.get(p, {}).get("regen")
        if results[p][0] is None or not have_model or not m:
            continue
        line = "gen2 %s %s %d" % (",".join(m["types"]), ",".join(m["hand"]) or "-", 1 if m["autobind"] else 0)
        out = ctx.driver("c18", [line])[0]
        mm = re.match(r"first=(\w+) models=(\S+) exec=(\d) second=(\w+) models=(\S+) exec=(\d)$", out)
        regen_cmp += 1
        if not mm:
            ctx.violation({"kind": "model", "what": "driver_c18 gen2 answered " + out, "project": p}, no_failing_input=True)
            continue
        pred = {True: (mm.group(1), mm.group(2)), False: (mm.group(4), mm.group(5))}
        inp = {f: open(os.path.join(root, p, f)).read() for f in ("schema.graphql", "gqlgen.yml")}
        if mm.group(1, 2, 3) != mm.group(4, 5, 6):
            # the Spec (running again on the generated tree changes nothing) evaluated on the model with the regenerated step order
            ctx.violation({"kind": "regeneration-model", "project": p, "model_input": m, "first_run": mm.group(1, 2, 3), "second_run": mm.group(4, 5, 6),
                           "input": inp, "shape": {"kind": "idempotence", "model": "Regenerate"},
                           "replay": "project %s (directory go/genout/c18/%s): with api.Generate's steps in the order regenerated from api/generate.go "
                                     "(Gen/GenerateSteps.lean) the tree model gives first run = %s, models file declares %s; second run on that tree = %s, models file %s "
                                     "(driver_c18 `%s`)" % (p, p, mm.group(1), mm.group(2), mm.group(4), mm.group(5), line)})
        mf = re.search(r"^model:\n  filename: (\S+)", inp["gqlgen.yml"], re.M).group(1)
        for r in results[p][0]:
            text = r.get("_text", {}).get(mf)
            if r.get("failed") or (text is None and mf in r["files"]):
                continue
            want_ok, want = pred[r["clean_tree"]]
            got = sorted(set(re.findall(r"^type (\w+) ", text or "", re.M)) - roots_)
            exp = sorted(set(want.split(",")) - {"-"}) if want_ok == "ok" else None
            if got != exp:
                ctx.violation({"kind": "correspondence", "project": p, "what": "types declared by the generated models file vs the tree model of api.Generate",
                               "run": {k: v for k, v in r.items() if k in ("GOMAXPROCS", "start", "config", "clean_tree")}, "models_file_declares": got,
                               "model": exp if exp is not None else "generation fails", "input": inp,
                               "replay": "project %s: %s declares %s; Model/Regenerate.lean over Gen/GenerateSteps.lean (driver_c18 `%s`) predicts %s" % (
                                   p, mf, got, line, exp if exp is not None else "a failing run")}, no_failing_input=True)
                break

    # ------------------------------------------------------------ per-file builds of the follow-schema executor: the model over the
    # regenerated order of generatePerSchema's passes, map passes delivered in several orders, vs the directive functions really written
    layout_cmp = layout_files = 0
    ps_file = os.path.join(vf.LEAN, "GqlgenVerif", "Gen", "PerSchemaSteps.lean")
    pass_order = re.findall(r'⟨"(\w+)", \.(\w+), \w+⟩', open(ps_file).read()) if os.path.exists(ps_file) else []
    FUNC_RE = re.compile(r"^func (?:\(ec \*executionContext\) )?dir_(\w+)_args\(", re.M)
    for p in projects:
        L = layouts.get(p)
        if results[p][0] is None or not have_model or not L:
            continue
        base = L["passes"]
        orders = [("sources as listed", base)]
        for label, key in (("maps reversed", None),) + tuple(("elements of %s first" % s_, s_) for s_ in L["sources"][:8]):
            q = dict(base)
            for k in ("addInterfaces", "addReferencedTypes"):
                q[k] = base[k][::-1] if key is None else [e for e in base[k] if e[1] == key] + [e for e in base[k] if e[1] != key]
            orders.append((label, q))
        dirs_arg = ",".join("%s@%s" % x for x in L["argdirs"]) or "-"
        lines = ["pins %s %s %s" % (";".join("%s=%s" % (k, ",".join("%s@%s" % e for e in v)) for k, v in q.items()), dirs_arg, ",".join(L["outputs"]))
                 for _, q in orders]
        outs = ctx.driver("c18", lines)
        layout_cmp += 1
        outcomes = {f: {} for f in L["outputs"]}
        bad_out = None
        for (label, _), out in zip(orders, outs):
            mm = re.match(r"covered=([01]) (.*)$", out)
            if not mm:
                bad_out = out
                break
            for part in mm.group(2).split(";"):
                f, _, rest = part.partition("=")
                pin, _, ds = rest.partition(":")
                outcomes[f].setdefault((pin, tuple(sorted(x for x in ds.split(",") if x))), label)
        if bad_out is not None:
            ctx.violation({"kind": "model", "what": "driver_c18 pins answered " + bad_out, "project": p}, no_failing_input=True)
            continue
        inp = {f: open(os.path.join(root, p, f)).read() for f in ["gqlgen.yml"] + L["sources"]}
        for f in L["outputs"]:
            funcs = {ds for (_, ds) in outcomes[f]}
            if len(funcs) > 1:
                # the Spec (one output whatever order the maps are delivered in) evaluated on the model with the regenerated pass order
                unc = f in L["uncovered"]
                ctx.violation({"kind": "layout-model", "project": p, "output_file": f,
                               "outcomes": [{"map_delivery_order": lab, "build_pinned_to": pin, "directive_arg_functions_in_the_file": list(ds)}
                                            for (pin, ds), lab in outcomes[f].items()],
                               "passes_in_source_order": pass_order, "input": inp,
                               "shape": {"kind": "determinism", "model": "PerSchema", "file": f,
                                         "same_basename_schema_files_without_object_or_input": unc, "differs_only_in_their_output": unc},
                               "replay": "project %s (directory go/genout/c18/%s, files in `input`): with generatePerSchema's passes in the order regenerated from "
                                         "codegen/generate.go (Gen/PerSchemaSteps.lean) the build of %s is pinned to %s depending on the order in which "
                                         "data.Interfaces / data.ReferencedTypes are delivered, so the file holds the dir_<name>_args functions %s "
                                         "(driver_c18 `%s`)" % (p, p, f, " or ".join(sorted({pin for (pin, _) in outcomes[f]})),
                                                                " or ".join(str(list(x)) for x in sorted(funcs)), lines[1][:300])})
        for r in results[p][0]:
            if r.get("failed") or not r.get("_text"):
                continue
            for f in L["outputs"]:
                text = r["_text"].get(os.path.normpath(os.path.join(L["exec_dir"], f)))
                if text is None:
                    continue
                layout_files += 1
                got = tuple(sorted(set(FUNC_RE.findall(text))))
                allowed = {ds for (_, ds) in outcomes[f]}
                if got not in allowed:
                    ctx.violation({"kind": "correspondence", "project": p, "output_file": f,
                                   "what": "directive argument functions in a generated per-schema file vs the build model of generatePerSchema",
                                   "generated_file_holds": list(got), "model_allows": [list(x) for x in sorted(allowed)], "input": inp,
                                   "run": {k: v for k, v in r.items() if k in ("GOMAXPROCS", "start", "config", "clean_tree")},
                                   "replay": "project %s: %s holds dir_*_args for %s; Model/PerSchema.lean over Gen/PerSchemaSteps.lean (driver_c18 `%s`) allows %s" % (
                                       p, f, list(got), lines[0][:300], [list(x) for x in sorted(allowed)])}, no_failing_input=True)
                    break

    # ------------------------------------------------------------ extra struct fields of the generated models vs the sort model
    xf_cmp = xf_structs = 0
    for p in projects:
        if results[p][0] is None or not have_model:
            continue
        xs = c18proj.extra_summary(os.path.join(root, p), pkg_prefix + "/" + p)
        if not xs:
            continue
        lines = ["xf %s %s" % (",".join("%s/%s" % nt for nt in x["named"]) or "-", ",".join(x["embedded"]) or "-") for x in xs]
        preds = ctx.driver("c18", lines)
        xf_cmp += 1
        mf = re.search(r"^model:\n  filename: (\S+)", open(os.path.join(root, p, "gqlgen.yml")).read(), re.M).group(1)
        short = lambda t: re.sub(r"[\w.\-]+/", "", t)        # import path -> package qualifier
        done = False
        for r in results[p][0]:
            text = r.get("_text", {}).get(mf)
            if text is None or done:
                continue
            for x, pred in zip(xs, preds):
                want = [short(t[1:]) if t.startswith("~") else t for t in pred.split(",") if t]
                sm = re.search(r"^type %s struct \{\n(.*?)^\}" % re.escape(x["type"]), text, re.M | re.S)
                if not sm:
                    continue
                xf_structs += 1
                toks = [l.split()[0] for l in sm.group(1).split("\n") if l.strip() and not l.strip().startswith("//")]
                got = [t for t in toks if t in set(want)]
                if got != want:
                    done = True
                    ctx.violation({"kind": "extra-field-order", "project": p, "struct": x["type"], "extra_fields_in_generated_struct": got,
                                   "model": want, "configured": {"named": dict(x["named"]), "embedded": x["embedded"]},
                                   "run": {k: v for k, v in r.items() if k in ("GOMAXPROCS", "start", "config", "clean_tree")},
                                   "input": {f: open(os.path.join(root, p, f)).read() for f in ("schema.graphql", "gqlgen.yml")},
                                   "shape": {"kind": "extra-field-order"},
                                   "replay": "project %s (directory go/genout/c18/%s): %s declares the extra fields of %s in the order %s; getExtraFields sorts them "
                                             "(named by name, embedded last by type: Model/ExtraFields.lean, driver_c18 `%s`) into %s" % (
                                                 p, p, mf, x["type"], got, lines[xs.index(x)][:200], want)})
                    break

    timings["model_ties_of_rounds_1_to_4"] = round(time.time() - t0, 1)
    t0 = time.time()
    # ------------------------------------------------------------ the binder's name index: real FindObject on every bound type (fresh
    # binders, each ranges over TypesInfo.Defs anew) vs the index model over the regenerated guards, Defs delivered in several orders
    bind_cmp = bind_lookups = bind_shadowed = 0
    # (also for a project whose generation failed in every process: looking its bound types up needs the configuration only)
    bind_projects = [p for p in projects if any(f.endswith("_src.go") for _, _, fs_ in os.walk(os.path.join(root, p)) for f in fs_)]

    def find_one(p):
        env = vf.go_env()
        env.update({"GOMAXPROCS": str(1 + (len(p) * 7) % 8), "GOMEMLIMIT": "3GiB"})
        return p, vf.sh([hbin, "-mode", "find", "-dir", os.path.join(root, p), "-reps", "12" if quick else "24"], cwd=vf.GO, env=env, timeout=600)

    with ThreadPoolExecutor(max_workers=6) as ex:
        find_out = dict(ex.map(find_one, bind_projects))
    for p in bind_projects:
        rc, so, se = find_out[p]
        if rc != 0:
            if results[p][0] is None:
                continue        # neither generates nor loads: C17's business
            raise RuntimeError("h_c18 -mode find failed for %s: %s" % (p, (so + se)[-600:]))
        finds, defs = [], {}
        for l in so.split("\n"):
            f = l.split("\t")
            if f[0] == "find":
                finds.append((f[1], f[2], f[3], dict(x.rsplit("=", 1) for x in f[4].split(";"))))
            elif f[0] == "defs":
                defs[f[1]] = [tuple(x.rsplit("/", 2)) for x in f[2].split(",") if x]
        bind_cmp += 1
        d = os.path.join(root, p)
        inputs = {}
        for r_, _, fs_ in os.walk(d):
            for f in sorted(fs_):
                if f.endswith(INPUT_SUFFIXES):
                    inputs[os.path.relpath(os.path.join(r_, f), d)] = open(os.path.join(r_, f)).read()
        reported = False
        for gql, pkg, typ, outcomes in finds:
            bind_lookups += 1
            ents = defs.get(pkg, [])
            pos_of = {i + 1: e[1] for i, e in enumerate(ents)}
            if len([e for e in ents if e[0] in (typ, "Marshal" + typ)]) > 1:
                bind_shadowed += 1
            model_out = {}
            if have_model and ents:
                enc = ["%s/%d/%s" % (e[0], i + 1, e[2]) for i, e in enumerate(ents)]
                orders = [("as listed", enc), ("reversed", enc[::-1]),
                          ("nested scopes first", [x for x in enc if x.endswith("/s")] + [x for x in enc if not x.endswith("/s")]),
                          ("package scope first", [x for x in enc if x.endswith("/p")] + [x for x in enc if not x.endswith("/p")])]
                for (label, o), out in zip(orders, ctx.driver("c18", ["idx %s %s" % (",".join(o), typ) for _, o in orders])):
                    v = out.partition("=")[2]
                    model_out.setdefault("-" if v == "-" else pos_of.get(int(v), "?") if v.isdigit() else v, label)
            namesakes = [{"identifier": e[0], "at": e[1], "scope": {"x": "nil object", "n": "no parent scope (method / struct field)", "p": "package scope", "s": "nested scope"}[e[2]]}
                         for e in ents if e[0] in (typ, "Marshal" + typ)]
            if len(outcomes) > 1 and not reported:
                reported = True
                ctx.violation({"kind": "binder-lookup", "project": p, "graphql_type": gql, "go_package": pkg, "go_type": typ,
                               "outcomes_of_FindObject": outcomes, "identifiers_of_that_name_in_the_package": namesakes, "input": inputs,
                               "dimension": meta.get(p, {}), "shape": {"kind": "determinism", "site": "indexDefs"},
                               "replay": "project %s (files in `input`, directory /verif/go/genout/c18/%s): `.cache/h_c18 -mode find -dir <dir>`: fresh binders resolve %s.%s "
                                         "(bound to GraphQL type %s) to %s - the index is built by ranging over the map TypesInfo.Defs" % (
                                             p, p, pkg, typ, gql, " or ".join("%s (%s times)" % kv for kv in sorted(outcomes.items())))})
            if len(model_out) > 1 and not reported:
                reported = True
                ctx.violation({"kind": "binder-model", "project": p, "graphql_type": gql, "go_package": pkg, "go_type": typ,
                               "outcomes": [{"delivery_order_of_Defs": lab, "FindObject_returns_the_identifier_at": pos} for pos, lab in model_out.items()],
                               "identifiers_of_that_name_in_the_package": namesakes, "input": inputs,
                               "shape": {"kind": "determinism", "model": "IndexDefs"},
                               "replay": "project %s (directory go/genout/c18/%s, files in `input`): with the guards of binder.indexDefs as regenerated from codegen/config/binder.go "
                                         "(Gen/IndexDefs.lean) FindObject(%s, %s) returns the identifier at %s depending on the order in which TypesInfo.Defs is delivered "
                                         "(driver_c18 `idx`)" % (p, p, pkg, typ, " or ".join(sorted(model_out)))})
            if len(outcomes) == 1 and len(model_out) == 1:
                real = next(iter(outcomes))
                real_pos = "-" if real.startswith("ERR:") else real.partition("@")[2]
                if real_pos != next(iter(model_out)):
                    ctx.violation({"kind": "correspondence", "project": p, "what": "object returned by Binder.FindObject vs the index model over Gen/IndexDefs",
                                   "lookup": "%s.%s" % (pkg, typ), "FindObject": real, "model": next(iter(model_out)), "input": inputs,
                                   "replay": "project %s: FindObject(%s, %s) = %s; Model/IndexDefs.lean over Gen/IndexDefs.lean predicts the identifier at %s" % (
                                       p, pkg, typ, real, next(iter(model_out)))}, no_failing_input=True)

    timings["binder_lookups"] = round(time.time() - t0, 1)
    t0 = time.time()
    # ------------------------------------------------------------ templates.Render on template sets: separate processes x repeated renders,
    # and the regenerated comparator (model) on the set's names delivered in several orders vs the regions of the rendered file
    troot = os.path.join(vf.GO, "genout", "c18tpl")
    shutil.rmtree(troot, ignore_errors=True)
    tsets = [("d_" + c, t) for c, t in c18proj.load_template_corpus(os.path.join(vf.VERIF, "corpus", "C18", "_templates"))]
    tsets += c18proj.template_sets(vf.Rng(ctx.seed * 7919 + 1805), 8 if quick else 30)
    for case, t in tsets:
        for rel, text in t["files"].items():
            fp_ = os.path.join(troot, "in", case, rel)
            os.makedirs(os.path.dirname(fp_), exist_ok=True)
            open(fp_, "w").write(text)
    caller_dir = os.path.join(vf.GO, "harness", "c18", "callerdir")
    tsets.append(("callerdir", {"files": {f: open(os.path.join(caller_dir, f)).read() for f in sorted(os.listdir(caller_dir)) if not f.endswith(".go")}}))
    tplan = [(1, "dir"), (4, "map"), (16, "dir")] + ([] if quick else [(2, "map"), (8, "dir"), (3, "map")])

    def render_one(a):
        k, (procs, fsm) = a
        env = vf.go_env()
        env.update({"GOMAXPROCS": str(procs), "GOMEMLIMIT": "3GiB"})
        return vf.sh([hbin, "-mode", "render", "-tplroot", os.path.join(troot, "in"), "-fs", fsm, "-reps", "6" if quick else "12",
                      "-out", os.path.join(troot, "out%d" % k)], cwd=vf.GO, env=env, timeout=600)

    with ThreadPoolExecutor(max_workers=3) as ex:
        routs = list(ex.map(render_one, enumerate(tplan)))
    renders = {}
    for (procs, fsm), (rc, so, se) in zip(tplan, routs):
        if rc != 0:
            raise RuntimeError("h_c18 -mode render failed: " + (so + se)[-600:])
        for l in so.split("\n"):
            f = l.split("\t")
            if f[0] == "render":
                renders.setdefault(f[1], []).append({"GOMAXPROCS": procs, "fs": fsm if f[1] != "callerdir" else "caller", "rep": int(f[2]), "sha256": f[3],
                                                     "regions": f[4] if len(f) > 4 else ""})
    render_cmp = render_runs = 0
    tpl_hist = Counter()
    for case, t in tsets:
        rs = renders.get(case, [])
        if not rs:
            raise RuntimeError("no render of template set " + case)
        render_cmp += 1
        render_runs += len(rs)
        names = c18proj.template_names(t["files"])
        n_imp = len([n for n in names if n.endswith("!.gotpl") and not n.endswith("_.gotpl")])
        tpl_hist["template-set:%s important roots" % (n_imp if n_imp < 4 else "4+")] += 1
        variants = {}
        for r in rs:
            variants.setdefault((r["sha256"], r["regions"]), r)
        if len(variants) > 1:
            (ka, ra), (kb, rb) = list(variants.items())[:2]
            mismatches += 1
            ctx.violation({"kind": "render-hash-mismatch", "template_set": case, "templates": t["files"], "important_roots": n_imp,
                           "render_a": {**{k: v for k, v in ra.items() if k in ("GOMAXPROCS", "fs", "rep")}, "regions_in_file_order": ka[1].split(","), "sha256": ka[0]},
                           "render_b": {**{k: v for k, v in rb.items() if k in ("GOMAXPROCS", "fs", "rep")}, "regions_in_file_order": kb[1].split(","), "sha256": kb[0]},
                           "distinct_outputs": len(variants), "renders": len(rs),
                           "shape": {"kind": "determinism", "site": "templates.Render", "important_roots": min(n_imp, 4)},
                           "replay": "template set %s (files in `templates`, directory /verif/go/genout/c18tpl/in/%s): `.cache/h_c18 -mode render -tplroot go/genout/c18tpl/in -fs %s -out <dir>` "
                                     "(templates.Render with Options.TemplateFS, %d renders in %d processes) wrote %d different files: regions %s vs %s" % (
                                         case, case, rb["fs"], len(rs), len(tplan), len(variants), ka[1], kb[1])})
        if have_model and all(re.match(r"^[A-Za-z0-9_!.\-]+$", n) for n in names):
            rot = names[1:] + names[:1]
            imp_last = [n for n in names if not n.endswith("!.gotpl")] + [n for n in names if n.endswith("!.gotpl")][::-1]
            orders = [("as listed", names), ("reversed", names[::-1]), ("rotated", rot), ("important last, reversed", imp_last)]
            outs = ctx.driver("c18", ["roots " + (",".join(o) or "-") for _, o in orders])
            mo = {}
            for (label, _), out in zip(orders, outs):
                mo.setdefault(out, label)
            if len(mo) > 1:
                ctx.violation({"kind": "render-order-model", "template_set": case, "templates": t["files"], "template_names": names,
                               "outcomes": [{"delivery_order_of_t.Templates()": lab, "roots_executed_in_the_order": o.split(",")} for o, lab in mo.items()],
                               "shape": {"kind": "determinism", "model": "RenderOrder", "important_roots": min(n_imp, 4)},
                               "replay": "template set %s (files in `templates`, directory /verif/go/genout/c18tpl/in/%s): with the comparator of templates.Render as regenerated from "
                                         "codegen/templates/templates.go (Gen/RenderOrder.lean) the roots are executed in the order %s depending on the order in which the map "
                                         "t.Templates() delivers them (driver_c18 `roots %s`)" % (case, case, " or ".join(sorted(mo)), ",".join(names))})
            elif len(variants) == 1 and not rs[0]["sha256"] == "ERROR":
                got = rs[0]["regions"]
                if got != next(iter(mo)):
                    ctx.violation({"kind": "correspondence", "template_set": case, "what": "order of the regions of the rendered file vs the root-order model over Gen/RenderOrder",
                                   "rendered": got.split(","), "model": next(iter(mo)).split(","), "templates": t["files"],
                                   "replay": "template set %s: the rendered file has the regions %s; Model/RenderOrder.lean over Gen/RenderOrder.lean (driver_c18 `roots %s`) predicts %s" % (
                                       case, got, ",".join(names), next(iter(mo)))}, no_failing_input=True)

    timings["template_sets"] = round(time.time() - t0, 1)
    t0 = time.time()
    # ------------------------------------------------------------ round 6: name registry and start directory models
    # (b) the REAL registry (templates.ToGoModelName, `h_c18 -mode names`) vs Model/NameRegistry.lean (driver `reg`) on request
    # sequences over the colliding names of the collisions projects (sorted, reversed, shuffled, with repeats, with a name that
    # already looks like a suffixed one); every sequence has its own prefix - the registry is process-global
    reg_cmp = reg_requests = 0
    wd_cmp = 0
    if have_model:
        seqs = []
        rrng = vf.Rng(ctx.seed * 104729 + 1806)
        fams = [["FooBar", "foo_bar", "FOO_BAR", "FooBar0", "Foo_Bar"], ["UserId", "UserID", "user_id", "USER_ID"], ["Plan2", "plan_2", "PLAN_2", "Plan20", "Plan_2_0"]]
        for p in projects:
            for g in meta.get(p, {}).get("groups", []) if meta.get(p, {}).get("dimension") == "collisions" else []:
                fams.append([m["name"] for m in g] + [g[0]["name"] + "0", "Other"])
        for fam in fams[:10 if quick else 40]:
            orders = [sorted(fam), sorted(fam, reverse=True)] + [c18proj.shuffle(rrng, fam) for _ in range(2 if quick else 5)]
            orders.append(orders[-1] + c18proj.shuffle(rrng, fam)[:2])          # names asked for again
            for o in orders:
                n = len(seqs)
                tag = "Q" + "abcdefghijklmnopqrstuvwxyz"[n // 26 % 26] + "abcdefghijklmnopqrstuvwxyz"[n % 26] + "x_"
                seqs.append([tag + x for x in o])
        rc, so, se = vf.sh([hbin, "-mode", "names"], cwd=vf.GO, env=vf.go_env(), inp="".join(" ".join(q) + "\n" for q in seqs), timeout=120)
        if rc != 0:
            raise RuntimeError("h_c18 -mode names failed: " + se[-500:])
        real = [[t.split("=") for t in l.split(";")] for l in so.split("\n") if l]
        if len(real) != len(seqs):
            raise RuntimeError("h_c18 -mode names: %d answers for %d sequences" % (len(real), len(seqs)))
        outs = ctx.driver("c18", ["reg " + ";".join("%s=%s" % (k, n) for k, n, _ in r) for r in real])
        for q, r, out in zip(seqs, real, outs):
            reg_cmp += 1
            reg_requests += len(q)
            got = [a for _, _, a in r]
            if out.split(";") != got:
                ctx.violation({"kind": "correspondence", "what": "answers of templates.ToGoModelName vs Model/NameRegistry.lean", "requests": q,
                               "real": got, "model": out.split(";"), "shape": {"kind": "determinism", "model": "NameRegistry"},
                               "replay": "on an empty registry, templates.ToGoModelName asked for %s answers %s; Model/NameRegistry.lean (driver_c18 `reg`) predicts %s" % (
                                   " ".join(q), " ".join(got), out.replace(";", " "))})
                break
        # (a) Model/StartDir.lean over Gen/WorkDirReads.lean: every read made while generating sees the project root whatever the
        # start directory (the real harness refuses a run whose working directory after the load is not the project root)
        starts = sorted({r["start"] for p in projects if results[p][0] for r in results[p][0]})
        for st, out in zip(starts, ctx.driver("c18", ["wd /proj%s /proj" % ("" if st == "." else "/" + st) for st in starts])):
            wd_cmp += 1
            bad = [x for x in out.split(";") if "=" in x and x.split("=")[1] != "/proj" and ":search=" not in x]
            if bad:
                ctx.violation({"kind": "start-directory-model", "start": st, "reads": out.split(";"), "failing": getattr(ctx, "proof_failure", None),
                               "shape": {"kind": "determinism", "model": "StartDir"},
                               "replay": "Model/StartDir.lean over Gen/WorkDirReads.lean: started in <project>/%s, the read at %s sees that directory instead of the "
                                         "directory of gqlgen.yml (driver_c18 `wd /proj/%s /proj`)" % (st, bad[0].split("=")[0], st)}, no_failing_input=True)
                break
    timings["registry_and_start_dir_models"] = round(time.time() - t0, 1)
    # ------------------------------------------------------------ broken proof
    if ok_extract and not proved:
        found = any(not nf for _, nf in ctx.violations)
        if not found and have_model:
            # search the tree model (regenerated step order) for a project whose second run differs from its first
            grid = [("Todo,User,NewTodo", "Todo", 1), ("Todo,User", "Todo,User", 1), ("Todo,User,NewTodo", "Todo", 0), ("A,B,C,D", "-", 1),
                    ("A,B,C,D", "-", 0), ("A", "A", 1), ("A,B", "B", 1), ("A,B,C", "A,C", 1)]
            for (ts, hand, ab), out in zip(grid, ctx.driver("c18", ["gen2 %s %s %d" % g for g in grid])):
                a, _, b = out.partition(" second=")
                if a != "first=" + b:
                    found = True
                    ctx.violation({"kind": "regeneration-model", "schema_types": ts.split(","), "hand_written_types_in_model_package": [x for x in hand.split(",") if x != "-"],
                                   "model_package_autobound": bool(ab), "runs": out, "failing": ctx.proof_failure,
                                   "shape": {"kind": "idempotence", "model": "Regenerate"},
                                   "replay": "tree model of api.Generate with the steps in the order regenerated from api/generate.go (Gen/GenerateSteps.lean): schema types %s, "
                                             "hand-written %s in the model package, autobind=%d: %s (driver_c18 `gen2 %s %s %d`); real project with this shape: corpus/C18/autobind_model_package" % (
                                                 ts, hand, ab, out, ts, hand, ab)})
                    break
        if found:
            pass        # the concrete failing inputs above are the report
        elif sensitive:
            if not found:
                ctx.violation({"kind": "proof", "failing": ctx.proof_failure, "order_sensitive_sites": sensitive[:10],
                               "what": "a map range the rules cannot classify as order independent; %d real runs produced identical files" % total_runs,
                               "replay": "all_sites_invariant fails: %s:%d (%s ranges over %s): %s" % (
                                   sensitive[0]["file"], sensitive[0]["line"], sensitive[0]["func"], sensitive[0]["expr"], sensitive[0]["evidence"])},
                              no_failing_input=True)
        else:
            ctx.violation({"kind": "proof", "failing": ctx.proof_failure}, no_failing_input=True)

    cls = Counter(s["class"] for s in sites)
    ctx.cov.update({
        "evaluations": total_runs + order_cmp + ptr_cmp + regen_cases + regen_cmp + layout_cmp + xf_cmp + bind_lookups + render_runs + reg_cmp,
        "binder_lookup_comparisons": {"projects": bind_cmp, "lookups": bind_lookups, "lookups_with_namesakes_in_other_scopes": bind_shadowed,
                                      "fresh_binders_per_lookup": 12 if quick else 24},
        "timings_s": timings,
        "name_registry_comparisons": {"request_sequences": reg_cmp, "requests": reg_requests},
        "start_directory_model_evaluations": wd_cmp,
        "template_set_comparisons": {"sets": render_cmp, "renders": render_runs, "processes": len(tplan)},
        "per_schema_build_comparisons": {"projects": layout_cmp, "generated_files": layout_files,
                                         "projects_with_shared_base_names": len([p for p in layouts if layouts[p]["shared"] and results[p][0] is not None])},
        "extra_field_order_comparisons": {"projects": xf_cmp, "structs": xf_structs},
        "regeneration_model_comparisons": regen_cmp,
        "pointer_decision_comparisons": {"projects": ptr_cmp, "struct_fields": ptr_fields},
        "import_alias_regeneration_cases": regen_cases,
        "project_dimensions": dict(Counter(meta[p]["dimension"] for p in projects if p in meta)),
        "distinct_nontrivial": len(nontriv),
        "rule": "one evaluation = one real generation in its own process (fresh map seed) compared file-by-file (SHA-256) with the first run of the same project, or one declaration-order comparison against the order model under 4 permutations; or one project's struct fields compared with the cycle-pass model, or one import-alias regeneration case of the import-table model; non-trivial = each project (order-stress project with >8 types of every kind over 3 files, the exec probe, federation, seeded random projects of the C17 grammar, relations / imports / literals projects of checks/c18proj.py, corpus/C18)",
        "input_distribution": {**dict(branch), **dict(tpl_hist)},
        "map_range_sites": len(sites),
        "map_range_classes": dict(cls),
        "error_path_sites": len([s for s in sites if s["error_path"]]),
        "reviewed_sites": [{"file": s["file"], "func": s["func"], "why": s["evidence"][:160]} for s in sites if s["class"] == "reviewed"],
        "generation_runs": total_runs,
        "files_hashed": files_hashed,
        "hash_mismatches": mismatches,
        "declaration_order_comparisons": order_cmp,
        "projects_skipped_generation_failed": skipped[:5],
        "samples": [{"project": p, "runs": [{k: v for k, v in r.items() if k in ("GOMAXPROCS", "start", "config", "clean_tree")} for r in results[p][0]],
                     "files": len(results[p][0][0]["files"])} for p in projects[:3] if results[p][0]],
        "sampled_not_proved": ["independence from process / GOMAXPROCS / start directory", "idempotence on a generated tree"],
    })
