"""C06 - results are independent of resolver scheduling; mutation roots run serially."""
import json
from collections import Counter

from lib import vf, gensrv
from checks import c01


def root_keys(data_raw):
    d = json.JSONDecoder(object_pairs_hook=lambda kv: kv).decode(data_raw)
    return [k for k, _ in d] if isinstance(d, list) else []


def serial_violation(r, raw):
    """root mutation fields: field i+1 starts only after every invocation under field i ended"""
    keys = root_keys(raw)
    spans = []
    for k in keys:
        inv = [i for i in r["log"] if i["path"] == k or i["path"].startswith(k + "/")]
        if inv:
            spans.append((k, min(i["start"] for i in inv), max(i["end"] for i in inv)))
    for (k1, s1, e1), (k2, s2, e2) in zip(spans, spans[1:]):
        if not e1 < s2:
            return "%s [%d,%d] overlaps / follows %s [%d,%d]" % (k1, s1, e1, k2, s2, e2)
    return None


def elem_panic_schedules(ctx, b, cfg, dist, nontriv):
    """round 7: a panic that escapes the marshal function of ONE list element (a bound enum's Marshal) on its own
    goroutine, under schedules that differ in how long the recover hook takes (0 / 3 ms) and in the resolvers' delays:
    the response (data bytes, error multiset, recover count) must be the same in every repetition of the same case - the
    list may only be joined after the panicking element has been recovered AND recorded"""
    reps = 6 if ctx.tier == "quick" else 30
    cases, groups = [], []
    for n, k in ((2, 0), (3, 1), (4, 3), (6, 2)):
        for fld in ("moods", "moodsN"):
            ov = {"t": {"kind": "value"}, "t/" + fld: {"kind": "value", "len": n}}
            for j in range(n):
                ov["t/%s/%d#elem" % (fld, j)] = {"kind": "value", "str": "GRUMPY" if j == k else "SAD"}
            grp = []
            for rep in range(reps):
                cid = "elem-panic-schedule-%s-%d-of-%d-%d" % (fld, k, n, rep)
                grp.append(len(cases))
                cases.append({"id": cid, "query": "{ ok t { s %s } }" % fld, "timeoutMs": 4000,
                              "recoverDelayUs": [0, 3000, 300][rep % 3],
                              "plan": {"seed": ctx.seed, "rates": {"delay": [0, 600, 900][rep % 3], "maxDelay": 200}, "overrides": ov}})
            groups.append(grp)
    rc, so, se = vf.sh([b, "-mode", "run"], inp="\n".join(json.dumps(c) for c in cases) + "\n",
                       env={"GORACE": "halt_on_error=0 exitcode=66"}, timeout=900)
    if "WARNING: DATA RACE" in se:
        ctx.violation({"kind": "data-race", "config": cfg, "report": se[se.index("WARNING: DATA RACE"):][:6000],
                       "shape": {"race": True}, "cases": cases[:3], "replay": "printf '<cases>' | %s -mode run (race build)" % b})
    elif rc != 0:
        raise RuntimeError("runner failed on element-panic schedules rc=%s: %s" % (rc, se[-3000:]))
    res = [json.loads(l) for l in so.split("\n") if l]
    if len(res) != len(cases):
        raise RuntimeError("element-panic schedules: %d results for %d cases" % (len(res), len(cases)))

    def view(r):
        if r.get("crash") or r.get("hung") or not r.get("payloads"):
            return ("crash" if r.get("crash") else "hung" if r.get("hung") else "no-payload",)
        p = r["payloads"][0]
        return (json.dumps(p.get("data"), sort_keys=True), tuple(sorted(e["path"] + " :: " + e["message"] for e in p["errors"])), r.get("recovers"))
    for grp in groups:
        views = [view(res[i]) for i in grp]
        dist["element-marshal-panic-schedule-group"] += 1
        nontriv.add(cases[grp[0]]["id"])
        base = views[0]
        for i, v in zip(grp, views):
            if v != base:
                ctx.violation({"kind": "schedule-dependence", "config": cfg, "why": ["element-marshal-panic: the response depends on the recover hook's duration / the resolvers' delays"],
                               "case_a": cases[grp[0]], "response_a": res[grp[0]].get("payloads"), "recovers_a": res[grp[0]].get("recovers"),
                               "case_b": cases[i], "response_b": res[i].get("payloads"), "recovers_b": res[i].get("recovers"),
                               "shape": {"why": "element-marshal-panic-schedule"},
                               "replay": "echo '<case_a json>' | <generated server %s (race build)> -mode run; the same with case_b: both must give the same response" % cfg})
                break
    return len(cases)


def run(ctx):
    if getattr(ctx, "replay", None):
        from checks import execreplay
        if execreplay.replay(ctx, "C06"):
            return
    ctx.assumptions += [
        "schedules are modelled at task granularity (one task = completion of one field, at every level); finer interleavings rest on the frame theorem as an argument, not a theorem",
        "'no data race' is not a theorem (Go memory model not modelled): observed with the race detector on every run of this check",
        "adversarial schedules are induced by sleeps/yields in resolvers (random, and reversed completion order of root fields)",
    ]
    cfgs = ["base", "wl1", "wl2", "follow_funcsyn_wl2"] if ctx.tier == "quick" else ["base", "wl1", "wl2", "wl8", "follow_funcsyn_wl2", "noptr"]
    built = gensrv.build_matrix(ctx, "exec", cfgs, race=True)
    # the same schema with renamed roots (schema { query: RootQuery mutation: RootMutation })
    rn = gensrv.build_matrix(ctx, "execrn", ["base"], race=True)
    built["execrn:base"] = rn["base"]
    cfgs = list(cfgs) + ["execrn:base"]
    base_plain = gensrv.build_matrix(ctx, "exec", ["base"])
    ok_extract = not isinstance(base_plain["base"], Exception) and ctx.extract("GoBoundaries", arg=gensrv.gen_dir("exec", "base"))
    proved = ok_extract and ctx.prove(props=["GqlgenVerif.Props.C06"])
    if ok_extract and not proved:
        ctx.cov["proof_failure"] = ctx.proof_failure
    n = 400 if ctx.tier == "quick" else 4000
    dist = Counter()
    nontriv = set()
    total = 0
    divs = []
    per_cfg = {}
    samples = []
    races = 0
    # binding mode 3: an object whose fields are context-taking METHODS of a hand-written model (no resolver
    # field): user code on goroutines all the same
    try:
        built["execboom:base"] = gensrv.build_server(ctx, "execboom", "base", race=True)
    except RuntimeError as e:
        built["execboom:base"] = e
    cfgs = list(cfgs) + ["execboom:base"]
    for cfg in cfgs:
        b = built[cfg]
        if isinstance(b, Exception):
            ctx.violation({"kind": "generated-server-does-not-build", "config": cfg, "detail": str(b)[-3000:],
                           "shape": {"config": cfg, "build": "fail"}})
            continue
        schema = c01.schema_of(b)
        rc, so, se = vf.sh([b, "-mode", "gen", "-n", str(n if cfg != "execboom:base" else max(100, n // 4)), "-seed", str(ctx.seed), "-profile", "c06"],
                           env={"GORACE": "halt_on_error=0 exitcode=66"}, timeout=2400)
        if "WARNING: DATA RACE" in se:
            races += 1
            ctx.violation({"kind": "data-race", "config": cfg, "report": se[se.index("WARNING: DATA RACE"):][:6000],
                           "shape": {"race": True},
                           "replay": "%s -mode gen -n %d -seed %d -profile c06 (race build)" % (b, n, ctx.seed)})
        elif rc != 0:
            raise RuntimeError("runner failed rc=%s: %s" % (rc, se[-3000:]))
        lines = [l for l in so.split("\n") if l]
        # directed shapes (field-collection merges on concurrently resolved list elements ...), each run
        # repeatedly: a race needs two goroutines to meet
        import glob, os
        ccases = []
        for f in sorted(glob.glob(os.path.join(vf.VERIF, "corpus", "C06", "execboom" if cfg == "execboom:base" else "", "*.jsonl"))):
            ccases += [l for l in open(f).read().split("\n") if l.strip()]
        if ccases:
            reps = 15 if ctx.tier == "quick" else 100
            rc2, so2, se2 = vf.sh([b, "-mode", "run"], inp="\n".join(ccases * reps) + "\n",
                                  env={"GORACE": "halt_on_error=0 exitcode=66"}, timeout=1200)
            if "WARNING: DATA RACE" in se2:
                races += 1
                ctx.violation({"kind": "data-race", "config": cfg, "report": se2[se2.index("WARNING: DATA RACE"):][:6000],
                               "shape": {"race": True}, "cases": [json.loads(c) for c in ccases],
                               "replay": "printf '<corpus/C06 cases, %d times>' | %s -mode run (race build)" % (reps, b)})
            elif rc2 != 0:
                raise RuntimeError("runner failed on corpus rc=%s: %s" % (rc2, se2[-3000:]))
            cl = [l for l in so2.split("\n") if l]
            for l in cl:
                r0 = json.loads(l)
                dist["directed-merge-shape"] += 1
            lines += cl
        if cfg == "execboom:base":
            total += elem_panic_schedules(ctx, b, cfg, dist, nontriv)
        model = ctx.driver("c06", [schema] + lines) if proved else [None] * len(lines)
        ok = 0
        for l, m in zip(lines, model):
            r = json.loads(l)
            total += 1
            if r.get("gateErrors") or not r["payloads"]:
                continue
            raw = c01.rawdata(l)
            plan = json.loads(json.dumps(r.get("plan"))) or {}
            # response extensions registered by concurrently running resolvers: none may be lost
            want_ext = sorted(i["ext"] for i in r["log"] if i.get("ext"))
            got_ext = sorted(k for k in (r["payloads"][0].get("extKeys") or []) if k.startswith("x:"))
            if want_ext:
                dist["registers-response-extensions"] += 1
            if want_ext != got_ext:
                divs.append((cfg, r, None, ["response-extensions: registered %d, in the response %d (missing %s)" % (
                    len(want_ext), len(got_ext), sorted(set(want_ext) - set(got_ext))[:3])]))
                continue
            tags = set()
            if plan.get("extraDelay"):
                tags.add("reversed-root-completion-order")
            if any(True for _ in r["log"]) and plan.get("rates", {}).get("delay"):
                tags.add("random-delays")
            # did invocations overlap in time? (a later-started invocation ended before an earlier one)
            ends = [(i["start"], i["end"]) for i in r["log"]]
            if any(a[0] < b_[0] < a[1] for a in ends for b_ in ends):
                tags.add("overlapping-invocations")
            if r["query"].startswith("mutation"):
                tags.add("mutation")
                sv = serial_violation(r, raw)
                if sv:
                    divs.append((cfg, r, None, ["mutation-not-serial: " + sv]))
                    continue
            for t in tags:
                dist[t] += 1
            if "overlapping-invocations" in tags or "reversed-root-completion-order" in tags:
                nontriv.add(r["query"] + json.dumps(plan, sort_keys=True)[:300])
            why = []
            if r.get("crash"):
                why.append("crash")
            if r.get("hung"):
                why.append("hung")
            if m is not None:
                if not m.startswith("{"):
                    why.append("model:" + m[:40])
                    mj = m
                else:
                    mj = json.loads(m)
                    p = r["payloads"][0]
                    if mj["data"] != raw:
                        why.append("data")
                    want_errs = mj["errors"]
                    if r.get("defaultRecover"):
                        # gqlgen's own recover func answers every panic with the same text
                        want_errs = sorted(e.split(" :: ")[0] + " :: internal system error" if " :: recovered: " in e else e for e in want_errs)
                    if want_errs != sorted(e["path"] + " :: " + e["message"] for e in p["errors"]):
                        why.append("errors")
                    if mj["invs"] != sorted(i["path"] + " " + i["hook"] for i in r["log"]):
                        why.append("invocations")
            else:
                mj = None
            if why:
                divs.append((cfg, r, mj, why))
            else:
                ok += 1
            if len(samples) < 3 and "overlapping-invocations" in tags and "reversed-root-completion-order" in tags:
                samples.append({"config": cfg, "query": r["query"][:400], "extraDelay": plan.get("extraDelay"),
                                "root_keys": root_keys(raw), "invocation_spans": [(i["path"], i["start"], i["end"]) for i in r["log"]][:12]})
        per_cfg[cfg] = {"cases": len(lines), "corresponding": ok}
    for cfg, r, mj, why in divs:
        if len(ctx.violations) >= 20:
            break
        ctx.violation({"kind": "schedule-dependence", "config": cfg, "why": why, "query": r["query"],
                       "variables": r.get("variables"), "plan": r.get("plan"), "impl": r["payloads"], "model": mj,
                       "log": r["log"][:60], "shape": {"why": ",".join(sorted(w.split(":")[0] for w in why))},
                       "replay": "echo '<case json>' | <generated server %s (race build)> -mode run" % cfg})
    if ok_extract and not proved and not ctx.violations:
        ctx.violation({"kind": "proof", "failing": ctx.proof_failure}, no_failing_input=True)
    ctx.cov.update({
        "evaluations": total,
        "distinct_nontrivial": len(nontriv),
        "rule": "grammar-generated operations on race-detector builds of servers generated for worker_limit 0/1/2(/8): every resolver sleeps/yields by hash (40% of invocations, up to 300us); every third case forces root fields to complete in reverse document order; result compared with the sequential Lean model (data bytes, error multiset, invocation multiset); root mutation fields checked for serial execution from logical start/end clocks; non-trivial = invocations actually overlapped in time or the completion order was reversed",
        "input_distribution": dict(dist),
        "configs": per_cfg,
        "race_reports": races,
        "correspondence_divergences": len(divs),
        "samples": samples,
    })
