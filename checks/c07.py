"""C07 - a response depends only on its own request, not on earlier or concurrent ones."""
import json
import os
from collections import Counter
from lib import vf

PROPS = ["GqlgenVerif.Props.C07"]


def unhex(h):
    return "" if h == "-" else bytes.fromhex(h).decode("utf8", "replace")


def run(ctx):
    ctx.assumptions += [
        "encoding/json (decoding a request object into an existing *RawParams), net/url, mime, net/http are library code: their effect on RawParams is modelled (Model/ServerState.decodeBody) and tied by comparing the RawParams the executor receives (observed through a public OperationParameterMutator extension) with the model on every sequential request",
        "sync.Pool is modelled as: Get returns New() or ANY struct previously Put, Put may drop; the theorems quantify over that choice. A struct obtained by Get is owned exclusively until Put (Go runtime guarantee, not verified)",
        "gqlparser (parse + validate), SHA-256 and mapstructure are uninterpreted functions of their input in the theorems; the driver instantiates them with the results the real libraries give on the generated texts",
        "the response bytes are a deterministic function of the model's Outcome (transport, document, effective params / failure class): tied by the fresh-server oracle (status, all headers, body compared byte for byte), not proved; resolvers of the probe schema are deterministic echoes",
        "concurrent executions: the theorems hold for every interleaving of get/run/put events with the cache operations of one request taken as one step (cache methods are individually atomic and lawful); the Go memory model is not modelled - data races are only observed with -race in the thorough tier",
        "the transports' configured ResponseHeaders maps are modelled as a heap of map objects and mergeHeaders as a program over it (Model/RespHeaders; go/ast translation of its body into Gen/RespHeaders.lean is trusted, an unknown statement shape fails the extractor); determineResponseContentType is an uninterpreted function of (configured map, Accept) in the theorems; the configured maps' values ([]string) are treated as immutable; tied by the fresh-server oracle over 9 header configurations (nil / empty / without and with a Content-Type / one map object shared by all transports / different per transport) and by comparing the configured maps with a pristine copy after every request",
        "websocket / SSE / multipart transports are not exercised by this check (they never touch the pool; covered by C11/C12/C10)",
    ]
    if getattr(ctx, "replay", None):
        return replay(ctx)
    ok_extract = bool(ctx.extract("PoolReset")) and bool(ctx.extract("RespHeaders"))
    proved = bool(ok_extract) and ctx.prove(props=PROPS)
    if ok_extract and not proved:
        ctx.cov["proof_failure"] = ctx.proof_failure

    rc, so, se = ctx.harness("c07", ["-tier", ctx.tier, "-seed", ctx.seed])
    crashed = None
    if rc != 0:
        # requests in flight beside each other that write shared state without synchronisation kill the process
        # (the Go runtime's map-access check cannot be recovered); everything before the concurrent phase was flushed
        if "concurrent map" in se and "\nS\t" in "\n" + so:
            crashed = se[:se.find("goroutine ", se.find("concurrent map") + 1) + 4000] if "goroutine " in se else se[-4000:]
            so = so[:so.rfind("\n") + 1]
        else:
            raise RuntimeError("harness failed: " + se[-3000:])
    rows = [l.split("\t") for l in so.split("\n") if l]
    # corpus: minimised histories of past failures, each in a new process (responses vs fresh server only)
    corpus_rows = []
    cdir = os.path.join(vf.VERIF, "corpus", "C07")
    for fn in sorted(os.listdir(cdir)) if os.path.isdir(cdir) else []:
        hw = json.load(open(os.path.join(cdir, fn)))["history_wire"]
        path = os.path.join(vf.CACHE, "c07_hist.json")
        with open(path, "w") as f:
            json.dump(hw, f)
        rc, soc, sec = vf.sh([os.path.join(vf.CACHE, "h_c07"), "-hist", path], cwd=vf.GO, env=vf.go_env(), timeout=120)
        got = [l.split("\t") for l in soc.split("\n") if l.startswith("R\t")]
        if rc != 0 or len(got) != len(hw["reqs"]):
            raise RuntimeError("corpus replay %s failed: %s" % (fn, sec[-1000:]))
        for g in got:
            g[1], g[3] = "corpus:" + fn, "corpus"
        corpus_rows += [["S", "corpus:" + fn, hw["cfg"], "corpus"]] + got
    rows += corpus_rows
    if ctx.tier == "thorough":
        rc, so2, se = ctx.harness("c07", ["-tier", ctx.tier, "-seed", ctx.seed + 7919, "-conc-only"], race=True)
        race_report = "DATA RACE" in se or "DATA RACE" in so2
        ctx.cov["race_detector"] = "DATA RACE reported" if race_report else "no race reported"
        if rc != 0 and not race_report:
            raise RuntimeError("race harness failed: " + se[-3000:])
        rows += [l.split("\t") for l in so2.split("\n") if l and l.startswith(("R\t", "S\t"))]
        if race_report:
            ctx.violation({"kind": "race", "shape": {"race": True}, "detail": se[-6000:],
                           "replay": "go run -race ./harness/c07 -conc-only -seed %d: the race detector reports a data race between concurrently served requests" % (ctx.seed + 7919)})

    defs = [r[1] for r in rows if r[0] == "D"]
    seqs = {r[1]: r for r in rows if r[0] == "S"}
    reqs = [r for r in rows if r[0] == "R"]
    seq_reqs = [r for r in reqs if r[3] == "seq"]

    # ---------------------------------------------------------------- model side
    model = None
    if ok_extract and getattr(ctx, "driver_ok", False) and not crashed:   # (a crashed harness never printed its definitions)
        lines = list(defs)
        cur = None
        for r in rows:
            if r[0] == "P":
                lines.append("poolgc")
            if r[0] != "R" or r[3] != "seq":
                continue
            if r[1] != cur:
                cur = r[1]
                lines.append("newserver")
            lines.append("req %s %s %s %s" % (r[2], r[5], r[6], r[8]))
        lines.append("witness")
        lines.append("hdrwitness")
        outs = ctx.driver("c07", lines)
        witness, hdr_witness = outs[-2], outs[-1]
        model = [o for l, o in zip(lines, outs) if l.startswith("req ")]
        if any(o != "ok" for l, o in zip(lines, outs) if l.startswith(("def ", "pq ", "newserver", "poolgc"))):
            raise RuntimeError("driver rejected a definition line")
    else:
        witness = hdr_witness = None

    # ---------------------------------------------------------------- decide
    branch = Counter()
    nontriv = set()
    div = 0
    spec_fail = 0
    reused = 0
    hist = {}  # sid -> rows so far
    failing = []      # concrete failing inputs (Spec evaluated on the implementation's own output fails)
    suspicious = []   # correspondence / model-side findings without an observed wrong response
    mi = 0

    for r in reqs:
        sid, idx, mode, cfg, apq_hit, qc_hit, re_used, enc, obs, verdict, extra, tags, reqtxt, resp, orc, wire = r[1:17]
        hist.setdefault(sid, []).append(r)
        cls = obs.split(" ")[0]
        branch[mode + ":" + cls] += 1
        for t in tags.split(","):
            if t:
                branch["tag:" + t] += 1
        if qc_hit == "1":
            branch["query-cache-hit"] += 1
        if apq_hit == "1":
            branch["apq-hit"] += 1
        if re_used == "1":
            reused += 1
        if idx != "0" or mode == "conc":
            nontriv.add((enc, cls, apq_hit, qc_hit, len(hist[sid]) > 1))
        shape = {"class": cls.split(":")[0], "transport": enc.split(" ")[0]}
        where = "%s history %s (%s, caches %s), request #%s" % (mode, sid, seqs.get(sid, ["", "", "", "?"])[3], cfg, idx)
        rows = list(hist[sid])
        # (1) Spec on the implementation's own output: the fresh-server oracle
        if verdict != "ok":
            spec_fail += 1
            failing.append({"kind": "response-depends-on-history", "shape": shape, "where": where, "rows": rows, "mode": mode, "cfg": cfg,
                            "request": reqtxt, "response": resp, "fresh_server_response": orc})
        # (2) cached documents never change, caches answer lawfully
        if extra != "-":
            spec_fail += 1
            what = "; ".join("%s: %s" % (part.partition(":")[0], unhex(part.partition(":")[2]).replace("\x00", " | ")) for part in extra.split(" "))
            failing.append({"kind": "shared-state-corrupted", "shape": {"class": "config" if "config-mutated:" in extra else "cache", "transport": enc.split(" ")[0]}, "where": where, "rows": rows,
                            "mode": mode, "cfg": cfg, "request": reqtxt, "what": what})
        # (3) correspondence with the model (sequential histories)
        if mode == "seq" and model is not None:
            m = model[mi] if mi < len(model) else "missing"
            mi += 1
            mobs, _, mspec = m.partition(" | ")
            if mobs != obs:
                div += 1
                suspicious.append({"kind": "correspondence", "shape": shape, "where": where, "rows": rows, "mode": mode, "cfg": cfg, "request": reqtxt,
                                   "implementation": obs, "model": mobs, "response": resp, "fresh_server_response": orc,
                                   "replay": "Model/ServerState and the implementation disagree on what the executor received / did for the last request of `history`"})
            elif "spec=same" not in mspec or "poolzero=1" not in mspec:
                div += 1
                suspicious.append({"kind": "model-predicts-leak", "shape": shape, "where": where, "rows": rows, "mode": mode, "cfg": cfg, "request": reqtxt, "model": m,
                                   "replay": "the model configured from the current source says the last response of `history` / the pooled structs depend on the history"})

    def wire_of(rows):
        return [json.loads(unhex(x[16])) for x in rows]

    def rerun(cfg, wires):
        """serve a history on one new server in a new process; returns the R rows"""
        path = os.path.join(vf.CACHE, "c07_hist.json")
        with open(path, "w") as f:
            json.dump({"cfg": cfg, "reqs": wires}, f)
        rc, so, se = vf.sh([os.path.join(vf.CACHE, "h_c07"), "-hist", path], cwd=vf.GO, env=vf.go_env(), timeout=120)
        return [l.split("\t") for l in so.split("\n") if l.startswith("R\t")]

    def last_fails(cfg, wires, kind):
        rr = rerun(cfg, wires)
        if not rr or len(rr) != len(wires):
            return False, rr
        return (rr[-1][10] != "ok") if kind == "response-depends-on-history" else (rr[-1][11] != "-"), rr

    def finalize(v):
        rows = v.pop("rows")
        mode, cfg = v.pop("mode"), v.pop("cfg")
        wires = wire_of(rows)
        if mode in ("seq", "corpus") and v["kind"] in ("response-depends-on-history", "shared-state-corrupted"):
            # shrink: drop earlier requests while the last one still fails (each attempt in a new process)
            ok, rr = last_fails(cfg, wires, v["kind"])
            if ok:
                i = len(wires) - 2
                while i >= 0:
                    cand = wires[:i] + wires[i + 1:]
                    ok2, rr2 = last_fails(cfg, cand, v["kind"])
                    if ok2:
                        wires, rr = cand, rr2
                    i -= 1
                v["response"], v["fresh_server_response"] = rr[-1][14], rr[-1][15]
                v["minimised"] = True
            else:
                v["minimised"] = False  # did not reproduce in a new process (pool scheduling): full history kept
        v["history"] = ["%s %s%s %s body=%s" % (w["method"], "/graphql", ("?" + w["rawURL"]) if w["rawURL"] else "", json.dumps(w["hdrs"], sort_keys=True), w["body"]) for w in wires]
        v["history_wire"] = {"cfg": cfg, "reqs": wires}
        if mode == "conc":
            v["replay"] = "the requests of `history` were served concurrently (8 goroutines) by one handler.Server; the last listed one was answered `response`, a freshly constructed server answers `fresh_server_response`"
        v.setdefault("replay", "serve the requests of `history` in order on one handler.Server (query cache/APQ cache: %s); the last one is answered `response`, a freshly constructed server answers it with `fresh_server_response` (./bin/check C07 --replay <this file>)" % cfg)
        return v

    if crashed:
        ctx.cov["harness_crash"] = crashed[:2000]
        if not failing:
            ctx.violation({"kind": "race", "shape": {"race": True, "class": "concurrent-map-access"}, "detail": crashed,
                           "replay": "go run ./harness/c07 -seed %d: requests served concurrently by one handler.Server access a shared map without synchronisation (Go runtime: fatal error, concurrent map access) - state shared between requests in flight beside each other; see `detail` for the goroutine that writes" % ctx.seed})
    if not proved and ok_extract:
        for v in failing + suspicious:
            v["unproved"] = ctx.proof_failure
            if hdr_witness not in ("none", None):
                v["model_header_witness"] = hdr_witness
    failing.sort(key=lambda v: v["kind"] != "response-depends-on-history")   # stable: wrong responses first
    for v in failing[:3]:
        ctx.violation(finalize(v))
    if not failing:
        corr = [v for v in suspicious if v["kind"] == "correspondence"][:2]
        for v in corr or suspicious[:1]:
            ctx.violation(finalize(v), no_failing_input=True)
        if ok_extract and not proved:
            ctx.violation({"kind": "proof", "failing": ctx.proof_failure, "model_witness": witness, "model_header_witness": hdr_witness,
                           "replay": "a theorem of Props/C07.lean no longer checks against the regenerated Gen/PoolReset.lean / Gen/RespHeaders.lean (model_witness: field whose reset the model found missing; model_header_witness: configured ResponseHeaders and pair of Accept headers on which the regenerated mergeHeaders program makes the second answer depend on the first); no request history with a response different from a fresh server's was found"},
                          no_failing_input=True)
        elif proved and witness not in ("none", None):
            ctx.violation({"kind": "model-witness", "model_witness": witness}, no_failing_input=True)
        elif proved and hdr_witness not in ("none", None):
            ctx.violation({"kind": "model-witness", "model_header_witness": hdr_witness}, no_failing_input=True)

    ctx.cov.update({
        "evaluations": len(reqs),
        "distinct_nontrivial": len(nontriv),
        "rule": "request histories against one handler.Server (GET, POST, urlencoded, application/graphql transports; query cache and APQ cache each map / LRU(1|2|1000) / none; the transports' ResponseHeaders option in 9 configurations: nil, empty, CORS-only per transport / one shared map object, several keys shared, explicit Content-Type canonical / lower-case / graphql-response shared, different per transport): directed histories (for every RawParams field 'set it, then omit / null it', after decode errors, null bodies, every APQ flow incl. eviction, same text under different operationName / variables, invalid documents twice, same text over every transport; for every header configuration a history over all transports whose Accept headers negotiate alternating media types, forwards and reversed, incl. parse/validation/decode errors whose status depends on the media type) + seeded random histories (structured bodies: optional members present/absent/null/mistyped, duplicate and case-variant keys, 20 query texts incl. invalid ones, malformed-body stream) + concurrent batches (8 goroutines). Every response (status, all headers, body) is compared with a freshly constructed server's answer to that request alone (same configuration newly built, pool emptied, no query cache); the configured header maps are compared with a pristine copy after every request. Non-trivial = distinct (request, outcome class, cache hits) that is not the first request of its history",
        "input_distribution": dict(branch),
        "histories": len(seqs),
        "sequential_requests": len(seq_reqs),
        "concurrent_requests": sum(1 for r in reqs if r[3] == "conc"),
        "corpus_requests": sum(1 for r in reqs if r[3] == "corpus"),
        "pool_struct_reused": reused,
        "correspondence_divergences": div,
        "oracle_or_cache_failures": spec_fail,
        "traces_validated_against_impl": len(seq_reqs) if model is not None else 0,
        "model_witness_search": witness,
        "model_header_witness_search": hdr_witness,
        "header_configurations": dict(Counter(s[2].split("/")[2] if s[2].count("/") >= 2 else "none" for s in seqs.values())),
        "samples": [{"history": seqs[r[1]][3], "request": r[13], "implementation": r[9], "response": r[14]} for r in (reqs[1], reqs[len(reqs) // 3], reqs[len(reqs) // 2], reqs[-1])],
    })


def replay(ctx):
    """./bin/check C07 --replay <file>: serve the recorded history against the current tree again"""
    rep = json.load(open(ctx.replay))
    hw = rep.get("history_wire")
    if not hw:
        raise RuntimeError("replay file carries no request history (it names a theorem / correspondence instead)")
    ctx.go_build("./harness/c07", os.path.join(vf.CACHE, "h_c07"))
    path = os.path.join(vf.CACHE, "c07_hist.json")
    with open(path, "w") as f:
        json.dump(hw, f)
    rc, so, se = vf.sh([os.path.join(vf.CACHE, "h_c07"), "-hist", path], cwd=vf.GO, env=vf.go_env(), timeout=300)
    rows = [l.split("\t") for l in so.split("\n") if l.startswith("R\t")]
    ctx.cov.update({"evaluations": len(rows), "distinct_nontrivial": len(rows), "rule": "replay of one recorded history", "obligations": 0, "discharged": 0,
                    "samples": [r[13] for r in rows[-2:]]})
    ctx.level = "exploration"
    bad = [r for r in rows if r[10] != "ok" or r[11] != "-"]
    if bad:
        r = bad[-1]
        ctx.violation({"kind": "replay", "shape": rep.get("shape", {}), "history_wire": hw, "request": r[13], "response": r[14], "fresh_server_response": r[15],
                       "replay": "replayed history still answers differently from a fresh server"})
