"""C19 - regeneration never loses user-written resolver code.

extract (Gen/RewriteOffsets, Gen/PruneFacts) -> prove (Props/C19, Props/C19Prune) -> harness (real api.Generate on scratch projects: random
resolver files x schema evolutions x both layouts x repeated regeneration) -> Lean driver (model prediction
`regen`, Spec verdict `chk` on the implementation's own output) -> diff -> decide.
"""
import hashlib
import os
import json
import re
from collections import Counter

DIRECTIVE = re.compile(r"^//(line |extern |export |[a-z0-9]+:[a-z0-9])")
AMBIENT = {
    "context": "context", "fmt": "fmt", "io": "io", "strconv": "strconv", "time": "time", "sync": "sync",
    "errors": "errors", "bytes": "bytes", "github.com/vektah/gqlparser/v2": "gqlparser",
    "github.com/vektah/gqlparser/v2/ast": "ast", "github.com/99designs/gqlgen/graphql": "graphql",
    "github.com/99designs/gqlgen/graphql/introspection": "introspection",
}


FALLBACK_GEN = """/- FALLBACK written by checks/c19.py because the extractor did not recognise the source. Spec evaluation only. -/
namespace GqlgenVerif.Gen.RewriteOffsets
inductive TrailerMode
  | blockAlways
  | lineWhenBlockEnd
  deriving DecidableEq, Repr
inductive AliasOmitRule
  | suffixOnly
  | suffixAndName
  deriving DecidableEq, Repr
def bodyStartOff : Nat := 1
def bodyEndOff : Nat := 1
def skipCopied : Bool := true
def skipToks : List String := ["IMPORT"]
def declSep : String := "\\n"
def trimRemaining : Bool := true
def trailerMode : TrailerMode := .lineWhenBlockEnd
def aliasOmitRule : AliasOmitRule := .suffixAndName
inductive NameHelper
  | lcFirst
  | ucFirst
  | toGo
  | toGoPrivate
  | title
  deriving DecidableEq, Repr
def lookupRecvSingle : NameHelper := .lcFirst
def lookupRecvFollow : NameHelper := .lcFirst
def markStructSingle : NameHelper := .lcFirst
def markStructFollow : NameHelper := .lcFirst
def lookupAccessorSingle : NameHelper := .title
def lookupAccessorFollow : NameHelper := .title
def emitRecv : NameHelper := .lcFirst
def emitAccessor : NameHelper := .ucFirst
def emitAccessorRet : NameHelper := .lcFirst
def emitStruct : NameHelper := .lcFirst
end GqlgenVerif.Gen.RewriteOffsets
"""


FALLBACK_RESERVE = """/- FALLBACK written by checks/c19.py because the extractor did not recognise Reserve / getFile. Spec evaluation only. -/
namespace GqlgenVerif.Gen.ReserveFacts
inductive CollisionKey
  | alias
  | name
  deriving DecidableEq, Repr
def collisionKey : CollisionKey := .alias
def collisionExempt : List String := ["_", "."]
inductive CacheForm
  | raw
  | crlfToLf
  deriving DecidableEq, Repr
def cacheForm : CacheForm := .raw
end GqlgenVerif.Gen.ReserveFacts
"""

FALLBACK_PRUNE = """/- FALLBACK written by checks/c19.py because the extractor did not recognise internal/imports/prune.go. Spec evaluation only. -/
namespace GqlgenVerif.Gen.PruneFacts
def parseFlags : List String := ["ParseComments", "AllErrors"]
def skipResolvedBase : Bool := true
def dropsUsed : Bool := true
def neverUnused : List String := ["_", "."]
end GqlgenVerif.Gen.PruneFacts
"""


def lc_first(s):
    return s[:1].lower() + s[1:]


def uc_first(s):
    return s[:1].upper() + s[1:]


def local(i):
    return i["alias"] or i["pkg"]


def strip_lines(t):
    return "\n".join(l.rstrip() for l in t.strip().split("\n"))


def expected_decls(pf):
    """declaration sequence the model predicts for one rendered file"""
    out = []
    if pf["hasRoot"]:
        out.append(("gen", "TYPE", "Resolver"))
    for m in pf["methods"]:
        out.append(("func", m["recv"], m["name"], m["namedV"], m["namedE"], m["impl"].strip(),
                    (m["doc"] + "\n") if m["doc"] else ""))
    for a in pf["accessors"]:
        out.append(("func", "Resolver", a))
    for t in pf["structs"]:
        out.append(("gen", "TYPE", t))
    return out


def squeeze_bodies(ds):
    return [tuple(re.sub(r"\s+", "", x) if i == 5 else x for i, x in enumerate(d)) for d in ds]


def observed_decls(af, pf):
    out = []
    methods = {(m["recv"], m["name"]) for m in pf["methods"]}
    for d in af["decls"]:
        if d["kind"] == "gen":
            if d["tok"] == "IMPORT":
                continue
            out.append(("gen", d["tok"], d["name"]))
        elif (d["recv"], d["name"]) in methods:
            out.append(("func", d["recv"], d["name"], d["namedV"], d["namedE"], d["canon"], d["doc"]))
        else:
            out.append(("func", d["recv"], d["name"]))
    return out


def compare(o, pred):
    """model prediction vs implementation output; returns a list of divergence descriptions"""
    div = []
    before = {f["name"]: f for f in o["before"]}
    after = {f["name"]: f for f in o["after"]}
    names = [p["name"] for p in pred]
    for pf in pred:
        af = after.get(pf["name"])
        if af is None:
            div.append({"what": "file-not-written", "file": pf["name"]})
            continue
        if not af["parseOK"] or not pf["validTail"]:
            if af["parseOK"] != pf["validTail"]:
                div.append({"what": "validity", "file": pf["name"], "model_valid": pf["validTail"], "impl_parses": af["parseOK"],
                            "parse_error": af.get("parseErr", "")})
            continue
        e, g = expected_decls(pf), observed_decls(af, pf)
        if e != g and squeeze_bodies(e) == squeeze_bodies(g):
            # the model does not model gofmt: a body typed without gofmt comes back re-indented
            o.setdefault("_notes", []).append("gofmt-normalised-body")
            e = g
        if e != g:
            k = next((i for i in range(min(len(e), len(g))) if e[i] != g[i]), min(len(e), len(g)))
            div.append({"what": "declarations", "file": pf["name"], "index": k,
                        "model": e[k] if k < len(e) else None, "impl": g[k] if k < len(g) else None})
        if pf["remMode"] != af["remMode"]:
            div.append({"what": "warning-block-mode", "file": pf["name"], "model": pf["remMode"], "impl": af["remMode"]})
        elif strip_lines(pf["remaining"]) != strip_lines(af["remaining"]):
            div.append({"what": "leftover-text", "file": pf["name"], "model": pf["remaining"], "impl": af["remaining"]})
        ei = sorted((i["local"], i["path"]) for i in pf["pruned"])
        gi = sorted((local(i), i["path"]) for i in af["imports"])
        if ei != gi:
            div.append({"what": "imports", "file": pf["name"], "model": ei, "impl": gi})
    for n, af in after.items():
        if n in names:
            continue
        bf = before.get(n)
        if bf is None:
            if not (o["layout"] == "follow" and n == "resolver.go" and [(d["kind"], d["name"]) for d in af["decls"]] == [("gen", "Resolver")]):
                div.append({"what": "unexpected-new-file", "file": n})
        elif bf["sha"] != af["sha"]:
            div.append({"what": "untouched-file-changed", "file": n})
    for n in before:
        if n not in after:
            div.append({"what": "file-deleted", "file": n})
    return div


def find_decl(files, fname, idx):
    for f in files:
        if f["name"] == fname:
            return f["decls"][idx] if idx < len(f["decls"]) else None
    return None


def first_match(files, recv, name):
    for f in files:
        for d in f["decls"]:
            if d["kind"] == "func" and d["recv"] == recv and d["name"] == name:
                return f, d
    return None, None


def classify(o, v, pred):
    """turn a Spec violation into a replay object with a `shape` (specific enough for known_findings matching)"""
    kind = v["kind"]
    shape = {"kind": kind}
    inp = {}
    if kind == "not-valid-go":
        left = [p for p in pred if p["name"] == v["file"]]
        rem = left[0]["remaining"] if left else ""
        shape["cause"] = "leftover-contains-block-comment-end" if "*/" in rem else "other"
        af = [f for f in o["after"] if f["name"] == v["file"]]
        inp = {"file": v["file"], "leftover": rem, "parse_error": af[0].get("parseErr", "") if af else "",
               "written_file": (o.get("raw") or {}).get(v["file"], "")[:4000],
               "file_before": [d["hdr"] + ("{" + d["inner"] + "}" if d["hasBody"] else "") for f in o["before"] if f["name"] == v["file"] for d in f["decls"]]}
    elif kind == "method":
        f, d = first_match(o["before"], v["recv"], v["name"])
        shape["what"] = v["what"]
        cause = "other"
        if v["what"] == "doc" and d is not None:
            lines = d["rawDoc"].split("\n")
            if any(DIRECTIVE.match(l) for l in lines):
                cause = "directive-line"
            elif d["doc"].startswith("\\"):
                cause = "leading-backslash"
        shape["cause"] = cause
        # which GraphQL type the receiver belongs to, and what the name helpers make of that type name
        owner = [n for n in o.get("names", []) if v["recv"] in (n["lcFirst"] + "Resolver", n["goPrivate"] + "Resolver")]
        if owner and cause == "other" and len({owner[0]["lcFirst"], owner[0]["goPrivate"]}) > 1:
            cause = "type-name-mangled-differently-by-LcFirst-and-ToGoPrivate"
        shape["cause"] = cause
        g, e = first_match(o["after"], v["recv"], v["name"])
        inp = {"file": f["name"] if f else None, "method": "%s.%s" % (v["recv"], v["name"]),
               "graphql_type": owner[0] if owner else None,
               "doc": d["rawDoc"] if d else None, "body": d["inner"] if d else None,
               "named": [d["namedV"], d["namedE"]] if d else None,
               "regenerated_as": ({"file": g["name"], "doc": e["rawDoc"], "body": e["inner"], "named": [e["namedV"], e["namedE"]]} if e else None),
               "user_body_now_in_warning_block_of": [a["name"] for a in o["after"] if d and d["inner"].strip() and d["inner"].strip() in a.get("remaining", "")],
               "schema": [{"type": x["name"], "file": x["file"], "resolver_fields": [y["name"] for y in x["fields"] if y["isResolver"]]} for x in o["schema"]]}
    elif kind == "import-lost":
        bf = [f for f in o["before"] if f["name"] == v["file"]][0]
        imp = [i for i in bf["imports"] if i["path"] == v["path"] and i["alias"] == v["alias"]][0]
        n = local(imp)
        others = [i for i in bf["imports"] if i is not imp]
        if imp["path"] in AMBIENT and AMBIENT[imp["path"]] != n:
            cause = "alias-on-a-path-the-template-reserves"
        elif n in AMBIENT.values() and imp["path"] not in AMBIENT:
            cause = "name-taken-by-a-template-import"
        elif imp["alias"] and imp["path"].endswith(imp["alias"]) and imp["alias"] != imp["pkg"]:
            cause = "alias-is-suffix-of-path"
        elif imp["alias"] and imp["alias"] != imp["pkg"] and (imp["pkg"] in AMBIENT.values() or any(local(i) == imp["pkg"] for i in others)) \
                and n not in AMBIENT.values() and not any(i["path"] == imp["path"] or local(i) == n for i in others):
            # `goast "go/ast"`, `mrand "math/rand"` beside "crypto/rand": the alias is free, only the package's real name is taken
            cause = "aliased-import-whose-package-name-is-taken"
        elif n in ("_", ".") and any(local(i) == n for i in others) and not any(i["path"] == imp["path"] for i in others):
            # `_ "embed"` + `_ "image/png"`: imports that bind no name are treated as if they all claimed the name `_` / `.`
            cause = "second-blank-or-dot-import"
        elif any(i["path"] == imp["path"] for i in others) and not any(local(i) == n for i in others):
            cause = "same-path-imported-twice"   # `"os"` + `xos "os"`, both names used
        elif any(i["path"] == imp["path"] or local(i) == n for i in others):
            cause = "clashes-with-another-user-import"
        else:
            cause = "other"
        shape["cause"] = cause
        inp = {"file": v["file"], "import": ("%s %s" % (imp["alias"], json.dumps(imp["path"]))).strip()}
    elif kind == "unused-import":
        af = [f for f in o["after"] if f["name"] == v["file"]][0]
        imp = [i for i in af["imports"] if i["path"] == v["path"] and i["alias"] == v["alias"]][0]
        n = local(imp)
        bases = [x for x in af.get("sels", []) if x["name"] == n]
        if bases and all(x["resolved"] for x in bases):
            cause = "name-only-used-as-a-local-or-parameter"   # `time.Zone` with `time` a parameter / local of the body
        elif not bases:
            cause = "name-not-mentioned"
        else:
            cause = "other"
        shape["cause"] = cause
        shape["reserved_by_template"] = imp["path"] in AMBIENT
        users = []
        for d in af["decls"]:
            if d["kind"] == "func" and d["hasBody"] and re.search(r"(?<![\w.])%s\.\w" % re.escape(n), d["inner"]):
                users.append({"method": "%s.%s" % (d["recv"], d["name"]), "signature": d["hdr"].strip(), "body": d["inner"][:1500]})
        inp = {"file": v["file"], "import": ("%s %s" % (imp["alias"], json.dumps(imp["path"]))).strip(),
               "go_says": "%s imported and not used" % json.dumps(imp["path"]),
               "selectors_on_that_name": users[:4], "generator_error": o["genErr"][:600],
               "schema": [{"type": x["name"], "file": x["file"], "resolver_fields": [y["name"] for y in x["fields"] if y["isResolver"]]} for x in o["schema"]]}
    elif kind == "decl-lost":
        d = find_decl(o["before"], v["file"], v["idx"])
        objs = [x["name"] for x in o["schema"] if any(f["isResolver"] for f in x["fields"])]
        boiler = d is not None and (
            (d["kind"] == "func" and d["recv"] == "Resolver" and d["name"] in [uc_first(x) for x in objs]) or
            (d["kind"] == "gen" and d["tok"] == "TYPE" and d["name"] in [lc_first(x) + "Resolver" for x in objs]))
        # "modified" = the text differs from what the template itself writes for that declaration
        sq = lambda t: re.sub(r"\s+", "", t)
        src = (d["hdr"] + ("{" + d["inner"] + "}" if d["hasBody"] else "")) if d else ""
        pristine = [sq("type %sResolver struct{ *Resolver }" % lc_first(x)) for x in objs] + \
                   [sq("func (r *Resolver) %s() %sResolver { return &%sResolver{r} }" % (uc_first(x), uc_first(x), lc_first(x))) for x in objs]
        shape["cause"] = "generated-boilerplate-modified" if boiler and sq(src) not in pristine else "other"
        inp = {"file": v["file"], "declaration": (d["hdr"] + ("{" + d["inner"] + "}" if d["hasBody"] else "")) if d else None}
    else:
        inp = dict(v)
    return shape, inp


def run(ctx):
    ctx.assumptions += [
        "go/parser, go/printer, x/tools/imports and text/template are library code: the model works on declarations with their source text as go/parser delimits them; re-parsing of the written file (`reparse`) is modelled and tied by the correspondence run only",
        "go/ast CommentGroup.Text() (what GetMethodComment returns) is an input of the model (field `doc`), not modelled",
        "Go's type checker is not modelled: `compiles after an add-only change` is proved structurally (every method, named result and import survives, nothing is left over) and sampled through api.Generate's own package validation",
        "templates.ToGo / gqlparser / codegen.BuildData produce the object list the model takes as Schema' (computed independently by the harness and confirmed by the declaration-sequence comparison)",
        "templates.ToGo / ToGoPrivate / cases.Title are not modelled: their values for every type name are inputs of the model (Cfg.names, computed by the harness with the real functions); WHICH helper is applied where is regenerated from resolver.go / resolver.gotpl; LcFirst / UcFirst are computed by the model (ASCII) and tied by the declaration-sequence comparison",
        "type names with a leading underscore are not generated (gqlgen's own generated.go does not compile for them: ResolverRoot declares ucFirst(name)(), the executor calls cases.Title(name)()); input-object resolvers, custom resolver templates, preserve_resolver and ResolverImplementer plugins are outside the model",
    ]
    ok_offsets = ctx.extract("RewriteOffsets")
    ok_prune = ctx.extract("PruneFacts")
    ok_reserve = ctx.extract("ReserveFacts")
    ok_extract = ok_offsets and ok_prune and ok_reserve
    proved = ok_extract and ctx.prove(props=["GqlgenVerif.Props.C19", "GqlgenVerif.Props.C19Prune"])
    if ok_extract and not proved:
        ctx.cov["proof_failure"] = ctx.proof_failure
    spec_only = False
    if not ok_extract:
        # the source no longer has a shape the translator knows: the regenerated tie is broken (already
        # recorded by ctx.extract). To still look for a failing input, build the driver over the last known
        # constants and judge the implementation's output by the Spec alone (no model prediction).
        from lib import vf
        if not ok_offsets:
            with open(os.path.join(vf.LEAN, "GqlgenVerif", "Gen", "RewriteOffsets.lean"), "w") as f:
                f.write(FALLBACK_GEN)
        if not ok_prune:
            with open(os.path.join(vf.LEAN, "GqlgenVerif", "Gen", "PruneFacts.lean"), "w") as f:
                f.write(FALLBACK_PRUNE)
        if not ok_reserve:
            with open(os.path.join(vf.LEAN, "GqlgenVerif", "Gen", "ReserveFacts.lean"), "w") as f:
                f.write(FALLBACK_RESERVE)
        rc, so, se = vf.sh(["lake", "build", "driver_c19"], cwd=vf.LEAN, timeout=1800)
        ctx.driver_ok = rc == 0
        ctx.cov.setdefault("obligations", 0)
        ctx.cov.setdefault("discharged", 0)
        spec_only = True

    args = ["-tier", ctx.tier, "-seed", ctx.seed]
    if os.environ.get("VERIF_C19_ONLY"):   # development aid: comma-separated case kinds (directed names, `random`)
        args += ["-only", os.environ["VERIF_C19_ONLY"]]
    rc, so, se = ctx.harness("c19", args, timeout=2400)
    if rc != 0:
        raise RuntimeError("harness failed: " + se[-3000:])
    obs = [json.loads(l) for l in so.split("\n") if l.strip()]
    notes = [o for o in obs if o.get("note")]
    steps = [o for o in obs if not o.get("note")]
    for o in notes:
        # the harness itself could not run the case (its edit did not parse, worker crashed, ...)
        ctx.violation({"kind": "harness", "what": o["note"][:2000], "case": o["case"], "case_kind": o["kind"], "seed": o["seed"]},
                      no_failing_input=True)

    have_driver = getattr(ctx, "driver_ok", False)
    lines = []
    for o in steps:
        slim = {"layout": o["layout"], "omitTemplateComment": o.get("omitTemplateComment", False),
                "before": o["before"], "schema": o["schema"], "after": o["after"], "names": o.get("names", [])}
        js = json.dumps(slim)
        lines.append("regen " + js)
        lines.append("chk " + js)
    outs = ctx.driver("c19", lines, timeout=2400) if have_driver else None

    branch = Counter()
    nontriv = set()
    ndiv = 0
    nviol = 0
    samples = []
    prev_ok = {}
    mangled_types = set()
    gen_facts = json.loads(ctx.driver("c19", ["gen"])[0]) if have_driver else {}
    for k, o in enumerate(steps):
        pred = json.loads(outs[2 * k]) if outs else []
        viol = json.loads(outs[2 * k + 1]) if outs else []
        replay = "VERIF_SEED=%s ./bin/check C19 --tier %s  (case %d kind=%s layout=%s step %d ops=%s)" % (
            ctx.seed, ctx.tier, o["case"], o["kind"], o["layout"], o["step"], "; ".join(o["ops"] or []))
        # ---- coverage bookkeeping
        branch["layout:" + o["layout"]] += 1
        if o.get("omitTemplateComment"):
            branch["omit_template_comment"] += 1
        for op in o["ops"] or []:
            branch["op:" + op.split(" ")[0]] += 1
        if o["kind"] != "random":
            branch["directed:" + o["kind"]] += 1
        # name-mangling classes of the object types that have a user-written resolver body in this step
        impl_recv = {d["recv"] for f in o["before"] for d in f["decls"] if d["kind"] == "func" and d["hasBody"] and d["recv"].endswith("Resolver")
                     and d["recv"] != "Resolver" and "not implemented" not in d["inner"]}
        for n in o.get("names", []):
            if n["lcFirst"] + "Resolver" not in impl_recv:
                continue
            cls = []
            if n["lcFirst"] != n["goPrivate"]:
                cls.append("LcFirst!=ToGoPrivate")
            if n["ucFirst"] != n["goPublic"]:
                cls.append("UcFirst!=ToGo")
            if "_" in n["name"]:
                cls.append("underscore")
            if n["name"][:1].islower():
                cls.append("leading-lower-case")
            if any(c.isdigit() for c in n["name"]):
                cls.append("digit")
            if len(n["name"]) == 1:
                cls.append("single-letter")
            for c in cls or ["ordinary"]:
                branch["implemented-type-name:" + c] += 1
            if cls:
                mangled_types.add(n["name"])
        edited = [d for f in o["before"] for d in f["decls"] if d["kind"] == "func" and d["hasBody"] and d["recv"].endswith("Resolver")
                  and d["recv"] != "Resolver" and "not implemented" not in d["inner"]]
        left = [p for p in pred if p["remaining"]]
        if left:
            branch["leftover:" + "+".join(sorted({p["remMode"] for p in left}))] += 1
        if any(m["hasPrev"] and (m["namedV"] or m["namedE"]) for p in pred for m in p["methods"]):
            branch["named-results-carried"] += 1
        if any(f["name"] not in [p["name"] for p in pred] and f["name"].endswith(".resolvers.go") for f in o["before"]):
            branch["stale-resolver-file"] += 1
        moved = 0
        for p in pred:
            for m in p["methods"]:
                f, d = first_match(o["before"], m["recv"], m["name"])
                if d is not None and f["name"] != p["name"]:
                    moved += 1
        if moved:
            branch["method-moved-between-files"] += 1
        # identifiers that shadow a package the template reserves: per regenerated file, the reserved names that occur as
        # the base of a selector bound inside the file (parameter / local / ...), alone or next to a genuine package use
        for f in o["after"]:
            res = {x["name"] for x in f.get("sels", []) if x["resolved"] and x["name"] in AMBIENT.values()}
            gen = {x["name"] for x in f.get("sels", []) if not x["resolved"]}
            for n in sorted(res):
                branch["shadowed-reserved-name:" + n] += 1
            if res - gen:
                branch["file-with-shadowed-name-only"] += 1
            if res & gen:
                branch["file-with-shadowed-name-and-genuine-use"] += 1
        if any(re.search(r"\b(%s) \*?ShadowIn\b" % "|".join(AMBIENT.values()), d["hdr"]) and "not implemented" not in d["inner"]
               for f in o["before"] for d in f["decls"] if d["kind"] == "func" and d["hasBody"]):
            branch["implemented-method-with-parameter-named-like-reserved-package"] += 1
        unform = sum(1 for f in o["before"] for d in f["decls"] if d["kind"] == "func" and d["hasBody"] and d["canon"] != d["inner"].strip())
        if unform:
            branch["before-not-gofmt-ed"] += 1
        if edited and (left or moved or (o["ops"] and o["ops"] != ["repeat"] and o["ops"] != ["initial"])):
            nontriv.add(hashlib.sha256(json.dumps([o["before"], o["schema"]], sort_keys=True).encode()).hexdigest())
        if len(samples) < 3 and edited and left and o["kind"] == "random":
            samples.append({"case": o["case"], "layout": o["layout"], "step": o["step"], "ops": o["ops"],
                            "a_user_body": edited[0]["inner"][:400], "leftover_of": left[0]["name"], "leftover": left[0]["remaining"][:400],
                            "spec_violations": viol})
        # ---- aborted generation (nothing was written): the model has nothing to compare with
        aborted = o["genErr"] and not o["genErr"].startswith("validation failed")
        if aborted:
            malformed = any(not f["parseOK"] for f in o["before"])
            untouched = {f["name"]: f["sha"] for f in o["before"]} == {f["name"]: f["sha"] for f in o["after"]}
            if malformed and untouched:
                # malformed stream: a package that does not parse is refused and left exactly as it was
                branch["malformed-input-refused-files-untouched"] += 1
                continue
            branch["generator-aborted"] += 1
            ctx.violation({"kind": "generation-aborted", "error": o["genErr"], "replay": replay,
                           "shape": {"kind": "generation-aborted"}, "input": {"before": o["before"], "schema": o["schema"]}},
                          no_failing_input=False)
            continue
        # ---- correspondence
        div = compare(o, pred) if outs and not spec_only else []
        for n in o.get("_notes", []):
            branch[n] += 1
        # ---- Spec on the implementation's own output
        spec_fail = False
        for v in viol:
            shape, inp = classify(o, v, pred)
            nviol += 1
            branch["spec:" + shape["kind"] + ":" + str(shape.get("cause", shape.get("what", "")))] += 1
            spec_fail = True
            shapes = {f["name"]: f["bytes"] for f in o["before"] if f.get("bytes")}
            if shapes:   # the byte-level shape of the files as they were on disk (file_before etc. show them in gofmt's LF form)
                inp["bytes_on_disk"] = shapes
            ctx.violation({"kind": "spec", "violation": v, "shape": shape, "failing_input": inp, "ops": o["ops"], "layout": o["layout"],
                           "case_kind": o["kind"], "seed": o["seed"], "replay": replay,
                           "corresponds_to_model": not div})
        # compile promise: only methods + only additions + compiled before => compiles after
        key = o["case"]
        only_methods = all(
            d["kind"] == "gen" or d["recv"] == "Resolver" or (d["recv"].endswith("Resolver") and not d["name"].startswith("helper"))
            for f in o["before"] if f["name"].endswith("resolvers.go") or f["name"] == "resolver.go" for d in f["decls"])
        if o["addOnly"] and prev_ok.get(key, True) and only_methods and o["genErr"] and not viol:
            cshape = {"kind": "compile-broken-by-add-only-change", "cause": "other"}
            # F19g: the stub of a NEW field calls fmt.Errorf while one of its parameters (schema argument `fmt`) is called fmt
            stubs = [d for f in o["after"] for d in f["decls"] if d["kind"] == "func" and d["hasBody"] and "not implemented" in d["inner"]
                     and re.search(r"[(,]\s*fmt\s+[\w*.\[\]]+\s*[,)]", d["hdr"])]
            if stubs and re.search(r"fmt\.Errorf undefined \(type ", o["genErr"]) and \
                    not [l for l in o["genErr"].split("\n") if ".go:" in l and "fmt.Errorf undefined" not in l and "missing return" not in l]:
                cshape["cause"] = "stub-calls-fmt.Errorf-with-a-parameter-named-fmt"
            ctx.violation({"kind": "spec", "shape": cshape, "error": o["genErr"], "ops": o["ops"],
                           "replay": replay, "failing_input": {"stub": [{"signature": d["hdr"].strip(), "body": d["inner"]} for d in stubs][:3],
                                                               "before": o["before"], "schema": o["schema"]}})
            spec_fail = True
        prev_ok[key] = not o["genErr"]
        for d in div[:3]:
            ndiv += 1
            ctx.violation({"kind": "correspondence", "divergence": d, "ops": o["ops"], "layout": o["layout"], "case_kind": o["kind"],
                           "seed": o["seed"], "replay": replay, "shape": {"kind": "correspondence", "what": d["what"]},
                           "spec_verdict": viol},
                          no_failing_input=not spec_fail)

    if not proved and ok_extract:
        if not any(not nf for _, nf in ctx.violations):
            ctx.violation({"kind": "proof", "failing": ctx.proof_failure, "regenerated_facts": gen_facts}, no_failing_input=True)

    # replays that carry a concrete failing input first, the broken tie / broken proof records after them
    ctx.violations.sort(key=lambda pn: bool(pn[1]))

    ctx.cov.update({
        "evaluations": len(steps),
        "distinct_nontrivial": len(nontriv),
        "rule": "one evaluation = one real api.Generate over a scratch project whose resolver files were edited by the harness (seeded random bodies with nested braces / strings / raw strings / comments / closures, doc comments, named results, helper declarations, aliased / dot / blank imports; in half of the random cases also schema arguments, parameters, named results, locals, range / closure / if variables and struct fields spelled like the packages the resolver template reserves) after a seeded schema evolution (add / remove / rename fields and types, move fields and types between schema files, add / remove schema files, toggle resolver flags, or none), both layouts, 4-8 regenerations per case, plus directed adversarial cases. Non-trivial = the package held at least one user-written resolver body AND (leftover code was produced OR a method moved between files OR the schema changed); distinct by hash of (files before, schema)",
        "input_distribution": dict(branch),
        "correspondence_divergences": ndiv,
        "spec_violations_on_impl_output": nviol,
        "traces_validated_against_impl": len(steps),
        "regenerated_facts": gen_facts,
        "mangled_type_names_with_user_bodies": sorted(mangled_types),
        "samples": samples,
        "sampled_not_proved": ["the regenerated package type-checks after an add-only change (api.Generate's own validation)",
                               "go/parser re-reads the written file as `reparse` says"],
    })
