"""C04 - user-code failures are contained: null plus error at the field, never a crash."""
import json
from collections import Counter

from lib import vf, gensrv, randschema
from checks import c01, c13


def run(ctx):
    if getattr(ctx, "replay", None):
        from checks import execreplay
        if execreplay.replay(ctx, "C04"):
            return
    ctx.assumptions += [
        "'the process keeps serving' is observed (the generated server's runner survives every case and answers the next one), not proved",
        "panics are modelled at user-code call sites (resolver, schema directive, field interceptor = outermost wrapper `~around`, model methods); a recover at every goroutine boundary of the generated code is a regenerated fact (Gen/GoBoundaries)",
        "gqlparser parse+validate modelled-not-verified; scheduling abstracted (C06)",
    ]
    cfgs0 = ["base", "wl1", "wl2", "follow_funcsyn_wl2"] if ctx.tier == "quick" else ["base", "wl1", "wl2", "follow_funcsyn_wl2", "noptr", "funcsyn"]
    built = gensrv.build_matrix(ctx, "exec", cfgs0)
    # panic-containment facts, re-extracted from the server generated on this run
    ok_extract = not isinstance(built["base"], Exception) and ctx.extract("GoBoundaries", arg=gensrv.gen_dir("exec", "base"))
    ok_extract = ok_extract and ctx.extract("ServeRecover")
    proved = ok_extract and ctx.prove(props=["GqlgenVerif.Props.C04", "GqlgenVerif.Props.C04Gen"])
    if ok_extract and not proved:
        ctx.cov["proof_failure"] = ctx.proof_failure
    cfgs = cfgs0
    n_rand = 600 if ctx.tier == "quick" else 6000
    n_ops = 60 if ctx.tier == "quick" else 500
    fd = gensrv.build_matrix(ctx, "execfd", ["base"])
    built["execfd:base"] = fd["base"]
    cfgs = list(cfgs) + ["execfd:base"]
    # binding mode 2: scalar / enum fields are plain struct fields filled by the parent's resolver
    try:
        built["mixed:base"] = gensrv.build_server(ctx, "exec", "base", mixed=True)
    except RuntimeError as e:
        built["mixed:base"] = e
    cfgs = list(cfgs) + ["mixed:base"]
    # a randomly generated schema (the one C01 uses for this seed)
    rname = randschema.write_probe(ctx.seed * 10)
    try:
        built[rname + ":base"] = gensrv.build_server(ctx, rname, "base")
    except RuntimeError as e:
        built[rname + ":base"] = e
    cfgs = list(cfgs) + [rname + ":base"]
    # subscription events ("... subscription event"): faults while an event is delivered stay in that event
    sb = gensrv.build_matrix(ctx, "execsub", ["base"])
    built["execsub:base"] = sb["base"]
    cfgs = list(cfgs) + ["execsub:base"]
    dist = Counter()
    nontriv = set()
    total = 0
    divs = []
    per_cfg = {}
    samples = []
    for cfg in cfgs:
        b = built[cfg]
        if isinstance(b, Exception):
            ctx.violation({"kind": "generated-server-does-not-build", "config": cfg, "detail": str(b)[-3000:],
                           "shape": {"config": cfg, "build": "fail"}})
            continue
        if cfg.startswith("execsub:"):
            schema = c01.schema_of(b, "subschema")
            try:
                lines = c01.run_corpus(ctx, b, "C01sub", split=True)       # directed: SUBSCRIPTION-location directives pass / error / block
                lines += c01.run_config(ctx, b, n_rand, ctx.seed, "sub")   # every event of every subscription, 4% panics
            except RuntimeError as e:
                ctx.violation({"kind": "crash", "config": cfg, "stderr": str(e)[-4000:], "shape": {"crash": True},
                               "replay": "%s -mode gen -profile sub -n %d -seed %d" % (b, n_rand, ctx.seed)})
                continue
        else:
            schema = c01.schema_of(b)
            lines = c01.run_corpus(ctx, b, "C04")
            lines += c01.run_config(ctx, b, n_rand, ctx.seed, "c04")           # random multi-fault plans incl. panics
            rc, so, se = vf.sh([b, "-mode", "faults", "-n", str(n_ops), "-seed", str(ctx.seed)], timeout=2400)
            if rc != 0:
                # the process died: a panic escaped every recover
                ctx.violation({"kind": "crash", "config": cfg, "stderr": se[-4000:], "shape": {"crash": True},
                               "replay": "%s -mode faults -n %d -seed %d" % (b, n_ops, ctx.seed)})
                continue
            lines += [l for l in so.split("\n") if l]
        model = ctx.driver("c04", [schema] + lines)
        ok = 0
        for l, m in zip(lines, model):
            r = json.loads(l)
            total += 1
            if r.get("gateErrors"):
                continue
            tags = c01.classify(r)
            if c01.subscribe_failed(r) is not None:
                # the stream could not be created: a request error, judged by C01
                continue
            if r.get("fault"):
                tags.add("single-fault:" + r["faultKind"] + (":interceptor" if r["fault"].endswith("@~around") else ":directive" if "@" in r["fault"] else ":resolver"))
            if r["recovers"]:
                tags.add("recovered-panic")
            for t in tags:
                dist[t] += 1
            if r.get("fault") or "panic" in tags:
                nontriv.add(r["query"] + (r.get("fault") or "") + json.dumps(r.get("plan"), sort_keys=True)[:200])
            why = []
            if r.get("crash"):
                why.append("crash")
            if r.get("hung"):
                why.append("hung")
            # a subscription whose stream was never created (failed operation-level directive): one response, then the end
            why += c01.stream_shape(r)
            if not m.startswith("{"):
                why.append("model:" + m[:40])
                mj = m
            else:
                mj = json.loads(m)
                p = r["payloads"][0] if r["payloads"] else {"errors": []}
                if not why and mj["data"] != c01.rawdata(l):
                    why.append("data")
                if mj["errors"] != sorted(e["path"] + " :: " + e["message"] for e in p["errors"]):
                    why.append("errors")
                if mj["invs"] != sorted(i["path"] + " " + i["hook"] for i in r["log"]):
                    why.append("invocations")
                if mj["recovers"] != r["recovers"]:
                    why.append("recovers")
                if mj["unlogged"]:
                    why.append("model-invokes-unlogged")
                if mj.get("spec") != "agree" and mj.get("wf"):
                    why.append("spec:" + str(mj.get("spec")))
            if why:
                divs.append((cfg, r, mj, why))
            else:
                ok += 1
            if len(samples) < 3 and r.get("fault") and r["recovers"] and r["payloads"]:
                samples.append({"config": cfg, "query": r["query"], "fault": r["fault"], "kind": r["faultKind"],
                                "data": r["payloads"][0]["data"], "errors": r["payloads"][0]["errors"], "recovers": r["recovers"]})
        per_cfg[cfg] = {"cases": len(lines), "corresponding": ok}
    # ---- single faults inside deferred groups ("... deferred group"): the same enumeration over documents with
    # @defer, judged by the defer model (Props/C13: failure_in_group_stays_in_group) and by the merge statement
    ddivs = []
    # both template flavours of processDeferredGroup (generated!.gotpl, root_.gotpl)
    dcfgs = ["base", "wl2", "follow_funcsyn_wl2"] if ctx.tier == "quick" else ["base", "wl1", "wl2", "follow_funcsyn_wl2", "funcsyn", "noptr"]
    n_dops = 40 if ctx.tier == "quick" else 300
    for cfg in dcfgs:
        b = built.get(cfg)
        if b is None or isinstance(b, Exception):
            continue
        rc, so, se = vf.sh([b, "-mode", "faults", "-profile", "c13clean", "-n", str(n_dops), "-seed", str(ctx.seed)], timeout=2400)
        if rc != 0:
            ctx.violation({"kind": "crash", "config": cfg, "where": "deferred-group fault sweep", "stderr": se[-4000:],
                           "shape": {"crash": True},
                           "replay": "%s -mode faults -profile c13clean -n %d -seed %d" % (b, n_dops, ctx.seed)})
            continue
        dl = [l for l in so.split("\n") if l]
        dmodel = ctx.driver("c13", [c01.schema_of(b)] + dl)
        okd = 0
        for l, m in zip(dl, dmodel):
            r = json.loads(l)
            total += 1
            j = c13.judge(r, m)
            if j is None:
                continue
            tags, why, spec_bad, mj = j
            # delivery-order / path-findability clauses are C13's (its findings F13a, F13b); containment is
            # about content: merged data, errors, each group once
            spec_bad = [x for x in spec_bad if x.split(":")[0] not in
                        ("child-group-before-parent-group", "orphan-payload-object-nulled") and not x.startswith("hasNext")]
            if r.get("fault") and len(r["payloads"]) > 1:
                infl = any((p.get("path") or "") and r["fault"].split("@")[0].startswith(p["path"]) for p in r["payloads"][1:])
                dist["single-fault-with-deferred-groups"] += 1
                if infl:
                    dist["single-fault-under-a-deferred-group:" + r["faultKind"]] += 1
                nontriv.add(r["query"] + r["fault"])
            if why or spec_bad:
                ddivs.append((cfg, r, mj, sorted(set(why)), spec_bad))
            else:
                okd += 1
        per_cfg[cfg + "+defer"] = {"cases": len(dl), "corresponding": okd}
    for cfg, r, mj, why, spec_bad in ddivs:
        if len(ctx.violations) >= 20:
            break
        clauses = sorted(set(x.split(":")[0] for x in spec_bad))
        rep = {"kind": "deferred-group-fault", "config": cfg, "why": why, "spec_clauses": spec_bad, "query": r["query"],
               "variables": r.get("variables"), "plan": r.get("plan"), "fault": r.get("fault"), "faultKind": r.get("faultKind"),
               "impl": r["payloads"], "plain": (r.get("plain") or {}).get("payloads"), "recovers": r["recovers"], "model": mj,
               "shape": {"defer": True, "why": ",".join(why), "clauses": ",".join(clauses)},
               "replay": "echo '<case json>' | <generated server %s> -mode run   (and the same with every @defer removed)" % cfg}
        ctx.violation(rep, no_failing_input=not (spec_bad or any(w in c13.FAILING for w in why)))
    boom(ctx, dist, nontriv, per_cfg)
    for cfg, r, mj, why in divs:
        if len(ctx.violations) >= 20:
            break
        rep = {"kind": "correspondence", "config": cfg, "why": why, "query": r["query"], "variables": r.get("variables"),
               "plan": r.get("plan"), "fault": r.get("fault"), "impl": r["payloads"], "recovers": r["recovers"],
               "model": mj, "shape": {"why": ",".join(sorted(w.split(":")[0] for w in why))},
               "replay": "echo '<case json>' | <generated server %s> -mode run" % cfg}
        failing = any(w in ("data", "errors", "invocations", "recovers", "crash", "hung") or w.startswith("spec:") or w.startswith("stream-") or w.startswith("responses") for w in why)
        ctx.violation(rep, no_failing_input=not failing)
    if ok_extract and not proved and not ctx.violations:
        # e.g. a recover was removed from a template: name the broken obligation and the unprotected sites
        unprot = []
        try:
            for line in open(vf.LEAN + "/GqlgenVerif/Gen/GoBoundaries.lean"):
                if "unprotected" in line:
                    unprot.append(line.strip())
        except OSError:
            pass
        ctx.violation({"kind": "proof", "failing": ctx.proof_failure, "unprotected_sites": unprot[:20]}, no_failing_input=True)
    ctx.cov.update({
        "evaluations": total,
        "distinct_nontrivial": len(nontriv),
        "rule": "per configuration (worker_limit 0/1/2 ...): (a) for every operation of a generated corpus a fault-free run, then one run per user-code invocation it made with exactly that invocation forced to error / panic (directives: error / block / panic) - the single-fault enumeration; (b) random multi-fault plans with 4% panics; non-trivial = distinct (operation, fault) with an injected fault or a panic",
        "input_distribution": dict(dist),
        "configs": per_cfg,
        "correspondence_divergences": len(divs) + len(ddivs),
        "samples": samples,
        "exhaustive_single_faults_over_corpus": True,
    })


BOOM_MSG = "recovered: BOOM while serializing"


def sse_wellformed(body):
    """text/event-stream: every line is empty, a comment, or `field: value`; the stream ends with `event: complete`"""
    lines = body.split("\n")
    for ln in lines:
        if ln and not ln.startswith(":") and not ln.split(":", 1)[0] in ("event", "data", "id", "retry"):
            return "line is not an event-stream field: " + ln[:60]
    if "event: complete" not in body:
        return "no `event: complete`"
    datas = [ln[5:].strip() for ln in lines if ln.startswith("data:")]
    for d in datas:
        try:
            json.loads(d)
        except ValueError:
            return "data line is not JSON"
    if not any(BOOM_MSG in d for d in datas):
        return "the error is in no data line"
    return None


def multipart_wellformed(body):
    """multipart/mixed: parts introduced by the boundary, closed by the closing boundary, each part JSON"""
    if "\r\n---\r\n" not in "\r\n" + body and "--" not in body[:4]:
        return "no part boundary"
    if not body.rstrip().endswith("-----"):
        return "no closing boundary"
    return None


def boom(ctx, dist, nontriv, per_cfg):
    """`A panic raised while serializing a value fails only that response with a well-formed error body`:
    a custom scalar whose MarshalGQL panics, through the real handler.Server over real connections, each
    panicking request followed by an ordinary one that says nothing about operationName / variables."""
    try:
        b = gensrv.build_server(ctx, "execboom", "base")
    except RuntimeError as e:
        ctx.violation({"kind": "generated-server-does-not-build", "config": "execboom:base", "detail": str(e)[-3000:],
                       "shape": {"config": "execboom:base", "build": "fail"}})
        return
    argfaults(ctx, b, dist, nontriv, per_cfg)
    elemfaults(ctx, b, dist, nontriv, per_cfg)
    # the worker_limit flavours of the list marshaler (semaphore slot per element goroutine) are a different template arm
    for wl in ("wl1", "wl2"):
        try:
            bw = gensrv.build_server(ctx, "execboom", wl)
        except RuntimeError as e:
            ctx.violation({"kind": "generated-server-does-not-build", "config": "execboom:" + wl, "detail": str(e)[-3000:],
                           "shape": {"config": "execboom:" + wl, "build": "fail"}})
            continue
        elemfaults(ctx, bw, dist, nontriv, per_cfg, cfg="execboom:" + wl)
    rounds = 18 if ctx.tier == "quick" else 120
    plan0 = {"seed": ctx.seed, "rates": {}}
    sites = [
        ("boom", "query Boom($v: Boolean!) { ok @include(if: $v) boom t { s } }", {"boom": {"kind": "value", "str": "BOOM"}}),
        ("nested", "query Boom($v: Boolean!) { t { kid { b } } ok @include(if: $v) }", {"t/kid": {"kind": "value"}, "t": {"kind": "value"}, "t/kid/b": {"kind": "value", "str": "BOOM"}}),
        ("list-element", "query Boom($v: Boolean!) { ok @include(if: $v) ts { bs } }", {"ts": {"kind": "value", "len": 2}, "ts/1#elem": {"kind": "value"}, "ts/1/bs": {"kind": "value", "len": 3}, "ts/1/bs/2#elem": {"kind": "value", "str": "BOOM"}}),
        ("non-null", "query Boom($v: Boolean!) { t { bNN } ok @include(if: $v) }", {"t": {"kind": "value"}, "t/bNN": {"kind": "value", "str": "BOOM"}}),
    ]
    cases = [{"id": "ref", "transport": "post", "bare": True, "query": "{ ok t { s } }", "plan": plan0}]
    for k in range(rounds):
        name, q, ov = sites[k % len(sites)]
        tr = ["post", "get", "post", "sse", "post", "post", "multipart", "post", "post"][k % 9]
        c = {"id": "panic-%d-%s-%s" % (k, name, tr), "transport": tr, "query": q, "variables": {"v": k % 2 == 0},
             "plan": {"seed": ctx.seed, "rates": {}, "overrides": ov}}
        if tr != "get":
            c["operationName"] = "Boom"
        cases.append(c)
        cases.append({"id": "after-%d" % k, "transport": "post", "bare": True, "query": "{ ok t { s } }", "plan": plan0})
    # one P and no collection: what a transport returns to a sync.Pool is what the next request takes out of it
    # over a websocket the operation's goroutine recovers; afterwards the connection must be as before: the same
    # id can be used again on it
    for k, (name, q, ov) in enumerate(sites):
        cases.append({"id": "panic-ws-%d-%s" % (k, name), "transport": "ws", "query": q, "variables": {"v": True}, "operationName": "Boom",
                      "plan": {"seed": ctx.seed, "rates": {}, "overrides": ov}, "then": "{ ok t { s } }", "timeoutMs": 4000})
    rc, so, se = vf.sh([b, "-mode", "http"], inp="\n".join(json.dumps(c) for c in cases) + "\n", timeout=600,
                       env={"GOMAXPROCS": "1", "GOGC": "off"})
    if rc != 0:
        ctx.violation({"kind": "crash", "config": "execboom:base", "where": "serialization panic over HTTP", "stderr": se[-4000:],
                       "shape": {"crash": True, "where": "serialization"}, "cases": cases})
        return
    res = [json.loads(l) for l in so.split("\n") if l]
    if len(res) != len(cases):
        ctx.violation({"kind": "crash", "config": "execboom:base", "where": "serialization panic over HTTP: runner answered %d of %d" % (len(res), len(cases)),
                       "shape": {"crash": True, "where": "serialization"}, "cases": cases})
        return
    ref = res[0]
    okc = 0
    for c, r in zip(cases[1:], res[1:]):
        bad = None
        tr = c["transport"]
        if c["id"].startswith("panic"):
            dist["serialization-panic:" + tr] += 1
            nontriv.add(c["id"])
            if r.get("hung"):
                bad = "no answer (hung)"
            elif r["recovers"] != 1:
                bad = "recover hook ran %d times" % r["recovers"]
            elif tr in ("post", "get"):
                try:
                    j = json.loads(r.get("body") or "")
                    if r["status"] != 422 or j.get("data") is not None or [e.get("message") for e in j.get("errors") or []] != [BOOM_MSG]:
                        bad = "status %s body %s" % (r["status"], (r.get("body") or "")[:200])
                except ValueError:
                    bad = "body is not JSON: " + (r.get("body") or "")[:200]
            elif tr == "ws":
                frames = (r.get("body") or "").split("\n")
                want_after = ["--then--", "next:" + json.dumps({"data": json.loads(ref["body"])["data"]}, separators=(",", ":")), "complete:"]
                head = frames[:frames.index("--then--")] if "--then--" in frames else frames
                if not head or not head[0].startswith("error:") or BOOM_MSG not in head[0] or head[1:] not in ([], ["complete:"]):
                    bad = "frames of the panicking operation are not one error frame (and complete): " + " | ".join(frames[:3])[:300]
                    frames = ["", ""] + want_after
                frames = ["", ""] + frames[len(head):]
                if bad:
                    pass
                elif [f if not f.startswith("next:") else "next:" + json.dumps({"data": json.loads(f[5:]).get("data")}, separators=(",", ":")) for f in frames[2:]] != want_after:
                    bad = "the connection is not as before: the same id cannot be used again: " + " | ".join(frames[2:])[:300]
            elif tr == "sse":
                w = sse_wellformed(r.get("body") or "")
                if w:
                    bad = "event stream not well-formed: " + w
            elif tr == "multipart":
                w = multipart_wellformed(r.get("body") or "")
                if w:
                    bad = "multipart body not well-formed: " + w
            shape = {"kind": "serialization-panic", "transport": tr, "what": (bad or "").split(":")[0]}
        else:
            dist["request-after-serialization-panic"] += 1
            if r.get("status") != ref.get("status") or r.get("body") != ref.get("body") or r.get("recovers"):
                bad = "the request after the contained panic is not answered as before it: %s %s (before: %s %s)" % (
                    r.get("status"), (r.get("body") or "")[:200], ref.get("status"), (ref.get("body") or "")[:200])
            shape = {"kind": "request-after-serialization-panic"}
        if bad:
            i = cases.index(c)
            ctx.violation({"kind": shape["kind"], "what": bad, "config": "execboom:base", "case": c, "result": r,
                           "preceding_cases": cases[max(0, i - 2):i], "shape": shape,
                           "replay": "printf '%%s\\n' '<preceding cases + case json>' | <generated server execboom:base> -mode http"})
        else:
            okc += 1
    per_cfg["execboom:base/http"] = {"cases": len(cases) - 1, "as_stated": okc}


def argfaults(ctx, b, dist, nontriv, per_cfg):
    """`... or an input unmarshaler returning an error or panicking`: a custom scalar whose UnmarshalGQL fails on an
    argument value. The field must behave exactly as if its RESOLVER had failed at that position (null, one error,
    ordinary propagation, the recover hook once per panic, everything else untouched) - and the resolver is not run.
    Judged against the twin operation with a harmless argument and the resolver forced to fail the same way."""
    shapes = [
        ("root", "{ ok echo(b: %s) t { s } }", ["echo"]),
        ("root-list-arg", "{ ok echo(bs: [\"x\", %s]) t { s } }", ["echo"]),
        ("root-list-arg-first", "{ ok echo(bs: [%s, \"x\", \"y\"]) t { s } }", ["echo"]),
        ("root-list-arg-middle", "{ ok echo(bs: [\"x\", %s, \"y\"]) t { s } }", ["echo"]),
        ("nested", "{ ok t { s echo(b: %s) kid { s } } }", ["t/echo"]),
        ("nested-non-null", "{ ok t { s echoNN(b: %s) } m { c } }", ["t/echoNN"]),
        ("root-non-null", "{ ok echoNN(b: %s) }", ["echoNN"]),
        ("list-elements", "{ ts { s echo(b: %s) } ok }", ["ts/0/echo", "ts/1/echo", "ts/2/echo"]),
        ("two-in-one-object", "{ t { e1: echo(b: %s) e2: echoNN(b: %s) s } ok }", ["t/e1", "t/e2"]),
    ]
    base_ov = {"t": {"kind": "value"}, "t/kid": {"kind": "value"}, "ts": {"kind": "value", "len": 3}, "m": {"kind": "value"},
               "ts/0#elem": {"kind": "value"}, "ts/1#elem": {"kind": "value"}, "ts/2#elem": {"kind": "value"}}
    cases = []
    meta = []
    for name, q, paths in shapes:
        for kind, lit in (("error", '"ERR"'), ("panic", '"PANIC"')):
            n = q.count("%s")
            for via in ("literal", "variable"):
                if via == "literal":
                    query, variables = q % ((lit,) * n), None
                else:
                    query, variables = "query($v: Boom!) " + q % (("$v",) * n), {"v": lit.strip('"')}
                cid = "argfault-%s-%s-%s" % (name, kind, via)
                cases.append({"id": cid, "query": query, "variables": variables, "plan": {"seed": ctx.seed, "rates": {}, "overrides": dict(base_ov)}})
                ov = dict(base_ov)
                for pth in paths:
                    ov[pth] = {"kind": kind, "msg": "TWIN"}
                cases.append({"id": cid + "-twin", "query": q % (('"fine"',) * n), "plan": {"seed": ctx.seed, "rates": {}, "overrides": ov}})
                meta.append((cid, name, kind, via, paths))
    rc, so, se = vf.sh([b, "-mode", "run"], inp="\n".join(json.dumps(c) for c in cases) + "\n", timeout=600)
    if rc != 0:
        ctx.violation({"kind": "crash", "config": "execboom:base", "where": "argument unmarshaler faults", "stderr": se[-4000:],
                       "shape": {"crash": True, "where": "argument-unmarshal"}, "cases": cases[:4]})
        return
    res = [json.loads(l) for l in so.split("\n") if l]
    okc = 0
    for k, (cid, name, kind, via, paths) in enumerate(meta):
        r, tw = res[2 * k], res[2 * k + 1]
        bad = None
        if r.get("gateErrors") or tw.get("gateErrors") or not r["payloads"] or not tw["payloads"]:
            bad = "not executed: %s / %s" % (r.get("gateErrors") or r.get("crash"), tw.get("gateErrors") or tw.get("crash"))
        else:
            P, T = r["payloads"][0], tw["payloads"][0]
            if P["data"] != T["data"]:
                bad = "data differs from the twin whose resolver fails at the same position: %s vs %s" % (json.dumps(P["data"])[:300], json.dumps(T["data"])[:300])
            elif len(P["errors"]) != len(T["errors"]):
                bad = "%d errors, the twin has %d" % (len(P["errors"]), len(T["errors"]))
            elif sorted(e["path"].rsplit("/b", 1)[0] if e["path"].endswith(("/b", "/bs")) or "/bs/" in e["path"] else e["path"] for e in P["errors"]) != sorted(e["path"] for e in T["errors"]) \
                    and sorted(e["path"].split("/b")[0] for e in P["errors"]) != sorted(e["path"] for e in T["errors"]):
                bad = "error paths %s are not at (or below the argument of) the failing fields %s" % ([e["path"] for e in P["errors"]], [e["path"] for e in T["errors"]])
            elif r["recovers"] != tw["recovers"]:
                bad = "recover hook ran %d times, the twin's %d" % (r["recovers"], tw["recovers"])
            elif any(i["path"] in paths and i["hook"] == "resolver" for i in r["log"]):
                bad = "the resolver ran although its argument could not be unmarshalled"
        dist["argument-unmarshal-fault:" + kind + ":" + via] += 1
        nontriv.add(cid)
        if bad:
            ctx.violation({"kind": "argument-unmarshal-fault", "what": bad, "config": "execboom:base", "case": cases[2 * k], "twin": cases[2 * k + 1],
                           "result": r.get("payloads"), "twin_result": tw.get("payloads"), "recovers": r.get("recovers"),
                           "shape": {"kind": "argument-unmarshal-fault", "what": bad.split(":")[0][:40]},
                           "replay": "echo '<case json>' | <generated server execboom:base> -mode run"})
        else:
            okc += 1
    per_cfg["execboom:base/argument-unmarshal"] = {"cases": len(meta), "as_stated": okc}


def elemfaults(ctx, b, dist, nontriv, per_cfg, cfg="execboom:base"):
    """a panic that escapes the marshal function of ONE element of a list whose elements are marshalled on
    goroutines (a bound enum's Marshal function): that list fails - null, one error at the element's path, the
    recover hook once - whatever the schedule; the other positions keep their values"""
    reps = (6 if ctx.tier == "quick" else 40) if cfg == "execboom:base" else (4 if ctx.tier == "quick" else 20)
    cases = []
    meta = []
    for n, k in ((2, 0), (2, 1), (4, 1), (4, 3), (7, 2)):
        for fld in ("moods", "moodsN"):
            ov = {"t": {"kind": "value"}, "t/" + fld: {"kind": "value", "len": n}}
            for j in range(n):
                ov["t/%s/%d#elem" % (fld, j)] = {"kind": "value", "str": "GRUMPY" if j == k else "SAD"}
            for rep in range(reps):
                cid = "elem-panic-%s-%d-of-%d-%d" % (fld, k, n, rep)
                cases.append({"id": cid, "transport": "post", "query": "{ ok t { s %s } }" % fld, "timeoutMs": 4000,
                              # every other repetition runs with a slow recover hook: the list must wait for it
                              "recoverDelayUs": 3000 if rep % 2 else 0,
                              "plan": {"seed": ctx.seed + rep, "rates": {"delay": 600, "maxDelay": 200}, "overrides": ov}})
                meta.append((cid, fld, n, k))
    rc, so, se = vf.sh([b, "-mode", "http"], inp="\n".join(json.dumps(c) for c in cases) + "\n", timeout=900)
    if rc != 0:
        ctx.violation({"kind": "crash", "config": cfg, "where": "list element marshal panic", "stderr": se[-4000:],
                       "shape": {"crash": True, "where": "element-marshal"}, "cases": cases[:2]})
        return
    res = [json.loads(l) for l in so.split("\n") if l]
    okc = 0
    for c, (cid, fld, n, k), r in zip(cases, meta, res):
        bad = None
        try:
            j = json.loads(r.get("body") or "")
        except ValueError:
            j = None
        if r.get("hung"):
            bad = "no answer"
        elif r.get("status") != 200 or j is None:
            bad = "status %s body %s" % (r.get("status"), (r.get("body") or "")[:200])
        else:
            errs = j.get("errors") or []
            t = (j.get("data") or {}).get("t")
            if r["recovers"] != 1:
                bad = "recover hook ran %d times for one panic" % r["recovers"]
            elif len(errs) != 1 or errs[0].get("path") != ["t", fld, k] or "GRUMPY" not in errs[0].get("message", ""):
                bad = "errors are not exactly the one at the element's path: %s" % json.dumps(errs)[:300]
            elif not isinstance(t, dict) or t.get(fld, 0) is not None or "s" not in t or (j.get("data") or {}).get("ok") is None:
                bad = "the list is not null with everything else intact: %s" % json.dumps(j.get("data"))[:300]
        dist["element-marshal-panic"] += 1
        nontriv.add(cid)
        if bad:
            ctx.violation({"kind": "element-marshal-panic", "what": bad, "config": cfg, "case": c, "result": r,
                           "shape": {"kind": "element-marshal-panic", "what": bad.split(":")[0][:40]},
                           "replay": "echo '<case json>' | <generated server " + cfg + "> -mode http   (schedule-dependent: repeat)"})
            if len([1 for v in ctx.violations]) > 12:
                break
        else:
            okc += 1
    per_cfg[cfg + "/element-marshal-panic"] = {"cases": len(cases), "as_stated": okc}
