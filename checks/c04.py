"""C04 - user-code failures are contained: null plus error at the field, never a crash."""
import json
from collections import Counter

from lib import vf, gensrv
from checks import c01


def run(ctx):
    if getattr(ctx, "replay", None):
        from checks import execreplay
        if execreplay.replay(ctx, "C04"):
            return
    ctx.assumptions += [
        "'the process keeps serving' is observed (the generated server's runner survives every case and answers the next one), not proved",
        "panics are modelled at user-code call sites (resolver, schema directive); a recover at every goroutine boundary of the generated code is a regenerated fact (Gen/GoBoundaries)",
        "gqlparser parse+validate modelled-not-verified; scheduling abstracted (C06)",
    ]
    cfgs0 = ["base", "wl1", "wl2", "follow_funcsyn_wl2"] if ctx.tier == "quick" else ["base", "wl1", "wl2", "follow_funcsyn_wl2", "noptr", "funcsyn"]
    built = gensrv.build_matrix(ctx, "exec", cfgs0)
    # panic-containment facts, re-extracted from the server generated on this run
    ok_extract = not isinstance(built["base"], Exception) and ctx.extract("GoBoundaries", arg=gensrv.gen_dir("exec", "base"))
    proved = ok_extract and ctx.prove(props=["GqlgenVerif.Props.C04", "GqlgenVerif.Props.C04Gen"])
    if ok_extract and not proved:
        ctx.cov["proof_failure"] = ctx.proof_failure
    cfgs = cfgs0
    n_rand = 600 if ctx.tier == "quick" else 6000
    n_ops = 60 if ctx.tier == "quick" else 500
    fd = gensrv.build_matrix(ctx, "execfd", ["base"])
    built["execfd:base"] = fd["base"]
    cfgs = list(cfgs) + ["execfd:base"]
    # binding mode 2: scalar / enum fields are plain struct fields filled by the parent's resolver
    try:
        built["mixed:base"] = gensrv.build_server(ctx, "exec", "base", mixed=True)
    except RuntimeError as e:
        built["mixed:base"] = e
    cfgs = list(cfgs) + ["mixed:base"]
    dist = Counter()
    nontriv = set()
    total = 0
    divs = []
    per_cfg = {}
    samples = []
    for cfg in cfgs:
        b = built[cfg]
        if isinstance(b, Exception):
            ctx.violation({"kind": "generated-server-does-not-build", "config": cfg, "detail": str(b)[-3000:],
                           "shape": {"config": cfg, "build": "fail"}})
            continue
        schema = c01.schema_of(b)
        lines = c01.run_corpus(ctx, b, "C04")
        lines += c01.run_config(ctx, b, n_rand, ctx.seed, "c04")           # random multi-fault plans incl. panics
        rc, so, se = vf.sh([b, "-mode", "faults", "-n", str(n_ops), "-seed", str(ctx.seed)], timeout=2400)
        if rc != 0:
            # the process died: a panic escaped every recover
            ctx.violation({"kind": "crash", "config": cfg, "stderr": se[-4000:], "shape": {"crash": True},
                           "replay": "%s -mode faults -n %d -seed %d" % (b, n_ops, ctx.seed)})
            continue
        lines += [l for l in so.split("\n") if l]
        model = ctx.driver("c04", [schema] + lines)
        ok = 0
        for l, m in zip(lines, model):
            r = json.loads(l)
            total += 1
            if r.get("gateErrors"):
                continue
            tags = c01.classify(r)
            if r.get("fault"):
                tags.add("single-fault:" + r["faultKind"] + (":directive" if "@" in r["fault"] else ":resolver"))
            if r["recovers"]:
                tags.add("recovered-panic")
            for t in tags:
                dist[t] += 1
            if r.get("fault") or "panic" in tags:
                nontriv.add(r["query"] + (r.get("fault") or "") + json.dumps(r.get("plan"), sort_keys=True)[:200])
            why = []
            if r.get("crash"):
                why.append("crash")
            if r.get("hung"):
                why.append("hung")
            if not m.startswith("{"):
                why.append("model:" + m[:40])
                mj = m
            else:
                mj = json.loads(m)
                p = r["payloads"][0] if r["payloads"] else {"errors": []}
                if not why and mj["data"] != c01.rawdata(l):
                    why.append("data")
                if mj["errors"] != sorted(e["path"] + " :: " + e["message"] for e in p["errors"]):
                    why.append("errors")
                if mj["invs"] != sorted(i["path"] + " " + i["hook"] for i in r["log"]):
                    why.append("invocations")
                if mj["recovers"] != r["recovers"]:
                    why.append("recovers")
                if mj["unlogged"]:
                    why.append("model-invokes-unlogged")
                if mj.get("spec") != "agree" and mj.get("wf"):
                    why.append("spec:" + str(mj.get("spec")))
            if why:
                divs.append((cfg, r, mj, why))
            else:
                ok += 1
            if len(samples) < 3 and r.get("fault") and r["recovers"] and r["payloads"]:
                samples.append({"config": cfg, "query": r["query"], "fault": r["fault"], "kind": r["faultKind"],
                                "data": r["payloads"][0]["data"], "errors": r["payloads"][0]["errors"], "recovers": r["recovers"]})
        per_cfg[cfg] = {"cases": len(lines), "corresponding": ok}
    for cfg, r, mj, why in divs:
        if len(ctx.violations) >= 20:
            break
        rep = {"kind": "correspondence", "config": cfg, "why": why, "query": r["query"], "variables": r.get("variables"),
               "plan": r.get("plan"), "fault": r.get("fault"), "impl": r["payloads"], "recovers": r["recovers"],
               "model": mj, "shape": {"why": ",".join(sorted(w.split(":")[0] for w in why))},
               "replay": "echo '<case json>' | <generated server %s> -mode run" % cfg}
        failing = any(w in ("data", "errors", "invocations", "recovers", "crash", "hung") or w.startswith("spec:") for w in why)
        ctx.violation(rep, no_failing_input=not failing)
    if ok_extract and not proved and not ctx.violations:
        # e.g. a recover was removed from a template: name the broken obligation and the unprotected sites
        unprot = []
        try:
            for line in open(vf.LEAN + "/GqlgenVerif/Gen/GoBoundaries.lean"):
                if "unprotected" in line:
                    unprot.append(line.strip())
        except OSError:
            pass
        ctx.violation({"kind": "proof", "failing": ctx.proof_failure, "unprotected_sites": unprot[:20]}, no_failing_input=True)
    ctx.cov.update({
        "evaluations": total,
        "distinct_nontrivial": len(nontriv),
        "rule": "per configuration (worker_limit 0/1/2 ...): (a) for every operation of a generated corpus a fault-free run, then one run per user-code invocation it made with exactly that invocation forced to error / panic (directives: error / block / panic) - the single-fault enumeration; (b) random multi-fault plans with 4% panics; non-trivial = distinct (operation, fault) with an injected fault or a panic",
        "input_distribution": dict(dist),
        "configs": per_cfg,
        "correspondence_divergences": len(divs),
        "samples": samples,
        "exhaustive_single_faults_over_corpus": True,
    })
