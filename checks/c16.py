"""C16 - introspection mirrors the schema exactly, and reveals nothing when disabled."""
import json
import os
import re
from collections import Counter

from lib import vf, gensrv

FED_YML = "federation:\n  filename: federation.go\n  package: {pkg}\n  version: 2\n"

# ------------------------------------------------------------------------------------------- helpers


def tree_diff(a, b, path=""):
    """first differences between two JSON trees (list entries are addressed by their `name`)"""
    if type(a) != type(b):
        return [(path, a, b)]
    if isinstance(a, dict):
        res = []
        for k in sorted(set(a) | set(b)):
            if k not in a or k not in b:
                res.append((path + "/" + k, a.get(k, "<absent>"), b.get(k, "<absent>")))
            else:
                res += tree_diff(a[k], b[k], path + "/" + k)
        return res
    if isinstance(a, list):
        if len(a) != len(b):
            return [(path + "#len", len(a), len(b))]
        res = []
        for i, (x, y) in enumerate(zip(a, b)):
            nm = x.get("name") if isinstance(x, dict) else None
            res += tree_diff(x, y, "%s[%s]" % (path, nm if isinstance(nm, str) else i))
        return res
    return [] if a == b else [(path, a, b)]


def component_of(path):
    """the element class a differing path belongs to (the `shape` of a violation)"""
    if "/args[" in path and ("isDeprecated" in path or "deprecationReason" in path):
        return "directive-argument-deprecation" if path.startswith("/directives") else "argument-deprecation"
    if "/inputFields[" in path and ("isDeprecated" in path or "deprecationReason" in path):
        return "input-field-deprecation"
    if "/enumValues" in path:
        return "enum-values"
    if "isDeprecated" in path or "deprecationReason" in path or "fieldsCurrent" in path:
        return "field-deprecation"
    for k in ("defaultValue", "interfaces", "possibleTypes", "description", "locations", "isRepeatable", "specifiedByURL",
              "isOneOf", "queryType", "mutationType", "subscriptionType", "ofType", "kind", "type"):
        if "/" + k in path:
            return k
    if path.startswith("/types#len") or path.startswith("/directives#len"):
        return "type-or-directive-set"
    return "other"


GO_ESCAPE = re.compile(r'\\[avxU]')


def render(v):
    """JSON in the execution model's rendering (keys in response order, no spaces)"""
    if v is None:
        return "null"
    if isinstance(v, dict):
        return "{" + ",".join('"%s":%s' % (k, render(x)) for k, x in v.items()) + "}"
    if isinstance(v, list):
        return "[" + ",".join(render(x) for x in v) + "]"
    return json.dumps(v, ensure_ascii=False)


TYPE_REF = "kind name ofType { kind name ofType { kind name ofType { kind name ofType { kind name ofType { kind name ofType { kind name ofType { kind name ofType { kind name } } } } } } } }"
STD_QUERY = """query IntrospectionQuery { __schema { description queryType { name } mutationType { name } subscriptionType { name }
 types { ...FullType } directives { name description isRepeatable locations args { ...InputValue } } } %s }
fragment FullType on __Type { kind name description specifiedByURL isOneOf
 fields(includeDeprecated: true) { name description args { ...InputValue } type { ...TypeRef } isDeprecated deprecationReason }
 fieldsCurrent: fields { name }
 inputFields { ...InputValue } interfaces { ...TypeRef }
 enumValues(includeDeprecated: true) { name description isDeprecated deprecationReason }
 enumValuesCurrent: enumValues { name }
 possibleTypes { ...TypeRef } }
fragment InputValue on __InputValue { name description type { ...TypeRef } defaultValue isDeprecated deprecationReason }
fragment TypeRef on __Type { """ + TYPE_REF + " }"


def fill_oftype(t):
    """the answer of a server stops at the bottom of the ofType chain with ofType absent or null"""
    if isinstance(t, dict) and set(t) == {"kind", "name"}:
        t["ofType"] = None
    if isinstance(t, dict):
        for v in t.values():
            fill_oftype(v)
    elif isinstance(t, list):
        for v in t:
            fill_oftype(v)


def names_only(tree):
    for t in tree.get("types") or []:
        for k in ("fieldsCurrent", "enumValuesCurrent"):
            t[k] = [x["name"] if isinstance(x, dict) else x for x in (t.get(k) or [])]
    return tree


# --------------------------------------------------------------------------------------------- mirror


def run_mirror(ctx, proved, stats):
    rc, so, se = ctx.harness("c16", ["-mode", "mirror", "-tier", ctx.tier, "-seed", ctx.seed,
                                     "-corpus", os.path.join(vf.VERIF, "corpus", "C16")])
    if rc != 0:
        raise RuntimeError("harness failed: " + se[-2000:])
    rows = [json.loads(l) for l in so.split("\n") if l]
    cases = [r for r in rows if r.get("schema")]
    rejected = [r for r in rows if r.get("reject")]
    for r in rejected:
        stats["dist"]["sdl-rejected-by-gqlparser" if r["id"].startswith("invalid") else "GENERATOR-REJECTED"] += 1
        if not r["id"].startswith("invalid"):
            # the generator or a directed probe is wrong, not the code: machinery failure
            ctx.violation({"kind": "check-error", "what": "schema generator produced SDL gqlparser rejects", "id": r["id"],
                           "sdl": r["sdl"], "detail": r["reject"]}, no_failing_input=True)
    model = ctx.driver("c16", ["mirror " + json.dumps(r["schema"]) for r in cases])
    for r, o in zip(cases, model):
        stats["evaluations"] += 1
        for t in r["tags"]:
            stats["dist"][t.split(":")[0] if t.startswith("directed:") else t] += 1
        nontrivial = [t for t in r["tags"] if t not in ("description", "list-type", "union", "custom-root-names")]
        if nontrivial:
            stats["nontrivial"].add(r["id"])
        try:
            m = json.loads(o)
        except ValueError:
            ctx.violation({"kind": "check-error", "what": "driver output", "id": r["id"], "detail": o[:500]}, no_failing_input=True)
            continue
        damaged = bool(r.get("damage"))
        if not damaged and not m["wf"]:
            ctx.violation({"kind": "correspondence", "what": "a schema gqlparser loaded is outside Schema.wf (hypothesis of rebuild_introspect)",
                           "id": r["id"], "sdl": r["sdl"], "wfFail": m.get("wfFail")}, no_failing_input=True)
            continue
        if not damaged and not m["roundtrip"]:
            ctx.violation({"kind": "proof", "what": "rebuild (introspect s) != normalise s evaluated on a wf schema", "id": r["id"],
                           "sdl": r["sdl"]}, no_failing_input=True)
        d = tree_diff(r["impl"], m["tree"])
        if d:
            stats["divergences"] += 1
            path, got, want = d[0]
            comp = component_of(path)
            rep = {"kind": "correspondence", "id": r["id"], "sdl": r["sdl"], "damage": r.get("damage"),
                   "first_difference": {"path": path, "implementation": got, "model": want},
                   "differences": len(d), "shape": {"part": "mirror", "component": comp}}
            failing = False
            if proved and not damaged:
                v = ctx.driver("c16", ["chk " + json.dumps({"schema": r["schema"], "impl": r["impl"]})])[0]
                rep["spec_verdict"] = v
                failing = v.startswith("violates:")
            elif damaged:
                rep["spec_verdict"] = "damaged schema (outside wf): model and implementation disagree on the nil-dereference behaviour"
            rep["replay"] = ("load the SDL with gqlparser.LoadSchema, walk introspection.WrapSchema(schema) with the standard "
                             "introspection query's shape: %s is %r, the schema says %r" % (path, got, want))
            ctx.violation(rep, no_failing_input=not failing)
            if len(ctx.violations) > 40:
                break
        if r["oracle"]:
            # Go-side oracle: a reported default value does not read back as the declared one / __type(name) differs
            cause = "go-string-escape" if ("default-unparsable" in r["oracle"] and GO_ESCAPE.search(r["oracle"])) else "other"
            comp = "defaultValue" if "default-" in r["oracle"] else "type-by-name"
            stats["oracle_failures"] += 1
            ctx.violation({"kind": "oracle", "id": r["id"], "sdl": r["sdl"], "verdict": r["oracle"],
                           "shape": {"part": "mirror", "component": comp, "cause": cause},
                           "replay": "load the SDL, read defaultValue from introspection, parse it back as a GraphQL value: " + r["oracle"]})
    stats["samples"] += [{"id": r["id"], "sdl": r["sdl"][:300], "tags": r["tags"]} for r in cases[18:20] + cases[60:61]]
    stats["rejected_sdl"] = len(rejected)
    return cases


# ----------------------------------------------------------------------------------------------- gate


def exec_schema(binary, prelude, override=None):
    rc, so, se = vf.sh([binary, "-mode", "schema"] + (["-override", override] if override else []), timeout=120)
    if rc != 0:
        raise RuntimeError("schema dump failed: " + se[-2000:])
    s = json.loads(so)
    s["types"] += prelude
    for t in s["types"]:
        for f in t.get("fields") or []:
            if f.get("dirs"):
                # @deprecated has no runtime implementation (no directive func is generated for it)
                f["dirs"] = [d for d in f["dirs"] if d not in ("deprecated", "shareable", "key", "external")]
    return s


def judge_disabled(ctx, stats, r, m, label, how, extra=None, report=None):
    """a request for which introspection is disabled: the Spec evaluated directly on the implementation's response
    (every gated key null with the gate's error; data null for a non-null one), then response == gate model"""
    report = report or ctx.violation
    p = r["payloads"][0]
    data = p["data"]
    errs = sorted(e["path"] + " :: " + e["message"] for e in p["errors"])
    gated = m["gated"]
    if gated:
        stats["nontrivial"].add(label + ":" + r["query"] + (":" + json.dumps(extra["exts"]) if extra else ""))
    bad = None
    for g in gated:
        if data is not None and data.get(g["key"], "<absent>") is not None:
            bad = "field %s (response key %s) is not null with introspection disabled" % (g["name"], g["key"])
        elif (g["key"] + " :: " + g["msg"]) not in errs:
            bad = "no error '%s' at path %s" % (g["msg"], g["key"])
        elif g["nn"] and data is not None:
            bad = "non-null %s failed but data is not null" % g["name"]
        if bad:
            break
    if not bad and not gated and ("__schema" in r["query"] or "__type(" in r["query"] or "_service" in r["query"]):
        stats["dist"]["gate:all-gated-fields-skipped"] += 1
    diverges = render(data) != m["data"] or errs != m["errors"] or not m["wf"] or not m["noDirs"] or m["unlogged"]
    if bad:
        rep = {"kind": "gate", "config": label, "query": r["query"], "variables": r.get("variables"),
               "operationName": r.get("operationName"), "response": p, "expected": {"data": m["data"], "errors": m["errors"]},
               "what": bad, "shape": {"part": "gate", "field": [g["name"] for g in gated if data is not None and data.get(g["key"]) is not None][:1] or ["?"]},
               "replay": "generated server %s, %s, run the query: %s" % (label, how, bad)}
        rep.update(extra or {})
        report(rep)
    elif diverges:
        stats["divergences"] += 1
        rep = {"kind": "correspondence", "config": label, "query": r["query"], "variables": r.get("variables"),
               "response": {"data": render(data), "errors": errs}, "model": m,
               "shape": {"part": "gate", "component": "execution"},
               "replay": "gate model (IntroGate over Exec) and generated server disagree; the Spec (gated positions null with the gate's error) holds on the response"}
        rep.update(extra or {})
        report(rep, no_failing_input=True)
    return gated


def run_gate(ctx, proved, stats, binary, label, fed, prelude, hbin, override=None, n=None):
    """`override`: file with the SDL the server is constructed with (Config.Schema); the gate must hold whatever is served"""
    n = n or (500 if ctx.tier == "quick" else 5000)
    ovargs = ["-override", override] if override else []
    args = [hbin, "-mode", "gate", "-seed", str(ctx.seed), "-n", str(n)] + (["-fed"] if fed else [])
    rc, so, se = vf.sh(args, timeout=600)
    if rc != 0:
        raise RuntimeError("gate case generation failed: " + se[-2000:])
    cases = [json.loads(l) for l in so.split("\n") if l]
    tags = {c["id"]: c.get("tags") or [] for c in cases}
    rc, ro, re_ = vf.sh([binary, "-mode", "run"] + ovargs, inp=so, timeout=1800, env={"GOMEMLIMIT": "4GiB"})
    if rc != 0:
        raise RuntimeError("runner failed rc=%s: %s" % (rc, re_[-2000:]))
    res = [json.loads(l) for l in ro.split("\n") if l]
    byid = {r["id"]: r for r in res}
    dis = [r for r in res if r["id"].endswith("/false") and not r.get("gateErrors") and r.get("payloads")]
    stats["gate_rejected_by_validation"] += sum(1 for r in res if r.get("gateErrors"))
    lines = ["schema " + json.dumps(exec_schema(binary, prelude, override))] + ["gate " + json.dumps(r) for r in dis]
    out = ctx.driver("c16", lines)
    if out[0] != "ok":
        raise RuntimeError("driver did not accept the execution schema: " + out[0][:300])
    how = "introspection extension NOT installed" + (", Config.Schema = the SDL in %s" % override if override else "")
    for r, o in zip(dis, out[1:]):
        stats["evaluations"] += 1
        for t in tags.get(r["id"], []):
            stats["dist"]["gate:" + t] += 1
        stats["dist"]["gate-config:" + label] += 1
        try:
            m = json.loads(o)
        except ValueError:
            ctx.violation({"kind": "check-error", "what": "gate driver output", "id": r["id"], "query": r["query"], "detail": o[:300]},
                          no_failing_input=True)
            continue
        gated = judge_disabled(ctx, stats, r, m, label, how)
        # ---- control: the same query with the extension installed answers at __schema / _service
        on = byid.get(r["id"][:-len("false")] + "true")
        if on and on.get("payloads") and gated:
            d2 = on["payloads"][0]["data"]
            if d2 is not None:
                for g in gated:
                    if g["name"] != "__type" and d2.get(g["key"]) is None:
                        ctx.violation({"kind": "check-error", "what": "control run with introspection enabled did not answer at " + g["key"],
                                       "query": r["query"], "response": on["payloads"][0]}, no_failing_input=True)
                stats["enabled_controls"] += 1
    if dis:
        stats["samples"].append({"config": label, "query": dis[len(dis) // 2]["query"][:300], "response": render(dis[len(dis) // 2]["payloads"][0]["data"])[:200]})
    return len(dis)


def run_gate_cfg(ctx, stats, binary, label, fed, prelude, hbin):
    """the configuration dimension: handler extensions around the gate in every registration order. The contract
    (Lean `Spec.effective`: parameter mutators, context mutators, operation middleware, each kind in registration
    order, starting disabled) says for each request whether it is rejected, denied, or executed with the gate
    closed / open; the REAL executor of the generated server must agree, and a request the contract disables
    introspection for must observe the Spec of the gate."""
    n = (150 if ctx.tier == "quick" else 1000)
    args = [hbin, "-mode", "gatecfg", "-seed", str(ctx.seed), "-n", str(n), "-corpus", os.path.join(vf.VERIF, "corpus", "C16", "gatecfg")] + (["-fed"] if fed else [])
    rc, so, se = vf.sh(args, timeout=600)
    if rc != 0:
        raise RuntimeError("gate configuration case generation failed: " + se[-2000:])
    cases = {}
    for l in so.split("\n"):
        if l:
            c = json.loads(l)
            cases[c["id"]] = c
    rc, ro, re_ = vf.sh([binary, "-mode", "run"], inp=so, timeout=1800, env={"GOMEMLIMIT": "4GiB"})
    if rc != 0:
        raise RuntimeError("runner failed rc=%s: %s" % (rc, re_[-2000:]))
    res = [json.loads(l) for l in ro.split("\n") if l]
    if len(res) != len(cases):
        raise RuntimeError("runner answered %d of %d configuration cases" % (len(res), len(cases)))
    verdicts = ctx.driver("c16", ["cfg " + json.dumps({"exts": cases[r["id"]]["exts"], "role": cases[r["id"]]["role"],
                                                         "op": cases[r["id"]].get("operationName", "")}) for r in res])
    todo, late = [], []
    budget = [10]

    def report(obj, no_failing_input=False):
        # one changed loop breaks hundreds of configurations: a few replays per server are enough
        stats["cfg_violations"] += 1
        if budget[0] > 0:
            budget[0] -= 1
            ctx.violation(obj, no_failing_input=no_failing_input)
    for r, v in zip(res, verdicts):
        c = cases[r["id"]]
        stats["evaluations"] += 1
        stats["cfg_cases"] += 1
        for t in c.get("tags") or []:
            if t.startswith("cfg-"):
                stats["dist"]["gate-" + t] += 1
        how = "handler extensions registered in this order: %s; request extensions %s" % (
            json.dumps(c["exts"]), json.dumps(c.get("extensions")))
        extra = {"exts": c["exts"], "request_extensions": c.get("extensions"), "executed_query": c["realQuery"]}
        try:
            v = json.loads(v)
            spec, impl = v["spec"], v["impl"]
        except (ValueError, KeyError):
            ctx.violation({"kind": "check-error", "what": "cfg driver output", "id": r["id"], "detail": str(v)[:300]}, no_failing_input=True)
            continue
        stats["dist"]["gate-cfg-outcome:" + spec["k"] + (":disabled" if spec.get("disable") else ":enabled" if spec["k"] == "run" else "")] += 1
        if impl != spec:
            # the code read through the regenerated facts departs from the contract (effective_eq_spec is broken too)
            stats["cfg_model_departures"] += 1
        if r.get("crash") or r.get("hung"):
            ctx.violation({"kind": "gate-config", "config": label, "what": "the runner crashed / hung: %s" % (r.get("crash") or "hung"),
                           "query": c["query"], **extra, "shape": {"part": "gate-config", "outcome": "crash"},
                           "replay": "generated server %s, %s" % (label, how)})
            continue
        hook_errs = [e["message"] for e in r.get("gateErrors") or [] if e["message"].startswith("verif-hook:")]
        if r.get("gateErrors") and not hook_errs:
            stats["gate_rejected_by_validation"] += 1
            continue
        got = None
        if r.get("gateErrors"):
            got = {"k": "rejected", "msg": r["gateErrors"][0]["message"]} if len(r["gateErrors"]) == 1 else {"k": "rejected", "msgs": hook_errs}
        elif not r.get("payloads"):
            got = {"k": "no-response"}
        else:
            p = r["payloads"][0]
            den = [e["message"] for e in p["errors"] if e["message"].startswith("verif-hook:")]
            if den and p["data"] is None:
                got = {"k": "denied", "msg": den[0]} if len(p["errors"]) == 1 else {"k": "denied", "msgs": [e["message"] for e in p["errors"]]}
        if spec["k"] in ("rejected", "denied") or got is not None:
            if got != spec:
                late.append({"kind": "gate-config", "config": label, "query": c["query"], "operationName": c.get("operationName"), **extra,
                               "what": "the contract (hooks in registration order) says %s, the server answered %s" % (
                                   json.dumps(spec), json.dumps(got or {"k": "run"})),
                               "response": (r.get("payloads") or [None])[0], "gateErrors": r.get("gateErrors"),
                               "shape": {"part": "gate-config", "outcome": spec["k"]},
                               "replay": "generated server %s, %s: expected %s" % (label, how, json.dumps(spec))})
            continue
        if spec["k"] != "run":
            ctx.violation({"kind": "check-error", "what": "contract outcome " + json.dumps(spec), "id": r["id"]}, no_failing_input=True)
            continue
        todo.append((r, c, spec, how, extra))
    # ---- executed requests: the gate model on the document the server executed
    lines = ["schema " + json.dumps(exec_schema(binary, prelude))] + ["gate " + json.dumps(r) for r, _, _, _, _ in todo]
    out = ctx.driver("c16", lines)
    if out[0] != "ok":
        raise RuntimeError("driver did not accept the execution schema: " + out[0][:300])
    for (r, c, spec, how, extra), o in zip(todo, out[1:]):
        try:
            m = json.loads(o)
        except ValueError:
            ctx.violation({"kind": "check-error", "what": "gate driver output", "id": r["id"], "query": c["realQuery"], "detail": o[:300]},
                          no_failing_input=True)
            continue
        r = dict(r, query=c["realQuery"])
        if spec["disable"]:
            judge_disabled(ctx, stats, r, m, label, how, extra, report)
            continue
        # the contract enables introspection for this request: no gate error, __schema / _service answer
        p = r["payloads"][0]
        data = p["data"]
        gate_errs = [e for e in p["errors"] if e["message"] in ("introspection disabled", "federated introspection disabled")]
        bad = None
        if gate_errs:
            bad = "error '%s' at %s although introspection is enabled for this request" % (gate_errs[0]["message"], gate_errs[0]["path"])
        elif data is not None:
            for g in m["gated"]:
                if g["name"] != "__type" and data.get(g["key"]) is None:
                    bad = "field %s (response key %s) is null although introspection is enabled for this request" % (g["name"], g["key"])
        if bad:
            late.append({"kind": "gate-config", "config": label, "query": c["realQuery"], "variables": r.get("variables"),
                           "operationName": c.get("operationName"), **extra, "response": p, "what": bad,
                           "shape": {"part": "gate-config", "outcome": "enabled"},
                           "replay": "generated server %s, %s, run the query: %s" % (label, how, bad)})
        elif m["gated"]:
            stats["enabled_controls"] += 1
    for obj in late:
        report(obj)
    return len(res)


def run_server_mirror(ctx, stats, binary, label, hbin, probe):
    """the standard introspection query through the GENERATED server (introspection enabled) against the model"""
    pdir = os.path.join(vf.GO, "probes", probe)
    files = ",".join(os.path.join(pdir, f) for f in sorted(os.listdir(pdir)) if f.endswith(".graphql"))
    rc, so, se = vf.sh([hbin, "-mode", "sdl", "-files", files], timeout=120)
    if rc != 0:
        raise RuntimeError("probe schema does not load: " + se[-1000:])
    row = json.loads(so)
    names = sorted(t["name"] for t in row["schema"]["types"])
    extra = " ".join('t%d: __type(name: "%s") { ...FullType }' % (i, n) for i, n in enumerate(names)) + ' nope: __type(name: "NoSuchType") { name }'
    case = {"id": "std", "query": STD_QUERY % extra, "plan": {"seed": 1, "rates": {}}, "introspection": True, "timeoutMs": 60000}
    rc, ro, re_ = vf.sh([binary, "-mode", "run"], inp=json.dumps(case) + "\n", timeout=300)
    if rc != 0:
        raise RuntimeError("runner failed on the introspection query: " + re_[-2000:])
    res = json.loads(ro.split("\n")[0])
    if res.get("gateErrors") or not res.get("payloads") or res["payloads"][0]["errors"] or res["payloads"][0]["data"] is None:
        ctx.violation({"kind": "server-mirror", "config": label, "what": "the standard introspection query fails on the generated server",
                       "detail": json.dumps(res.get("gateErrors") or res.get("payloads"))[:2000],
                       "shape": {"part": "server-mirror", "component": "query-fails"},
                       "replay": "generated server %s with the introspection extension: run the standard introspection query" % label})
        return
    data = res["payloads"][0]["data"]
    fill_oftype(data)
    m = json.loads(ctx.driver("c16", ["mirror " + json.dumps(row["schema"])])[0])
    want = m["tree"]
    got = names_only(data["__schema"])
    stats["evaluations"] += 1
    d = tree_diff(got, want)
    bytype = {t["name"]: t for t in want["types"]}
    for i, n in enumerate(names):
        t = data.get("t%d" % i)
        if t is not None:
            names_only({"types": [t]})
        d += tree_diff(t, bytype[n], "/__type(%s)" % n)
    if data.get("nope") is not None:
        d.append(("/__type(NoSuchType)", data.get("nope"), None))
    stats["dist"]["server-standard-query:" + label] += 1
    if d:
        stats["divergences"] += 1
        path, g, w = d[0]
        ctx.violation({"kind": "server-mirror", "config": label, "first_difference": {"path": path, "server": g, "model": w},
                       "differences": len(d), "shape": {"part": "server-mirror", "component": component_of(path)},
                       "replay": "generated server %s (probe go/probes/%s) with introspection enabled, standard introspection query: %s is %r, the schema says %r"
                                 % (label, probe, path, g, w)})


# ------------------------------------------------------------------------------- which schema is served


def layout_of(cfg):
    return "follow-schema" if cfg.startswith("follow") else "single-file"


def run_served(ctx, stats, built, cfgs, hbin, probe, prelude, proved):
    """the dimension WHICH schema the server serves: every generated server is constructed with
    `Config{Schema: override}` for a stream of overrides (the compiled-in sources again, directed ones in
    corpus/C16/override, seeded subset / superset / changed / mixed edits of the compiled-in SDL, unrelated schemas).
    Contract (Lean `Served.Spec`): `__schema` and every `__type(name)` describe the override — the executable schema,
    the one the validator uses (controlled by a query on a dropped root field). The code read through the regenerated
    facts of that exec layout (`Served.Impl` over Gen.IntroSrc) is evaluated beside it. Then the gate queries run
    on servers that serve a subset and a superset."""
    pdir = os.path.join(vf.GO, "probes", probe)
    files = ",".join(os.path.join(pdir, f) for f in sorted(os.listdir(pdir)) if f.endswith(".graphql"))
    rc, so, se = vf.sh([hbin, "-mode", "sdl", "-files", files], timeout=120)
    if rc != 0:
        raise RuntimeError("probe schema does not load: " + se[-1000:])
    compiled = json.loads(so)["schema"]
    rc, so, se = vf.sh([hbin, "-mode", "overrides", "-files", files, "-seed", str(ctx.seed), "-tier", ctx.tier,
                        "-corpus", os.path.join(vf.VERIF, "corpus", "C16", "override")], timeout=600)
    if rc != 0:
        raise RuntimeError("override generation failed: " + se[-2000:])
    rows = [json.loads(l) for l in so.split("\n") if l]
    for r in rows:
        if r.get("reject"):
            ctx.violation({"kind": "check-error", "what": "an override schema does not load", "id": r["id"], "sdl": r["sdl"],
                           "detail": r["reject"]}, no_failing_input=True)
    rows = [r for r in rows if not r.get("reject")]
    cnames = sorted(t["name"] for t in compiled["types"])
    croot = {f["name"]: f for t in compiled["types"] if t["name"] == compiled.get("query") for f in t["fields"]}
    for r in rows:
        r["names"] = sorted(set(cnames) | set(t["name"] for t in r["schema"]["types"]))
        oroot = set(f["name"] for t in r["schema"]["types"] if t["name"] == r["schema"].get("query") for f in t["fields"])
        # a compiled-in root field the override does not serve, selectable without arguments or sub-selection
        r["dropped"] = next((n for n, f in sorted(croot.items()) if n not in oroot and not n.startswith("__")
                             and (f["type"].get("name") in ("Int", "String", "Boolean", "ID", "Float"))
                             and not any(a["type"].get("nn") and a.get("default") is None for a in f["args"])), None)
    # ---- the contract and the code's reading, per (layout, override)
    layouts = sorted(set(layout_of(c) for c in cfgs))
    lines = ["compiled " + json.dumps(compiled)]
    keys = []
    for lay in layouts:
        for r in rows:
            lines.append("served " + json.dumps({"layout": lay, "override": r["schema"], "names": r["names"]}))
            keys.append((lay, r["id"]))
    out = ctx.driver("c16", lines)
    if out[0] != "ok":
        raise RuntimeError("driver did not accept the compiled-in schema: " + out[0][:300])
    model = {}
    for k, o in zip(keys, out[1:]):
        try:
            model[k] = json.loads(o)
        except ValueError:
            ctx.violation({"kind": "check-error", "what": "served driver output", "id": k[1], "detail": o[:300]}, no_failing_input=True)
    compiled_tree = json.loads(ctx.driver("c16", ["mirror " + json.dumps(compiled)])[0])["tree"]
    fam = lambda t: t.split(":")[0]
    for cfg in cfgs:
        b = built[cfg]
        if isinstance(b, Exception):
            continue
        label, lay = "%s/%s" % (probe, cfg), layout_of(cfg)
        cases = []
        for i, r in enumerate(rows):
            extra = " ".join('t%d: __type(name: "%s") { ...FullType }' % (j, n) for j, n in enumerate(r["names"])) + ' nope: __type(name: "NoSuchType") { name }'
            cases.append({"id": "std/%d" % i, "query": STD_QUERY % extra, "plan": {"seed": 1, "rates": {}}, "introspection": True,
                          "timeoutMs": 60000, "schemaSDL": r["sdl"]})
            cases.append({"id": "off/%d" % i, "query": '{ __schema { queryType { name } } t: __type(name: "%s") { name } }' % (r["schema"].get("query") or "Query"),
                          "plan": {"seed": 1, "rates": {}}, "timeoutMs": 60000, "schemaSDL": r["sdl"]})
            if r["dropped"]:
                cases.append({"id": "dropped/%d" % i, "query": "{ %s }" % r["dropped"], "plan": {"seed": 1, "rates": {}}, "introspection": True,
                              "timeoutMs": 60000, "schemaSDL": r["sdl"]})
        rc, ro, re_ = vf.sh([b, "-mode", "run"], inp="".join(json.dumps(c) + "\n" for c in cases), timeout=1800, env={"GOMEMLIMIT": "4GiB"})
        if rc != 0:
            raise RuntimeError("runner failed on the override cases: " + re_[-2000:])
        res = {}
        for l in ro.split("\n"):
            if l:
                x = json.loads(l)
                res[x["id"]] = x
        budget = 4
        for i, r in enumerate(rows):
            m = model.get((lay, r["id"]))
            x = res.get("std/%d" % i)
            if m is None or x is None:
                continue
            stats["evaluations"] += 1
            stats["served_cases"] += 1
            stats["dist"]["served:" + ("identity" if r["id"] == "identity" else "unrelated" if "unrelated" in r["tags"] else r["relation"])] += 1
            stats["dist"]["served-config:" + label] += 1
            for t in set(fam(t) for t in r["tags"]):
                if t.startswith(("drop-", "add-", "change-")):
                    stats["dist"]["served-edit:" + t] += 1
            if r["id"] != "identity":
                stats["nontrivial"].add("served:%s:%s" % (label, r["id"]))
            base = {"config": label, "layout": lay, "override": r["id"], "relation": r["relation"], "edits": r["tags"], "override_sdl": r["sdl"]}
            how = ("generated server %s (probe go/probes/%s, exec layout %s) constructed with Config.Schema = gqlparser.LoadSchema(override_sdl) "
                   "[override %s, a %s of the compiled-in schema], introspection enabled" % (label, probe, lay, r["id"], r["relation"]))
            if not m["wf"]:
                ctx.violation(dict(base, kind="correspondence", what="an override gqlparser loaded is outside Schema.wf (hypothesis of served_mirror)"),
                              no_failing_input=True)
                continue
            if x.get("crash") or x.get("hung") or x.get("gateErrors") or not x.get("payloads") or x["payloads"][0]["errors"] or x["payloads"][0]["data"] is None:
                if budget > 0:
                    budget -= 1
                    ctx.violation(dict(base, kind="served-schema", what="the standard introspection query fails on a server constructed with Config.Schema",
                                       detail=json.dumps(x.get("crash") or x.get("gateErrors") or x.get("payloads"))[:2000],
                                       shape={"part": "served", "component": "query-fails", "layout": lay},
                                       replay=how + ": the standard introspection query fails"))
                stats["served_violations"] += 1
                continue
            data = x["payloads"][0]["data"]
            fill_oftype(data)
            got = names_only(data["__schema"])
            d = [("/__schema" + p, g, w) for p, g, w in tree_diff(got, m["specTree"])]
            for j, n in enumerate(r["names"]):
                t = data.get("t%d" % j)
                if t is not None:
                    names_only({"types": [t]})
                d += tree_diff(t, m["specTypes"][n], "/__type(%s)" % n)
            if data.get("nope") is not None:
                d.append(("/__type(NoSuchType)", data.get("nope"), None))
            # does the code, read through the regenerated facts of this layout, answer something else than the contract?
            explained, impl_equals_server = False, None
            if m.get("layoutKnown"):
                it, ity = m["implTree"], m["implTypes"]
                di = [] if it == "same" else [("", it, None)] if it == "nilDeref" else tree_diff(it, m["specTree"])
                dt = [] if ity == "same" else [("", ity, None)] if ity == "nilDeref" else [
                    x for n in r["names"] for x in tree_diff(ity[n], m["specTypes"][n], "/__type(%s)" % n)]
                explained = bool(di or dt)
                if explained and it != "nilDeref" and ity != "nilDeref":
                    impl_equals_server = not tree_diff(got, m["specTree"] if it == "same" else it) and all(
                        not tree_diff(data.get("t%d" % j), (m["specTypes"] if ity == "same" else ity)[n]) for j, n in enumerate(r["names"]))
            if d:
                stats["divergences"] += 1
                stats["served_violations"] += 1
                path, g, w = d[0]
                which = "__schema" if path.startswith("/__schema") else "__type"
                # what the server answered instead: the OTHER schema of the process?
                other = bool(r["id"] != "identity" and not tree_diff(got, compiled_tree)) if which == "__schema" else None
                if budget > 0:
                    budget -= 1
                    ctx.violation(dict(base, kind="served-schema", first_difference={"path": path, "server": g, "executable_schema": w},
                                       differences=len(d), server_describes_compiled_in_schema=other,
                                       facts_reading=("the code read through the regenerated facts of this layout (Served.Impl over Gen.IntroSrc) departs from the contract here"
                                                      + (" and answers exactly what the server answered" if impl_equals_server else "") if explained
                                                      else "the regenerated facts predict the contract's answer"),
                                       what="%s does not describe the schema the server serves" % which,
                                       shape={"part": "served", "component": which, "layout": lay},
                                       replay=how + ", standard introspection query (+ __type for every type name): %s is %r, the served schema says %r%s"
                                       % (path, g, w, " — the answer is the description of the compiled-in schema" if other else "")))
            elif explained:
                # the server keeps the contract although the facts say otherwise: the reading of the facts is off
                ctx.violation(dict(base, kind="correspondence", what="the code read through Gen.IntroSrc departs from the contract, the generated server does not",
                                   shape={"part": "served", "component": "facts", "layout": lay},
                                   replay="Served.Impl over the regenerated facts and the generated server disagree; the Spec holds on the server's answer"),
                              no_failing_input=True)
            # ---- disabled on the same server: both entry points answer the gate's error
            y = res.get("off/%d" % i)
            if y and y.get("payloads") and not y.get("gateErrors"):
                p = y["payloads"][0]
                errs = sorted(e["path"] + " :: " + e["message"] for e in p["errors"])
                if p["data"] is None or p["data"].get("__schema") is not None or p["data"].get("t") is not None or \
                        errs != ["__schema :: introspection disabled", "t :: introspection disabled"]:
                    stats["served_violations"] += 1
                    if budget > 0:
                        budget -= 1
                        ctx.violation(dict(base, kind="gate", query=y["query"], response=p, what="introspection is disabled but a server constructed with Config.Schema answers",
                                           shape={"part": "gate", "field": ["__schema" if (p["data"] or {}).get("__schema") is not None else "__type"]},
                                           replay=how.replace("introspection enabled", "introspection extension NOT installed") + ", run the query " + y["query"]))
                stats["evaluations"] += 1
            # ---- control of the premise: the override IS what executes (a dropped root field no longer validates)
            z = res.get("dropped/%d" % i)
            if z is not None:
                stats["served_validator_controls"] += 1
                if not z.get("gateErrors"):
                    stats["served_violations"] += 1
                    if budget > 0:
                        budget -= 1
                        ctx.violation(dict(base, kind="served-schema", query=z["query"], response=(z.get("payloads") or [None])[0],
                                           what="a root field the override does not have is still accepted: the override is not the schema the executor validates against",
                                           shape={"part": "served", "component": "validator", "layout": lay},
                                           replay=how + ": the query %s is not rejected" % z["query"]))
        # ---- the gate on servers that serve a subset / a superset (the hiding queries, introspection disabled)
        n = 60 if ctx.tier == "quick" else 400
        for rel in ("subset", "superset"):
            # the directed one of corpus/C16/override comes first; the thorough tier adds seeded ones
            safe = [r for r in rows if r["gateSafe"] and r["relation"] == rel and r["id"] != "identity"]
            safe = safe[:1] + ([x for x in safe[1:] if x["id"].startswith("derived/")][:2] if ctx.tier != "quick" else [])
            for r in safe:
                path = os.path.join(vf.CACHE, "c16_override_%s_%s.graphql" % (rel, re.sub(r"[^A-Za-z0-9]", "_", r["id"])))
                with open(path, "w") as f:
                    f.write(r["sdl"])
                stats["gate_cases_override"] = stats.get("gate_cases_override", 0) + run_gate(
                    ctx, proved, stats, b, "%s+Config.Schema=%s(%s)" % (label, r["id"], rel), False, prelude, hbin, override=path, n=n)
    stats["samples"].append({"served_override": rows[min(5, len(rows) - 1)]["id"], "relation": rows[min(5, len(rows) - 1)]["relation"],
                             "edits": rows[min(5, len(rows) - 1)]["tags"]})


# ------------------------------------------------------------------------------------------------ run


def run(ctx):
    ctx.assumptions += [
        "gqlparser (SDL parser, schema validator, ast.Value.String, Schema.PossibleTypes) is modelled-not-verified: the model starts from the ast.Schema it loaded; default values are compared as GraphQL text rendered by an independent printer and re-parsed",
        "the schema model carries exactly what the standard introspection query reports: directives *applied* to schema elements other than @deprecated/@specifiedBy/@oneOf are not part of it",
        "the gate is modelled on the C01 execution model (field collection, null bubbling); bound introspection methods are oracle entries at the root paths; generated servers are built at check time from /repo's templates",
        "federation `_service` is checked on one federation-v2 probe schema",
        "which schema is served: the two *ast.Schema values of a generated package (compiled-in parsedSchema, Config.Schema) and the four functions that choose between them are modelled (Model/IntroServed.lean); the facts are regenerated from the two templates by go/extract/introsrc.go and tied to the generated servers by constructing them with overrides; resolvers of fields that exist only in an override are not executed (the generated code has none)",
        "configuration around the gate: extensions are modelled by what they do to DisableIntrospection (keep / set / flip / fail under a per-request condition on the request's role and operation name); the facts about processExtensions, CreateOperationContext and extension.Introspection are regenerated by go/extract/extorder.go and the reading of those facts (Impl.effective) is tied to the real executor by running every configuration on the generated servers",
    ]
    stats = {"evaluations": 0, "dist": Counter(), "nontrivial": set(), "divergences": 0, "oracle_failures": 0,
             "samples": [], "gate_rejected_by_validation": 0, "enabled_controls": 0, "cfg_cases": 0, "cfg_model_departures": 0, "cfg_violations": 0,
             "served_cases": 0, "served_violations": 0, "served_validator_controls": 0}
    # regenerated facts: processExtensions / CreateOperationContext / extension.Introspection (Gen/ExtOrder.lean)
    if not ctx.extract("ExtOrder"):
        # the source is outside what the translator reads (reported as a broken tie): facts with no reading, so that
        # the configuration theorem is open but the driver still builds and every differential run below is made
        with open(os.path.join(vf.LEAN, "GqlgenVerif", "Gen", "ExtOrder.lean"), "w") as f:
            f.write("/- go/extract ExtOrder FAILED on /repo's current sources: no facts -/\nimport GqlgenVerif.Model.IntroGateCfg\n"
                    "namespace GqlgenVerif.Gen.ExtOrder\nopen GqlgenVerif.IntroGate.Cfg\n"
                    "def facts : Facts := { slots := [], initialDisable := false, createLoops := [], introspectionExt := [] }\n"
                    "end GqlgenVerif.Gen.ExtOrder\n")
    # regenerated facts: which schema NewExecutableSchema / Schema() / introspectSchema / introspectType of BOTH exec
    # layouts read (Gen/IntroSrc.lean)
    if not ctx.extract("IntroSrc"):
        with open(os.path.join(vf.LEAN, "GqlgenVerif", "Gen", "IntroSrc.lean"), "w") as f:
            f.write("/- go/extract IntroSrc FAILED on /repo's current templates: no facts -/\nimport GqlgenVerif.Model.IntroServed\n"
                    "namespace GqlgenVerif.Gen.IntroSrc\nopen GqlgenVerif.Introspect.Served\n"
                    "def layouts : List Layout := []\nend GqlgenVerif.Gen.IntroSrc\n")
    proved_all = ctx.prove(props=["GqlgenVerif.Props.C16", "GqlgenVerif.Props.C16Cfg", "GqlgenVerif.Props.C16Served"])
    if not proved_all:
        ctx.cov["proof_failure"] = ctx.proof_failure
    # the mirror / gate theorems (Props/C16.lean) stand on their own when only the configuration / served theorems broke
    proved = proved_all or all("C16Cfg.lean" in str(f) or "C16Served.lean" in str(f) for f in (ctx.proof_failure or ["?"]))

    if not getattr(ctx, "driver_ok", False):
        ctx.violation({"kind": "proof", "failing": ctx.proof_failure, "what": "Lean model / driver does not build"}, no_failing_input=True)
    else:
        run_mirror(ctx, proved, stats)
        # ---- generated servers
        hbin = os.path.join(vf.CACHE, "h_c16")
        rc, so, se = vf.sh([hbin, "-mode", "prelude"], timeout=60)
        if rc != 0:
            raise RuntimeError("prelude dump failed: " + se[-1000:])
        prelude = json.loads(so)
        cfgs = ["base", "follow_funcsyn_wl2"] if ctx.tier == "quick" else ["base", "follow", "funcsyn", "follow_funcsyn_wl2", "noptr", "wl1"]
        fedcfgs = ["base"] if ctx.tier == "quick" else ["base", "follow"]
        built = gensrv.build_matrix(ctx, "intro", cfgs)
        gate_cases = 0
        for cfg in cfgs:
            b = built[cfg]
            if isinstance(b, Exception):
                ctx.violation({"kind": "generated-server-does-not-build", "config": cfg, "detail": str(b)[-3000:],
                               "shape": {"part": "build", "config": cfg}}, no_failing_input=True)
                continue
            gate_cases += run_gate(ctx, proved, stats, b, "intro/" + cfg, False, prelude, hbin)
            run_gate_cfg(ctx, stats, b, "intro/" + cfg, False, prelude, hbin)
            run_server_mirror(ctx, stats, b, "intro/" + cfg, hbin, "intro")
        run_served(ctx, stats, built, cfgs, hbin, "intro", prelude, proved)
        for cfg in fedcfgs:
            try:
                b = gensrv.build_server(ctx, "introfed", cfg, extra_yml=FED_YML.format(pkg="introfed_" + cfg))
            except RuntimeError as e:
                ctx.violation({"kind": "generated-server-does-not-build", "config": "introfed/" + cfg, "detail": str(e)[-3000:],
                               "shape": {"part": "build", "config": cfg}}, no_failing_input=True)
                continue
            gate_cases += run_gate(ctx, proved, stats, b, "introfed/" + cfg, True, prelude, hbin)
            run_gate_cfg(ctx, stats, b, "introfed/" + cfg, True, prelude, hbin)
        stats["gate_cases"] = gate_cases + stats.get("gate_cases_override", 0)

    if not proved_all and not any(not nf for _, nf in ctx.violations) and not any(
            "proof" in open(p).read()[:200] for p, _ in ctx.violations):
        ctx.violation({"kind": "proof", "failing": ctx.proof_failure}, no_failing_input=True)

    ctx.cov.update({
        "evaluations": stats["evaluations"],
        "distinct_nontrivial": len(stats["nontrivial"]),
        "rule": "mirror: directed SDL probes (one per element class of the statement) + seeded random schemas (interface hierarchies, deprecated fields/arguments/input fields/enum values/directive arguments with and without reason, defaults of every kind, repeatable directives, descriptions, custom roots, extensions) + schemas damaged after loading + invalid SDL; non-trivial = schema with at least one deprecation, default, interface chain, directive or damage. gate: generated queries reaching __schema/__type/_service through aliases (incl. masquerading as other fields), inline/named/nested/repeated fragments, @skip/@include with literals, variables and variable defaults, merged duplicates, several operations; non-trivial = distinct (config, query) with at least one gated field collected. gate configuration: 13 directed lists of handler extensions (corpus/C16/gatecfg: extension.Introspection with a context mutator that disables / enables per role or operation, AroundOperations gating, role-rewriting and failing parameter mutators, toggles, one extension with all hooks) in EVERY registration order x roles x operations + seeded random lists of 0-6 extensions (each any subset of parameter mutator / context mutator / operation middleware, per-request conditions, the query optionally supplied by a parameter mutator) in generated, reversed and shuffled order; non-trivial = distinct (config, extension order, query) executed with the gate closed and a gated field collected. served schema: every generated server (both exec layouts) constructed with Config.Schema = the compiled-in sources again / 4 directed overrides (corpus/C16/override: public subset, superset, same elements changed, minimal) / seeded subset, superset, changed and mixed edits of the compiled-in SDL (drop or add types of every kind, fields, arguments, enum values, input fields, directive definitions, implementations, union members, the mutation root; change descriptions, defaults, own deprecations, nullability, field order, repeatable, locations) / unrelated random schemas; standard introspection query + __type for every type name of either schema, the same with introspection disabled, a query on a dropped root field (the validator uses the override), and the hiding queries on servers serving a subset and a superset; non-trivial = distinct (config, override) with an override other than the compiled-in sources",
        "input_distribution": dict(stats["dist"]),
        "correspondence_divergences": stats["divergences"],
        "go_oracle_failures": stats["oracle_failures"],
        "gate_cases": stats.get("gate_cases", 0),
        "gate_queries_rejected_by_validation": stats["gate_rejected_by_validation"],
        "enabled_control_runs": stats["enabled_controls"],
        "gate_configuration_cases": stats["cfg_cases"],
        "gate_configuration_model_departures": stats["cfg_model_departures"],
        "gate_configuration_violations": stats["cfg_violations"],
        "served_schema_cases": stats["served_cases"],
        "served_schema_violations": stats["served_violations"],
        "served_schema_validator_controls": stats["served_validator_controls"],
        "rejected_sdl": stats.get("rejected_sdl", 0),
        "samples": stats["samples"][:6],
        "proved_for_all_inputs": ["rebuild_introspect", "introspect_injective", "own_deprecation", "interface_interfaces", "current_views",
                                  "types_sorted_perm", "type_by_name", "disabled_reveals_nothing", "disabled_independent_of_introspection_data",
                                  "effective_eq_spec (over the facts regenerated from processExtensions / CreateOperationContext / extension.Introspection)",
                                  "configured_disabled_reveals_nothing", "configured_disabled_independent",
                                  "served_mirror / served_type_by_name / served_hides_unserved / served_disabled (over the facts regenerated from both exec-layout templates: introspection describes Config.Schema when given, the compiled-in schema otherwise)"],
        "sampled_not_proved": ["that the Lean models describe graphql/introspection and the generated gate (differential runs of this check)",
                               "default-value text re-parses to the declared value (Go-side oracle over generated defaults)",
                               "the generated __Type/__Field/... marshalling code (standard introspection query on the probe servers)"],
    })
