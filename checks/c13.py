"""C13 - @defer changes delivery, not content: merged payloads equal the plain result."""
import json
from collections import Counter

from lib import vf, gensrv, defermerge, wire, randschema
from checks import c01


def payload_raws(line, n):
    """raw `data` bytes of the first n payloads are not needed: group data is compared after JSON decoding
    with order-preserving pairs"""
    return None


def ordered(x):
    return json.JSONDecoder(object_pairs_hook=lambda kv: ("o", kv)).decode(x) if isinstance(x, str) else x


def _tree(x):
    """order-preserving encoding of a decoded JSON value for the Lean driver (json.loads keeps key order)"""
    if x is None:
        return None
    if isinstance(x, dict):
        return {"o": [[k, _tree(v)] for k, v in x.items()]}
    if isinstance(x, list):
        return {"a": [_tree(v) for v in x]}
    return {"l": json.dumps(x, ensure_ascii=False, separators=(",", ":"))}


def _wire(p):
    return {"path": p.get("path", ""), "label": p.get("label", ""), "tree": _tree(p.get("data")),
            "errors": [[e["path"], e["message"]] for e in p.get("errors") or []], "hasNext": p.get("hasNext")}


def with_wire(r):
    """the harness result plus `wire` / `plainWire`: the payload sequence and the plain run with object key order
    made explicit (Lean's JSON objects are unordered maps)"""
    if r.get("gateErrors") or not r.get("payloads"):
        return json.dumps(r)
    r = dict(r)
    r["wire"] = [_wire(p) for p in r["payloads"]]
    if r.get("plain") and r["plain"].get("payloads"):
        r["plainWire"] = _wire(r["plain"]["payloads"][0])
    return json.dumps(r)


def _kinds(cl):
    return sorted(c.split(":")[0] for c in cl)


def judge(r, m):
    """one executed case `r` (with its plain twin) against C13 itself and against the defer model's line `m`;
    returns None for cases that never executed, else (tags, why, spec_bad, model json)"""
    if r.get("gateErrors") or not r["payloads"]:
        return None
    P = r["payloads"]
    tags = set()
    if len(P) > 1:
        tags.add("incremental")
    if len(P) > 3:
        tags.add("many-groups")
    if any(p["data"] is None for p in P[1:]):
        tags.add("failed-group")
    if "@defer(if:" in r["query"]:
        tags.add("defer-if")
    if r["query"].startswith("mutation") and "@defer" in r["query"]:
        tags.add("defer-in-mutation")
    if any(p.get("path", "").count("/") >= 2 for p in P[1:]):
        tags.add("group-in-list-or-nested")
    why = []
    if r.get("hung"):
        why.append("hung")
    if r.get("crash"):
        why.append("crash")
    # (1) the property itself on the implementation's payloads, in arrival order
    spec_bad = []
    if r.get("plain") and not r["plain"].get("gateErrors"):
        spec_bad = defermerge.check(P, r["plain"]["payloads"])
    # (2) correspondence with the Lean model (payload set)
    mj = None
    if m is not None:
        if not m.startswith("{"):
            why.append("model:" + m[:40])
        else:
            mj = json.loads(m)
            if r.get("plain") and not r["plain"].get("gateErrors") and "clauses" in mj:
                # the C13 statement as evaluated by Lean (Model/DeferSpec.lean) is the verdict; the Python
                # evaluation must agree with it clause for clause
                if mj["clauses"] != ["no-wire"]:
                    if _kinds(mj["clauses"]) != _kinds(spec_bad):
                        why.append("spec-evaluators-disagree: lean %s python %s" % (_kinds(mj["clauses"]), _kinds(spec_bad)))
                    spec_bad = [c.replace("|", ", ") for c in mj["clauses"]]
                # the model's own payload sequence must satisfy the content clauses too
                mc = [c for c in mj.get("modelClauses", []) if c.split(":")[0] in ("merged-data-differs-from-plain", "error-not-in-plain", "group-delivered-twice", "payload-object-missing-but-present-in-plain")]
                if mc:
                    why.append("model-violates-statement: " + ",".join(_kinds(mc)))
            if json.loads(mj["initial"]["data"]) != P[0]["data"]:
                why.append("initial-data")
            if mj["initial"]["errors"] != sorted(e["path"] + " :: " + e["message"] for e in P[0]["errors"]):
                why.append("initial-errors")
            ig = {(p.get("path", ""), p.get("label", "")): p for p in P[1:]}
            mg = {(g["path"], g["label"]): g for g in mj["groups"]}
            if set(ig) != set(mg) or len(ig) != len(P) - 1:
                why.append("group-set")
            else:
                for k in ig:
                    if json.loads(mg[k]["data"]) != ig[k]["data"]:
                        why.append("group-data")
                    if mg[k]["errors"] != sorted(e["path"] + " :: " + e["message"] for e in ig[k]["errors"]):
                        why.append("group-errors")
            if mj["invs"] != sorted(i["path"] + " " + i["hook"] for i in r["log"]):
                why.append("invocations")
            if "recovers" in mj and mj["recovers"] != r["recovers"]:
                why.append("recovers")
            if mj["unlogged"]:
                why.append("model-invokes-unlogged")
    return tags, why, spec_bad, mj


def _canon_inc(p):
    return (p.get("path") if isinstance(p.get("path"), str) else "/".join(str(x) for x in (p.get("path") or [])),
            p.get("label") or "", json.dumps(p.get("data"), sort_keys=True),
            tuple(sorted(("/".join(str(x) for x in (e.get("path") or [])) if not isinstance(e.get("path"), str) else e["path"]) + " :: " + e["message"]
                         for e in p.get("errors") or [])))


def on_the_wire(ctx, b, cfg, results, dist, nontriv):
    """multipart/mixed (with batching of incremental payloads) and SSE over real connections: what arrives is the
    executor's payload sequence - same initial data, same set of groups - hasNext is true on every part / event
    but the last, the stream is closed (closing boundary / `event: complete` last)."""
    n = 60 if ctx.tier == "quick" else 600
    picked = [r for r in results if not r.get("gateErrors") and r.get("payloads") and len(r["payloads"]) > 1
              and not r["query"].startswith("mutation")][:n]
    cases = []
    for k, r in enumerate(picked):
        plan = r.get("plan")
        if plan is None:
            continue
        for tr, extra in (("multipart", {"deliveryTimeoutMs": [0, 30, 200][k % 3]}), ("sse", {})):
            c = {"id": "%s/%s" % (r["id"], tr), "query": r["query"], "variables": r.get("variables"), "plan": plan,
                 "transport": tr, "timeoutMs": 6000, "fullBody": True}
            c.update(extra)
            cases.append((c, r))
    if not cases:
        return {"cases": 0, "as_stated": 0}, []
    rc, so, se = vf.sh([b, "-mode", "http", "-maxhung", "3"], inp="\n".join(json.dumps(c) for c, _ in cases) + "\n", timeout=1800)
    if rc != 0:
        return {"cases": len(cases), "as_stated": 0}, [{"kind": "crash", "config": cfg, "where": "incremental transports", "stderr": se[-3000:],
                                                         "shape": {"crash": True, "where": "wire"}}]
    out = [json.loads(l) for l in so.split("\n") if l]
    bad = []
    okc = 0
    # the statement (Model/DeferSpec.lean) on what arrived: one line per case for the Lean driver
    lean_lines = []
    for (c, r), h in zip(cases, out):
        body = h.get("body") or ""
        seq = []
        if c["transport"] == "multipart":
            parts, _, _ = wire.parse_multipart(body)
            for pi, part in enumerate(parts):
                if pi == 0:
                    seq.append({"path": "", "label": "", "data": part.get("data"), "errors": part.get("errors") or [], "hasNext": part.get("hasNext")})
                else:
                    items = part.get("incremental") or []
                    for ii, it in enumerate(items):
                        seq.append({"path": it.get("path"), "label": it.get("label") or "", "data": it.get("data"), "errors": it.get("errors") or [],
                                    "hasNext": bool(part.get("hasNext")) if ii == len(items) - 1 else True})
        else:
            nexts, _, _, _ = wire.parse_sse(body)
            for ev in nexts:
                seq.append({"path": ev.get("path"), "label": ev.get("label") or "", "data": ev.get("data"), "errors": ev.get("errors") or [], "hasNext": ev.get("hasNext")})
        for q in seq:
            q["path"] = q["path"] if isinstance(q.get("path"), str) else "/".join(str(x) for x in (q.get("path") or []))
            q["errors"] = [{"path": e["path"] if isinstance(e.get("path"), str) else "/".join(str(x) for x in (e.get("path") or [])), "message": e["message"]} for e in q["errors"]]
        rr = dict(r)
        rr["wire"] = [_wire(q) for q in seq]
        if r.get("plain") and r["plain"].get("payloads"):
            rr["plainWire"] = _wire(r["plain"]["payloads"][0])
        rr.pop("plain", None)
        lean_lines.append(json.dumps(rr))
    try:
        verdicts = ctx.driver("c13", [c01.schema_of(b)] + lean_lines)
    except RuntimeError:
        verdicts = [None] * len(cases)
    for ((c, r), h), vd in zip(zip(cases, out), verdicts):
        why = []
        lean_clauses = []
        if vd and vd.startswith("{") and r.get("plain"):
            lean_clauses = json.loads(vd).get("clauses") or []
            if lean_clauses == ["no-wire"]:
                lean_clauses = []
        P = r["payloads"]
        want_groups = sorted(_canon_inc(p) for p in P[1:])
        body = h.get("body") or ""
        if h.get("hung"):
            why.append("response did not end")
        elif c["transport"] == "multipart":
            parts, closed, problems = wire.parse_multipart(body)
            why += problems
            dist["wire:multipart" + (":batched" if any(len(p.get("incremental") or []) > 1 for p in parts) else "")] += 1
            if not closed:
                why.append("no closing boundary")
            if not parts:
                why.append("no parts")
            else:
                flags = [bool(p.get("hasNext")) for p in parts]
                if flags != [True] * (len(parts) - 1) + [False]:
                    why.append("hasNext of the parts is %s" % flags)
                if parts[0].get("data") != P[0]["data"]:
                    why.append("initial data differs from the executor's")
                got = sorted(_canon_inc(x) for p in parts[1:] for x in (p.get("incremental") or []))
                if got != want_groups:
                    why.append("incremental payloads differ from the executor's (%d vs %d)" % (len(got), len(want_groups)))
        else:
            nexts, complete, last, problems = wire.parse_sse(body)
            why += problems
            dist["wire:sse"] += 1
            if not complete or not last:
                why.append("`event: complete` missing or not last")
            if not nexts:
                why.append("no next event")
            else:
                flags = [bool(p.get("hasNext")) for p in nexts]
                if flags != [True] * (len(nexts) - 1) + [False]:
                    why.append("hasNext of the events is %s" % flags)
                if nexts[0].get("data") != P[0]["data"]:
                    why.append("initial data differs from the executor's")
                if sorted(_canon_inc(x) for x in nexts[1:]) != want_groups:
                    why.append("incremental payloads differ from the executor's")
        nontriv.add(c["id"])
        if lean_clauses and not why:
            # only the statement's own clauses: same reporting (and known-finding shapes) as at the executor
            kinds = sorted(set(x.split(":")[0] for x in lean_clauses))
            for k in kinds:     # one record per violated clause (a case may violate several; findings are listed per clause)
                bad.append({"kind": "spec-violation", "config": cfg, "transport": c["transport"], "why": [],
                            "spec_clauses": [x for x in lean_clauses if x.split(":")[0] == k], "all_clauses_of_the_case": lean_clauses,
                            "case": c, "body": body[:6000], "executor_payloads": P, "shape": {"clauses": k},
                            "replay": "echo '<case json>' | <generated server %s> -mode http" % cfg})
            continue
        if why:
            why += lean_clauses
            bad.append({"kind": "wire", "config": cfg, "transport": c["transport"], "why": why, "case": c,
                        "status": h.get("status"), "body": body[:6000], "executor_payloads": P,
                        "shape": {"wire": c["transport"], "why": why[0].split(" is ")[0][:40]},
                        "replay": "echo '<case json>' | <generated server %s> -mode http" % cfg})
        else:
            okc += 1
    return {"cases": len(cases), "as_stated": okc}, bad


FAILING = ("initial-data", "group-data", "group-set", "group-errors", "initial-errors", "invocations", "recovers", "hung", "crash")


def run(ctx):
    if getattr(ctx, "replay", None):
        from checks import execreplay
        if execreplay.replay(ctx, "C13"):
            return
    ctx.assumptions += [
        "delivery order of groups is nondeterministic (map iteration over labels, goroutines, unbuffered channel): payloads are compared with the model as a set keyed by (path, label); the ordering clause is evaluated on the arrival order actually observed",
        "the multi-level merge statement is evaluated on every case (lib/defermerge.py) and proved for one object level over the Spec",
        "transport framing of incremental payloads is C12",
    ]
    proved = ctx.prove(props=["GqlgenVerif.Props.C13"])
    if not proved:
        ctx.cov["proof_failure"] = ctx.proof_failure
    cfgs = ["base", "wl2", "follow_funcsyn_wl2"] if ctx.tier == "quick" else ["base", "wl1", "wl2", "follow_funcsyn_wl2", "noptr"]
    n = 700 if ctx.tier == "quick" else 8000
    built = gensrv.build_matrix(ctx, "exec", cfgs)
    # binding mode 2: plain struct fields are never deferred (object.gotpl defers only resolver-backed fields)
    try:
        built["mixed:base"] = gensrv.build_server(ctx, "exec", "base", mixed=True)
    except RuntimeError as e:
        built["mixed:base"] = e
    cfgs = list(cfgs) + ["mixed:base"]
    # a randomly generated schema (the one C01 uses for this seed)
    rname = randschema.write_probe(ctx.seed * 10)
    try:
        built[rname + ":base"] = gensrv.build_server(ctx, rname, "base")
    except RuntimeError as e:
        built[rname + ":base"] = e
    cfgs = list(cfgs) + [rname + ":base"]
    dist = Counter()
    nontriv = set()
    total = 0
    wire_divs = []
    divs = []
    per_cfg = {}
    samples = []
    for cfg in cfgs:
        b = built[cfg]
        if isinstance(b, Exception):
            ctx.violation({"kind": "generated-server-does-not-build", "config": cfg, "detail": str(b)[-3000:],
                           "shape": {"config": cfg, "build": "fail"}})
            continue
        schema = c01.schema_of(b)
        corpus = c01.run_corpus(ctx, b, "C13")
        # corpus cases need their plain twin too: re-run them with @defer stripped through -mode run
        lines = []
        for l in corpus:
            r = json.loads(l)
            r["plain"] = None
            lines.append((l, r))
        gen = c01.run_config(ctx, b, n, ctx.seed, "c13")
        lines += [(l, json.loads(l)) for l in gen]
        # plain twins for corpus entries
        need = [r for _, r in lines if r.get("plain") is None and not r.get("gateErrors")]
        if need:
            import re
            cases = []
            for r in need:
                q = r["query"]
                op = q.index("{")
                hdr, body = q[:op], re.sub(r"\s*@defer(\([^)]*\))?", "", q[op:])
                cases.append(json.dumps({"id": r["id"] + "-plain", "query": hdr + body, "variables": r.get("variables"),
                                         "plan": json.loads(json.dumps(r.get("plan"))) if r.get("plan") else {"seed": 1, "rates": {}}}))
            # the corpus file carries the plan; read it back from the corpus by id
            import glob, os
            byid = {}
            for f in glob.glob(os.path.join(vf.VERIF, "corpus", "C13", "*.jsonl")):
                for cl in open(f):
                    if cl.strip():
                        cj = json.loads(cl)
                        byid[cj["id"]] = cj
            cases = []
            for r in need:
                cj = dict(byid[r["id"]])
                q = cj["query"]
                op = q.index("{")
                cj["query"] = q[:op] + re.sub(r"\s*@defer(\([^)]*\))?", "", q[op:])
                cj["id"] = r["id"] + "-plain"
                cases.append(json.dumps(cj))
            rc, so, se = vf.sh([b, "-mode", "run"], inp="\n".join(cases) + "\n", timeout=600)
            plains = [json.loads(x) for x in so.split("\n") if x]
            for r, pr in zip(need, plains):
                r["plain"] = pr
        model = ctx.driver("c13", [schema] + [with_wire(r) for _, r in lines]) if proved else [None] * len(lines)
        ok = 0
        for (l, r), m in zip(lines, model):
            total += 1
            j = judge(r, m)
            if j is None:
                continue
            tags, why, spec_bad, mj = j
            P = r["payloads"]
            for t in tags:
                dist[t] += 1
            if tags:
                nontriv.add(r["query"] + json.dumps(r.get("plan"), sort_keys=True)[:200])
            if why or spec_bad:
                divs.append((cfg, r, mj, sorted(set(why)), spec_bad))
            else:
                ok += 1
            if len(samples) < 3 and "incremental" in tags and len(P) >= 3:
                samples.append({"config": cfg, "query": r["query"][:500],
                                "payloads": [(p.get("path"), p.get("label"), p.get("hasNext")) for p in P]})
        per_cfg[cfg] = {"cases": len(lines), "clean": ok}
        # ---- the same payload sequences as a client of the incremental transports receives them
        if cfg in ("base", "follow_funcsyn_wl2"):
            wdivs = on_the_wire(ctx, b, cfg, [r for _, r in lines], dist, nontriv)
            per_cfg[cfg + "/wire"] = wdivs[0]
            wire_divs += wdivs[1]
    for cfg, r, mj, why, spec_bad in divs:
        if len(ctx.violations) >= 20:
            break
        clauses = sorted(set(b.split(":")[0] for b in spec_bad))
        shape = {"why": ",".join(why)}
        if spec_bad and not why:
            shape = {"clauses": ",".join(clauses)}
        rep = {"kind": "spec-violation" if spec_bad else "correspondence", "config": cfg, "why": why, "spec_clauses": spec_bad,
               "query": r["query"], "variables": r.get("variables"), "plan": r.get("plan"),
               "impl": r["payloads"], "plain": (r.get("plain") or {}).get("payloads"), "model": mj, "shape": shape,
               "replay": "echo '<case json>' | <generated server %s> -mode run   (and the same with every @defer removed)" % cfg}
        if spec_bad and not why and len(clauses) > 1:
            # a case that violates several clauses of the statement: one record per clause, each with its own shape (the open
            # findings are listed per clause; a clause that is not listed is still reported)
            for k in clauses:
                ctx.violation(dict(rep, spec_clauses=[b for b in spec_bad if b.split(":")[0] == k], all_clauses_of_the_case=spec_bad,
                                   shape={"clauses": k}))
            continue
        ctx.violation(rep, no_failing_input=not (spec_bad or any(w in FAILING for w in why)))
    for rep in wire_divs:
        if len(ctx.violations) >= 20:
            break
        ctx.violation(rep)
    if not proved and not ctx.violations:
        ctx.violation({"kind": "proof", "failing": ctx.proof_failure}, no_failing_input=True)
    ctx.cov.update({
        "evaluations": total,
        "distinct_nontrivial": len(nontriv),
        "rule": "grammar-generated operations with @defer on random inline fragments / spreads (nested, in lists, if: true/false/variable, shared and distinct labels, queries and mutations) x hash-driven plans with faults and delays; each operation also runs with every @defer removed; (1) C13 itself is evaluated on the implementation's payload sequence in arrival order (merge at paths == plain with the group cut, errors subset, each group once, hasNext shape, path findable), (2) the payload set is compared with the Lean defer model; non-trivial = at least one incremental payload or a @defer that must not defer",
        "input_distribution": dict(dist),
        "configs": per_cfg,
        "divergences": len(divs),
        "samples": samples,
    })
