"""C08 - everything gqlgen serialises is valid JSON that round-trips the value."""
import re
from collections import Counter
from lib import vf


def run(ctx):
    ctx.assumptions += [
        "strconv / fmt %g / time / uuid / sosodev-duration / encoding/json are library code: modelled (decimal text) or sampled (Float, Time, Duration, UUID, Any, Map), not verified",
        "Go's utf8 range decoding is modelled by `chunk`; tied by comparing validity and []rune-sanitisation with the real runtime on every case",
    ]
    ok_extract = ctx.extract("IntCasts")
    proved = ok_extract and ctx.prove(props=["GqlgenVerif.Props.C08", "GqlgenVerif.Props.C08Frame"])
    if ok_extract and not proved:
        ctx.cov["proof_failure"] = ctx.proof_failure

    rc, so, se = ctx.harness("c08", ["-tier", ctx.tier, "-seed", ctx.seed])
    if rc != 0:
        raise RuntimeError("harness failed: " + se[-2000:])
    rows = [l.split("\t") for l in so.split("\n") if l]
    kinds = Counter(r[0] for r in rows)

    # ---- model side
    qs = [r for r in rows if r[0] == "q"]
    ints = [r for r in rows if r[0] == "i"]
    casts = [r for r in rows if r[0] == "cast"]
    frames = [r for r in rows if r[0] == "fr"]
    others = [r for r in rows if r[0] == "o"]
    lines = ["q " + r[1] for r in qs] + ["i " + r[2] for r in ints] + ["cast %s %s" % (r[1], r[2]) for r in casts]
    lines += ["fr " + r[1] for r in frames]
    model = ctx.driver("c08", lines) if proved or ok_extract else None
    div = []          # correspondence divergences
    nontriv = set()
    branch = Counter()
    if model is None:
        # model cannot be built (Gen file broke it): fall back to impl-side oracles only
        model = [None] * len(lines)
    k = 0
    for r in qs:
        m = model[k]; k += 1
        cls = "valid-utf8" if r[3] == "1" else "invalid-utf8"
        if any(x in r[1] for x in ("22", "5c")) or any(r[1][i:i+2] < "20" for i in range(0, len(r[1]), 2) if r[1] != "-"):
            cls += "+escape"
        branch[cls] += 1
        if cls != "valid-utf8":
            nontriv.add(r[1])
        if m is None:
            if r[5] != "ok" or r[6] != "ok":
                div.append(("q", r, None))
            continue
        mo, mv, ms = m.split(" ")
        if (mo, mv, ms) != (r[2], r[3], r[4]) or r[5] != "ok" or r[6] != "ok":
            div.append(("q", r, m))
    for r in ints:
        m = model[k]; k += 1
        want = m
        if m is not None and r[1] in ("IntID", "UintID"):
            want = '"' + m + '"'
        got = bytes.fromhex(r[3]).decode("latin1") if r[3] != "-" else ""
        branch["int:" + r[1]] += 1
        nontriv.add("i" + r[1] + r[2])
        if (m is not None and got != want) or r[4] != "ok":
            div.append(("i", r, m))
    for r in casts:
        m = model[k]; k += 1
        branch["cast:" + r[3].split(" ")[0]] += 1
        nontriv.add("c" + r[1] + r[2])
        if m is not None and m != r[3]:
            div.append(("cast", r, m))
    for r in frames:
        m = model[k]; k += 1
        branch["frame"] += 1
        nontriv.add("f" + r[1])
        if (m is not None and m != r[2]) or r[3] != "ok":
            div.append(("fr", r, m))
    for r in others:
        branch["sampled:" + r[1]] += 1
        if r[4] != "ok":
            div.append(("o", r, None))

    # ---- decide
    for kind, r, m in div[:50]:
        rep = {"kind": "correspondence", "case_kind": kind, "case": r, "model": m}
        failing = False
        if kind == "q":
            # Spec (the property written directly) on the implementation's own bytes
            v = ctx.driver("c08", ["chk %s %s" % (r[1], r[2])])[0] if proved else ("violates:go-oracle" if r[5] != "ok" or r[6] != "ok" else "ok")
            if v == "ok" and (r[5] != "ok" or r[6] != "ok"):
                v = "violates:go-oracle:%s/%s" % (r[5], r[6])
            rep["spec_verdict"] = v
            failing = v != "ok"
            rep["shape"] = {"scalar": "String", "verdict": v.split(":")[1] if ":" in v else v}
            rep["replay"] = "graphql.MarshalString(hex %s) wrote hex %s" % (r[1], r[2])
        elif kind == "i":
            failing = r[4] != "ok"
            if not failing and proved:
                op = "chkid" if r[1] in ("IntID", "UintID") else "chki"
                failing = ctx.driver("c08", ["%s %s %s" % (op, r[2], r[3])])[0] != "ok"
            rep["shape"] = {"scalar": r[1]}
            rep["replay"] = "graphql.Marshal%s(%s) wrote hex %s; verdict %s" % (r[1], r[2], r[3], r[4])
        elif kind == "cast":
            # exactness spec: ok r must have r == input
            failing = r[3].startswith("ok ") and r[3][3:] != r[2]
            rep["shape"] = {"arm": r[1]}
            rep["replay"] = "graphql.%s(%s(%s)) returned %s" % (r[1].split("_")[0], r[1].split("_")[1], r[2], r[3])
        elif kind == "fr":
            failing = r[3] != "ok"
            rep["shape"] = {"frame": True}
        else:
            failing = True
            rep["shape"] = {"scalar": r[1]}
            if r[1] == "Time" and re.search(r"[+-]\d\d:\d\d:(?!00)\d\d$", r[2]):
                # the value is held in a location whose UTC offset is not a whole number of minutes
                rep["shape"]["zone_offset_has_seconds"] = True
            rep["replay"] = "%s on %s wrote hex %s: %s" % (r[1], r[2], r[3], r[4])
        ctx.violation(rep, no_failing_input=not failing)

    if not proved and ok_extract:
        # a proof obligation no longer checks; if the correspondence found no failing input say so
        if not any(not nf for _, nf in ctx.violations):
            # directed search: evaluate the regenerated arms on the boundary grid for inexact results
            found = False
            try:
                grid = [r for r in casts]
                outs = ctx.driver("c08", ["cast %s %s" % (r[1], r[2]) for r in grid])
                for r, o in zip(grid, outs):
                    if o.startswith("ok ") and o[3:] != r[2]:
                        ctx.violation({"kind": "proof", "failing": ctx.proof_failure, "shape": {"arm": r[1]},
                                       "replay": "model arm %s on %s gives %s; implementation gives %s" % (r[1], r[2], o, r[3])})
                        found = True
                        break
            except Exception:
                pass
            if not found:
                ctx.violation({"kind": "proof", "failing": ctx.proof_failure}, no_failing_input=True)

    # ---- whole responses of a generated server: every payload's data bytes are one JSON text, and stay what
    # they were when the next payload of the same operation (@defer) is produced
    import json as _json
    from lib import gensrv
    from checks import c01
    gen_cases = 0
    try:
        ctx.sync_gosum()
        srv = gensrv.build_server(ctx, "exec", "base")
        for prof, n in (("c13", 150 if ctx.tier == "quick" else 1500), ("c01", 150 if ctx.tier == "quick" else 1500)):
            for l in c01.run_config(ctx, srv, n, ctx.seed, prof):
                gen_cases += 1
                try:
                    r = _json.loads(l)
                except ValueError:
                    ctx.violation({"kind": "generated-server-line-not-json", "line": l[:2000], "shape": {"kind": "response-not-json"}})
                    continue
                if r.get("crash") and "changed after it was returned" in r["crash"]:
                    ctx.violation({"kind": "payload-bytes-changed", "what": r["crash"], "query": r["query"], "plan": r.get("plan"),
                                   "variables": r.get("variables"), "shape": {"kind": "payload-bytes-changed"},
                                   "replay": "echo '<case json>' | <generated server exec:base> -mode run"})
                    break
                branch["generated-server:" + prof + (":incremental" if len(r.get("payloads") or []) > 1 else "")] += 1
    except RuntimeError as e:
        ctx.violation({"kind": "generated-server-does-not-build", "config": "exec:base", "detail": str(e)[-3000:],
                       "shape": {"config": "exec:base", "build": "fail"}})
    ctx.cov.update({
        "evaluations": len(rows),
        "distinct_nontrivial": len(nontriv),
        "rule": "directed strings (every single byte; every byte after C3/E0/F4 leads; all malformed UTF-8 shapes) + seeded random strings over 10 byte classes; integers on the width-boundary grid +-2 and random; every numeric Unmarshal arm on that grid; random FieldSet/Array nestings with arbitrary-byte keys. Non-trivial = distinct case that is not a plain valid-UTF-8 string without escapes",
        "input_distribution": dict(branch),
        "kinds": dict(kinds),
        "correspondence_divergences": len(div),
        "samples": [qs[5], qs[len(qs) // 2], ints[3], casts[7], frames[0] if frames else None],
        "sampled_not_proved": ["FloatContext", "Time", "Duration", "UUID", "Any", "Map", "Boolean"],
    })
