"""C02 - resolvers receive arguments exactly as GraphQL input coercion defines."""
import json
import os
import re
from collections import Counter

from lib import vf, gensrv

# the scalar / map / hand-written model bindings of the probe are in go/probes/coerce/extra.yml.tmpl
# GraphQL scalar name -> binding, as configured there (the tie compares the Go kinds by reflection)
SCALARS = {"Int": "int", "Float": "float", "String": "string", "Boolean": "bool", "ID": "id", "Int32": "int32",
           "Int64": "int64", "Uint": "uint", "Uint32": "uint32", "Uint64": "uint64", "IntID": "intID",
           "UintID": "uintID", "MyID": "id", "Any": "any"}

# config name -> the model's Cfg (what the yaml of lib/gensrv.CONFIGS sets)
CFG = {
    "base": {},
    "inputopts": {"omittable": True, "retPtr": True, "argDirNull": True},
    "noptr": {"sfap": False, "osep": True},
    "follow_funcsyn_wl2": {},
    "c02_omittable": {"omittable": True},
    "c02_retptr": {"retPtr": True},
    "c02_argdirnull": {"argDirNull": True},
    "c02_nosfap": {"sfap": False},
}


def go_g(f):
    """strconv.FormatFloat(f, 'g', -1, 64)"""
    import math
    if f == 0:
        return "-0" if math.copysign(1, f) < 0 else "0"
    neg = f < 0
    s = repr(abs(f))
    if s in ("inf", "nan"):
        return ("-" if neg else "+") + "Inf" if s == "inf" else "NaN"
    mant, ex = (s.split("e") + ["0"])[:2]
    ex = int(ex)
    ip = mant.split(".")[0]
    digits = mant.replace(".", "")
    dp = len(ip) + ex
    while digits.startswith("0") and len(digits) > 1:
        digits = digits[1:]
        dp -= 1
    digits = digits.rstrip("0") or "0"
    nd = len(digits)
    exp = dp - 1
    if exp < -4 or exp >= 6:   # %e when the exponent is < -4 or >= eprec, and eprec = 6 for the shortest form
        out = digits[0] + ("." + digits[1:] if nd > 1 else "") + "e" + ("-" if exp < 0 else "+") + "%02d" % abs(exp)
    elif dp <= 0:
        out = "0." + "0" * (-dp) + digits
    else:
        out = (digits[:dp] + "0" * max(dp - nd, 0)) + ("." + digits[dp:] if nd > dp else "")
    return ("-" if neg else "") + out


def go_f(f):
    """strconv.FormatFloat(f, 'f', -1, 64)"""
    from decimal import Decimal
    if f == 0:
        return "0"
    d = format(Decimal(repr(f)), "f")
    if "." in d:
        d = d.rstrip("0").rstrip(".")
    return d


def canon(s):
    """model rendering -> implementation rendering: floats are opaque decimal texts in the model"""
    s = re.sub(r"FMT6\(([^)]*)\)", lambda m: '"%.6f"' % float(m.group(1)), s)
    s = re.sub(r"FMTF\(([^)]*)\)", lambda m: '"%s"' % go_f(float(m.group(1))), s)
    return re.sub(r"F\(([^)]*)\)", lambda m: go_g(float(m.group(1))), s)


def data_at(data, path):
    """the response value at a response path (a/0/b), None when absent or null"""
    cur = data
    for seg in path.split("/"):
        if isinstance(cur, list):
            cur = cur[int(seg)] if seg.isdigit() and int(seg) < len(cur) else None
        elif isinstance(cur, dict):
            cur = cur.get(seg)
        else:
            return None
    return cur


def impl_outcome(case, res, methods=None):
    """the implementation's observable outcome in the model's vocabulary. `methods`: {(obj, field): schema entry} of
    the fields bound to a method of the hand-written model; such a method answers the rendering of what its
    parameters received (universal.C02Recv) - without a context that answer is the only observation."""
    if res.get("crash"):
        return ("gate", "panic", res["crash"])
    if res.get("gateErrors"):
        e = res["gateErrors"][0]
        if e["path"].startswith("variable"):
            return ("gate", "var", e["path"])
        return ("gate", "validation", e["message"])
    steps = {}
    errs = res["payloads"][0]["errors"] if res["payloads"] else []
    data = res["payloads"][0].get("data") if res["payloads"] else None
    for f in case["model"]["fields"]:
        p = f["path"]
        inv = [i for i in res["log"] if i["path"] == p and i["hook"] == "resolver"]
        er = [e for e in errs if e["path"] == p or e["path"].startswith(p + "/")]
        m = (methods or {}).get((f["obj"], f["field"]))
        if m is not None:
            answered = data_at(data, p)
            if not m.get("hasCtx"):
                inv = [{"args": answered}] if isinstance(answered, str) else []
            elif inv and answered != inv[0].get("args", ""):
                inv = [{"args": "logged %r but answered %r" % (inv[0].get("args", ""), answered)}]
        if inv and not er:
            steps[p] = ("call", inv[0].get("args", ""))
        elif er and not inv:
            steps[p] = ("error", er[0]["path"], er[0]["message"])
        elif er and inv:
            steps[p] = ("call+error", inv[0].get("args", ""), er[0]["path"])
        else:
            steps[p] = ("missing",)
    steps["#dirs"] = ("dirs", sorted(i["path"] for i in res["log"] if i["hook"].startswith("directive:")))
    return ("ran", steps)


def parse_model(line):
    parts = line.split("\t")
    if parts[0] == "gate":
        return ("gate", parts[1], parts[2] if len(parts) > 2 else "")
    steps = {}
    for st in parts[1:]:
        f = st.split("\x1f")
        if f[0] == "dirs":
            steps["#dirs"] = ("dirs", sorted(x for x in f[1:] if x))
            continue
        if f[1] == "call":
            steps[f[0]] = ("call", canon(f[2]))
        else:
            steps[f[0]] = ("error", f[2], f[3])
    return ("ran", steps)


def err_class(msg):
    for k, c in (("recovered:", "panic"), ("includes sign", "newUintSignError"), ("overflows signed 32-bit", "newInt32OverflowError"),
                 ("overflows unsigned 32-bit", "newUint32OverflowError"), ("value out of range", "range"),
                 ("invalid syntax", "syntax"), ("is not a valid", "enum"), ("enums must be strings", "enum"),
                 ("must not be null", "null"), (" is not a", "type")):
        if k in msg:
            return c
    return "other"


def same(model, impl):
    """does the implementation's outcome equal the model's prediction?"""
    if model[0] != impl[0]:
        return False
    if model[0] == "gate":
        if model[1] != impl[1]:
            return False
        return model[1] != "var" or model[2] == impl[2]
    for p, ms in model[1].items():
        im = impl[1].get(p)
        if im is None or ms[0] != im[0]:
            return False
        if ms[0] == "dirs":
            if ms[1] != im[1]:
                return False
            continue
        if ms[0] == "call" and ms[1] != im[1]:
            return False
        if ms[0] == "error":
            if ms[1] != im[1]:
                return False
            mc = ms[2].split(":")[0]
            if mc in ("panic",) and err_class(im[2]) != "panic":
                return False
            if mc in ("newUintSignError", "newInt32OverflowError", "newUint32OverflowError", "range", "syntax", "enum", "type", "null") \
                    and err_class(im[2]) != mc:
                return False
    return True


def run(ctx):
    ctx.assumptions += [
        "gqlparser (parser, validation rules, validator.VariableValues, ast.Value.Value, arg2map) is module-cache code: modelled (Model/Coerce.lean varValues/litToRaw/argRaw/docOK) and tied by the same correspondence, not verified",
        "strconv / encoding/json (UseNumber decoding, ParseInt/ParseUint/Atoi/ParseFloat/FormatFloat) are library code: decimal integer parsing is modelled and compared on a grid; floats are opaque decimal texts in the model (IEEE rounding is not a 'silent change' in the sense of the property)",
        "GraphQL Int is bound to Go int (gqlgen's default binding): the Spec's Int range is the bound Go type's range, not 32 bit",
        "Go type shapes (pointer / slice / Omittable / struct / map) are derived by the model's shapeRef/shapeField and compared with reflection over the generated package on every run",
        "resolver invocation and error reporting are observed through the universal resolver's log and the response's errors[]; the execution model around a field is C01's",
    ]
    ok_extract = ctx.extract("IntCasts", "ScalarArms", "BindArgs")
    proved = ok_extract and ctx.prove(props=["GqlgenVerif.Props.C02", "GqlgenVerif.Props.C02Bind"])
    if ok_extract and not proved:
        ctx.cov["proof_failure"] = ctx.proof_failure
    quick = ctx.tier == "quick"
    cfgs = ["base", "inputopts", "noptr"] if quick else ["base", "inputopts", "noptr", "follow_funcsyn_wl2", "c02_omittable", "c02_retptr", "c02_argdirnull", "c02_nosfap"]
    n_rand = 1800 if quick else 14000
    for name, extra in (("c02_omittable", "nullable_input_omittable: true"), ("c02_retptr", "return_pointers_in_unmarshalinput: true"),
                        ("c02_argdirnull", "call_argument_directives_with_null: true"), ("c02_nosfap", "struct_fields_always_pointers: false")):
        gensrv.CONFIGS.setdefault(name, ("  filename: generated.go", extra))
    # second probe: fields bound to model methods whose permuted parameters have different Go types
    mt_cfgs = ["base"] if quick else ["base", "inputopts", "noptr", "follow_funcsyn_wl2"]
    from concurrent.futures import ThreadPoolExecutor
    gensrv._gen_bin(ctx)
    ctx.sync_gosum()

    def build_one(pc):
        try:
            return gensrv.build_server(ctx, pc[0], pc[1])
        except RuntimeError as e:
            return e

    jobs = [("coerce", c) for c in cfgs] + [("coercemt", c) for c in mt_cfgs]
    with ThreadPoolExecutor(max_workers=6) as ex:
        res_b = dict(zip(jobs, ex.map(build_one, jobs)))
    built = {c: res_b[("coerce", c)] for c in cfgs}
    built_mt = {c: res_b[("coercemt", c)] for c in mt_cfgs}

    dist = Counter()
    nontriv = set()
    total = 0
    divs = []
    samples = []
    unexplained = []
    dev_examples = {}
    build_fail = []   # reported after the violations that carry a failing operation

    # ---- scalars: the real graphql.Unmarshal* / CoerceList in-process vs the model's `scalar`
    rc, so, se = ctx.harness("c02", ["-mode", "scalars"])
    if rc != 0:
        raise RuntimeError("harness failed: " + se[-2000:])
    rows = [l.split("\t") for l in so.split("\n") if l]
    srows = [r for r in rows if r[0] == "s"]
    driver_ok = getattr(ctx, "driver_ok", False)
    if driver_ok:
        outs = ctx.driver("c02", ["scalar %s %s" % (r[1], r[2]) for r in srows])
        for r, o in zip(srows, outs):
            total += 1
            dist["scalar:" + r[1]] += 1
            want = r[3]
            if " FMT(" in want:   # ok FMT(text)="0.123457": the model's opaque FMT6/FMTF is the real formatting
                want = "ok " + want.split("=", 1)[1]
            got = canon(o) if o.startswith("ok ") else o
            if got != want:
                divs.append({"kind": "scalar", "scalar": r[1], "raw": r[2], "impl": r[3], "model": o})
            elif not r[3].startswith("ok") or '"k":"str"' in r[2] or '"k":"num"' in r[2]:
                nontriv.add("s" + r[1] + r[2])
    cl_expect = {"nil": 0, "[]any:2": 2, "[]string:2": 1, "[]json.Number:1": 1, "[]bool:1": 1, "[]map[string]any:1": 1,
                 "[]float64:1": 1, "[]int64:1": 1, "[]int:2": 1, "[]uint64:1": 1, "scalar": 1, "map": 1, "[]string:0": 0,
                 "[]any:0": 0, "[]any:1:nil": 1, "[]map[string]any:0": 0, "[]map[string]any:1:empty": 1, "[]json.Number:0": 0,
                 "[]bool:0": 0, "[]any:1:[]": 1}
    for r in rows:
        if r[0] == "cl":
            total += 1
            dist["coercelist"] += 1
            # a single (non-list, non-nil) value of whatever dynamic type is the one-item list (single_takes_wrap_arm)
            want_len = 1 if r[1].startswith("single:") else cl_expect.get(r[1])
            if want_len != int(r[2]):
                divs.append({"kind": "coercelist", "input": r[1], "impl_len": int(r[2]), "model_len": want_len,
                             "call": "graphql.CoerceList(<%s>) has %s items, the specification's list has %s" % (r[1], r[2], want_len)})

    # ---- generated servers
    hbin = os.path.join(vf.CACHE, "h_c02")
    decl = {}
    for probe in ("coerce", "coercemt"):
        # the hand-written models of the probes as go/ast sees them (parameter NAMES; reflection has none)
        rc, so, se = vf.sh([hbin, "-mode", "methods", "-file", os.path.join(vf.GO, "probes", probe, "meth.go.tmpl")], timeout=60)
        if rc != 0:
            raise RuntimeError("-mode methods failed: " + se[-2000:])
        decl[probe] = json.loads(so)
    runs = [("coerce", c, built[c], n_rand) for c in cfgs] + [("coercemt", c, built_mt[c], n_rand // 3) for c in mt_cfgs]
    for probe, cfg, b, n_cases in runs:
        cfg_label = cfg if probe == "coerce" else probe + "/" + cfg
        if isinstance(b, Exception):
            build_fail.append({"kind": "generated-server-does-not-build", "config": cfg_label, "detail": str(b)[-3000:],
                               "shape": {"config": cfg_label, "build": "fail"}})
            continue
        rc, so, se = vf.sh([b, "-mode", "c02schema"], timeout=120)
        if rc != 0:
            raise RuntimeError("c02schema failed: " + se[-2000:])
        sj = json.loads(so)
        spath = os.path.join(vf.CACHE, "c02_schema_%s_%s.json" % (probe, cfg))
        # fields bound to a method of the hand-written model: parameter names from the source, everything else
        # (context, variadic, parameter types) by reflection - the two views must agree
        methods = {}
        for f in sj["fields"]:
            if f.get("bound") != "method":
                continue
            d = decl[probe].get(f["obj"], {}).get(f["goMethod"])
            total += 1
            dist["method-signature"] += 1
            if d is None or d["hasCtx"] != f.get("hasCtx", False) or d["variadic"] != f.get("variadic", False) \
                    or len(d["params"]) != len(f.get("paramShapes", [])):
                divs.append({"kind": "method-signature", "config": cfg_label, "where": "%s.%s" % (f["obj"], f["name"]),
                             "source": d, "reflection": {k: f.get(k) for k in ("goMethod", "hasCtx", "variadic", "paramShapes")}})
                continue
            f["params"] = d["params"]
            nb = len(f["args"]) if (d["variadic"] and len(d["params"]) > len(f["args"])) else len(d["params"])
            for a in f["args"]:
                idx = [i for i, pn in enumerate(d["params"][:nb]) if pn.lower() == a["name"].lower()]
                a["shape"] = f["paramShapes"][idx[0]] if idx else None   # None: the method has no parameter for it
            methods[(f["obj"], f["name"])] = f
        open(spath, "w").write(json.dumps(sj))
        sj["scalars"] = SCALARS
        sj["cfg"] = CFG[cfg]
        cfg = cfg_label
        rc, so, se = vf.sh([hbin, "-mode", "gen", "-schema", spath, "-seed", str(ctx.seed), "-n", str(n_cases),
                             "-corpus", os.path.join(vf.VERIF, "corpus", "C02")], timeout=600)
        if rc != 0:
            raise RuntimeError("case generation failed: " + se[-2000:])
        case_lines = [l for l in so.split("\n") if l]
        cases = [json.loads(l) for l in case_lines]
        rc, so, se = vf.sh([b, "-mode", "run"], inp="\n".join(case_lines) + "\n", timeout=2400)
        if rc != 0:
            ctx.violation({"kind": "crash", "config": cfg, "stderr": se[-3000:], "shape": {"crash": True}})
            continue
        results = [json.loads(l) for l in so.split("\n") if l]
        if not driver_ok:
            continue
        lines = ["schema " + json.dumps(sj), "shapes"]
        for c in cases:
            mj = json.dumps(c["model"])
            lines += ["case " + mj, "spec - " + mj, "spec all " + mj]
        outs = ctx.driver("c02", lines)
        if outs[0] != "ok":
            raise RuntimeError("driver rejected the schema: " + outs[0])
        # shapes: the model's Go type of every argument / input-struct field vs reflection
        mshape = dict(kv.split("=", 1) for kv in outs[1].split(";") if kv)
        for f in sj["fields"]:
            for a in f["args"]:
                k = "%s.%s.%s" % (f["obj"], f["name"], a["name"])
                if a["shape"] is None:
                    continue
                total += 1
                dist["shape"] += 1
                if mshape.get(k) != a["shape"]:
                    divs.append({"kind": "shape", "config": cfg, "where": k, "impl": a["shape"], "model": mshape.get(k)})
        for t in sj["types"]:
            if t["kind"] == "input" and not t["isMap"]:
                for fl in t["fields"]:
                    k = "%s.%s" % (t["name"], fl["name"])
                    total += 1
                    dist["shape"] += 1
                    if mshape.get(k) != fl.get("shape"):
                        divs.append({"kind": "shape", "config": cfg, "where": k, "impl": fl.get("shape"), "model": mshape.get(k)})
        pending = []   # cases the specification does not explain: search the deviation switches
        for i, (c, r) in enumerate(zip(cases, results)):
            total += 1
            model = parse_model(outs[2 + 3 * i])
            spec0 = parse_model(outs[3 + 3 * i])
            specall = parse_model(outs[4 + 3 * i])
            impl = impl_outcome(c, r, methods)
            for t in c["tags"]:
                dist[t] += 1
            dist["outcome:" + (impl[0] if impl[0] == "ran" else impl[0] + ":" + impl[1])] += 1
            if impl[0] == "ran":
                for p, st in impl[1].items():
                    dist["step:" + st[0]] += 1
            if set(c["tags"]) - {"literal", "directed"}:
                nontriv.add(c["query"] + c.get("varsJSON", "") + json.dumps(c.get("variables")))
            if i % 400 == 7 and len(samples) < 6:
                samples.append({"config": cfg, "query": c["query"], "variables": c.get("varsJSON") or c.get("variables"), "impl": impl})
            brief = {"config": cfg, "id": c["id"], "query": c["query"], "variables": c.get("varsJSON") or c.get("variables"), "tags": c["tags"]}
            tie_ok = same(model, impl)
            in_spec = not ("f64-mode" in c["tags"] or "any(" in c["query"])   # Spec is about JSON as the transports decode it; Any is pass-through
            if not tie_ok:
                dist["tie-divergence"] += 1
                divs.append({"kind": "case", "case": brief, "impl": impl, "model": model, "spec": specall if in_spec else None,
                             "spec_explains": bool(in_spec and conform(specall, impl, c))})
            if not in_spec:
                continue
            # the executable shadow of coerce_eq_spec: the Impl model and the Spec with every deviation agree
            if not conform(specall, model, c):
                divs.append({"kind": "model-vs-spec", "case": brief, "model": model, "spec": specall})
            if conform(spec0, impl, c):
                dist["spec:conforms"] += 1
                if spec0[0] == "gate" and impl[0] == "ran":
                    dist["spec:late-reject"] += 1
                continue
            pending.append((c, impl, spec0, specall, brief))
        # which deviation switch(es) explain each remaining case
        import itertools
        singles = ["absentVarNull", "literalInt64", "mapList", "idFloat6", "nestedNullPanic", "lenientScalars"]
        combos = [(d,) for d in singles] + list(itertools.combinations(singles, 2))
        lines = ["schema " + json.dumps(sj)]
        for c, impl, spec0, specall, brief in pending:
            mj = json.dumps(c["model"])
            lines += ["spec %s %s" % (",".join(cb), mj) for cb in combos]
        outs = ctx.driver("c02", lines) if pending else []
        for k, (c, impl, spec0, specall, brief) in enumerate(pending):
            expl = None
            for j, cb in enumerate(combos):
                if conform(parse_model(outs[1 + k * len(combos) + j]), impl, c):
                    expl = cb
                    break
            if expl is None and conform(specall, impl, c):
                expl = tuple(singles)
            dclass = ",".join(sorted(set(x for x, _ in spec_diff(spec0, impl))))
            if expl is None:
                dist["spec:violated"] += 1
                unexplained.append({"kind": "spec", "case": brief, "impl": impl, "spec": spec0, "spec_with_known_deviations": specall, "class": dclass})
                continue
            for d in expl:
                dist["spec:deviation:" + d] += 1
                dev_examples.setdefault(d, {"case": brief, "impl": impl, "spec": spec0})
                ctx.violation({"kind": "spec-deviation", "deviation": d, "case": brief, "impl": impl, "spec": spec0,
                               "shape": {"deviation": d},
                               "replay": "config %s: %s variables %s -> implementation %s ; specification %s" % (cfg, c["query"], brief["variables"], json.dumps(impl)[:600], json.dumps(spec0)[:600])})

    # ---- decide
    for u in unexplained[:20]:
        # the Spec (the property written directly) evaluated on the implementation's own output fails
        ctx.violation(dict(u, shape={"deviation": "none", "class": u["class"]},
                           replay="config %s: %s variables %s -> implementation %s ; specification %s" % (
                               u["case"]["config"], u["case"]["query"], u["case"]["variables"], json.dumps(u["impl"])[:800], json.dumps(u["spec"])[:800])))
    for bf in build_fail:
        ctx.violation(bf)
    for d in divs[:40]:
        failing = False
        if d["kind"] == "scalar":
            failing = scalar_changed(d)
        if d["kind"] == "coercelist" and d["input"].startswith("single:"):
            failing = True   # a concrete input of the real CoerceList whose result is not the specification's one-item list
        ctx.violation(dict(d, shape={"kind": d["kind"]}, replay=json.dumps(d, default=str)[:3000]),
                      no_failing_input=not failing)
    if not proved and ok_extract and not unexplained and not any(not nf for _, nf in ctx.violations):
        ctx.violation({"kind": "proof", "failing": ctx.proof_failure}, no_failing_input=True)

    ctx.cov.update({
        "evaluations": total,
        "distinct_nontrivial": len(nontriv),
        "rule": "scalars: every Unmarshal* x boundary grid of int/int64/json.Number/string/float64/bool/nil; operations: directed shapes (boundary integers on every integer scalar as literal / number variable / string variable, floats for ints, omitted vs null vs value, single value to list at every depth and for every list-typed argument / input field x kind of item (scalars, enums, input objects incl. {} and all-default objects, nested lists; literal, variable, schema default; corpus/C02), defaults of every kind, enums, argument directives, nested fields) + seeded random operations over every argument of the probe schema (literals and variables, top level and nested, provided / absent / null) with a 25% invalid stream. Non-trivial = a case with at least one tag beyond a plain directed literal",
        "input_distribution": dict(dist),
        "correspondence_divergences": len(divs),
        "spec_violations": len(unexplained),
        "deviation_examples": dev_examples,
        "configs": cfgs + ["coercemt/" + c for c in mt_cfgs],
        "samples": samples,
    })


def uses_var(lit, name):
    if lit.get("k") == "var":
        return lit.get("s") == name
    return any(uses_var(x, name) for x in lit.get("l") or []) or any(uses_var(kv["v"], name) for kv in lit.get("f") or [])


def conform(spec, impl, case):
    """does the observed outcome satisfy the property as the Spec states it for this case?"""
    if spec[0] == "gate":
        if spec[1] == "validation":
            return impl[0] == "gate" and impl[1] == "validation"
        if spec[1] == "panic":
            return impl[0] == "gate" and impl[1] == "panic"
        # a variable cannot be coerced: the request is refused, or (late rejection) every field using the
        # variable reports an error and its resolver is not called
        name = spec[2].split("/")[1] if "/" in spec[2] else ""
        if impl[0] == "gate":
            return impl[1] == "var"   # refused because of a variable (which one is reported first is not fixed by the spec)
        users = [f["path"] for f in case["model"]["fields"] if any(uses_var(a["v"], name) for a in f["args"])]
        return bool(users) and all(impl[1].get(p, ("missing",))[0] == "error" for p in users)
    if impl[0] != "ran":
        return False
    for p, ss in spec[1].items():
        im = impl[1].get(p, ("missing",))
        if ss[0] != im[0]:
            return False
        if ss[0] == "call" and ss[1] != im[1]:
            return False
        if ss[0] == "error":
            if ss[1] != im[1]:
                return False
    return True


def scalar_changed(d):
    """a scalar unmarshaler returned a number that is not the number it was given"""
    m = re.match(r"ok (-?\d+)$", d["impl"])
    raw = json.loads(d["raw"])
    if not m:
        return False
    if raw["k"] in ("int", "i64", "num", "f64"):
        try:
            from fractions import Fraction
            return Fraction(raw["t"]) != int(m.group(1))
        except (ValueError, ZeroDivisionError):
            return True
    if raw["k"] == "str":
        try:
            return int(raw["s"], 10) != int(m.group(1))
        except ValueError:
            return True
    return True


def spec_diff(spec, impl):
    out = []
    if spec[0] == "gate" or impl[0] == "gate":
        if spec[0] != impl[0]:
            out.append(("gate:spec-%s-impl-%s" % (spec[0] if spec[0] == "ran" else spec[1], impl[0] if impl[0] == "ran" else impl[1]), ""))
        return out
    for p, ss in spec[1].items():
        im = impl[1].get(p, ("missing",))
        if ss[0] == "call" and im[0] == "call":
            if ss[1] != im[1]:
                out.append(("value-differs", p))
        elif ss[0] == "error" and im[0] == "call":
            out.append(("lenient-accept", p))
        elif ss[0] == "call" and im[0] == "error":
            out.append(("strict-reject", p))
        elif ss[0] == "error" and im[0] == "error":
            if ss[1] != im[1]:
                out.append(("error-path-differs", p))
        else:
            out.append(("other:" + im[0], p))
    return out
