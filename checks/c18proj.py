"""Project generators for C18 (used by checks/c18.py): the input dimensions beyond the C17 schema grammar.

Each generator returns {"files": {relative path: text}, "meta": {...}}; `{{PKG}}` in a file is replaced by the Go import
path of the project directory when it is written. Files named `*_src.go` are hand-written INPUTS of a project (bound
Go packages), never wiped between runs.

  relations   configuration x relationship structure of the generated models: pairs of object types joined by 0-3
              non-null (value) edges in each direction, self loops, nullable / list cross edges, inputs, a union and an
              interface, `struct_fields_always_pointers: false` mostly, other boolean options at random. With value
              fields modelgen runs its cycle pass (findAndHandleCyclicalRelationships), whose result depends on the
              order in which the models are visited. `meta["models"]` is the summary for driver_c18 `cyc`.
  imports     bound Go packages (the `models:` section): 2-5 hand-written packages under the project whose PACKAGE
              NAMES are drawn with repetition from a small pool that also contains names the templates reserve
              (ast, graphql, context, ...) and the generated model package's own name, at directories whose sort order
              is independent of the order of first use in the resolver files; some directories are not called like
              their package. Exercises codegen/templates/import.go (Reserve / Lookup numbering) and resolvergen's
              re-reservation of an existing file's imports on re-generation.
  literals    constant values rendered into generated Go source (templates.Dump): argument / input-field defaults
              and directive arguments that are input-object literals with several keys, nested objects and lists.
"""
import os

WORDS = ["Order", "Address", "Basket", "Carton", "Dealer", "Engine", "Farmer", "Garden", "Harbor", "Island", "Jacket",
         "Kettle", "Ladder", "Magnet", "Napkin", "Orchid", "Pillow", "Quiver", "Rocket", "Saddle", "Tunnel", "Velvet",
         "Walnut", "Zipper", "Beacon", "Candle", "Dragon", "Falcon", "Goblet", "Hammer"]
FIELDS = ["alpha", "bravo", "delta", "echo", "golf", "hotel", "india", "kilo", "lima", "mike", "oscar", "papa",
          "romeo", "sierra", "tango", "victor", "whiskey", "yankee", "zulu", "amber", "birch", "coral", "dune", "ember"]

BOOL_OPTS = ["omit_slice_element_pointers", "omit_getters", "omit_complexity", "resolvers_always_return_pointers",
             "enable_model_json_omitempty_tag", "omit_gqlgen_file_notice", "omit_interface_checks", "omit_root_models",
             "return_pointers_in_unmarshalinput", "use_function_syntax_for_execution_context"]


def shuffle(rng, xs):
    xs = list(xs)
    for i in range(len(xs) - 1, 0, -1):
        j = rng.below(i + 1)
        xs[i], xs[j] = xs[j], xs[i]
    return xs


def yml(name, layout, extra="", model_pkg="model", schemas=("schema.graphql",)):
    s = "schema:\n" + "".join("  - %s\n" % f for f in schemas)
    s += "exec:\n  filename: generated.go\n  package: %s\n" % name
    s += "model:\n  filename: %s/models_gen.go\n  package: %s\n" % (model_pkg, model_pkg)
    if layout == "follow":
        s += "resolver:\n  layout: follow-schema\n  dir: res\n  package: res\n"
    elif layout == "single":
        s += "resolver:\n  filename: res/resolver.go\n  package: res\n  type: Resolver\n"
    s += "skip_mod_tidy: true\n" + extra
    return s


# ------------------------------------------------------------------------------------------------ relations
def relations(rng, name, always_false=True):
    npairs = 3 + rng.below(4)
    names = shuffle(rng, WORDS)[:2 * npairs + 4]
    objs = names[:2 * npairs]
    in_a, in_b, union, iface = names[2 * npairs:2 * npairs + 4]
    fields = {t: [] for t in objs + [in_a, in_b]}
    fpool = {t: shuffle(rng, FIELDS) for t in fields}

    def add(t, target, wrap, val):
        fields[t].append((fpool[t].pop(), wrap % target, target, val))

    for p in range(npairs):
        a, b = objs[2 * p], objs[2 * p + 1]
        for _ in range(1 + rng.below(3)):
            add(a, b, "%s!", True)
        for _ in range(rng.below(3)):
            add(b, a, "%s!", True)
        if rng.below(4) == 0:
            add(a, a, "%s!", True)          # recursive struct
        if rng.below(4) == 0:
            add(b, b, "%s", False)
    # cross edges between different pairs never are values (a longer value cycle does not compile: C17's business)
    for _ in range(npairs + rng.below(2 * npairs)):
        a, b = objs[rng.below(len(objs))], objs[rng.below(len(objs))]
        add(a, b, ["%s", "[%s!]!", "[%s]", "[[%s!]]"][rng.below(4)], False)
    for t in objs:
        if rng.below(3) == 0:
            add(t, union, ["%s!", "%s", "[%s!]"][rng.below(3)], False)
        if rng.below(3) == 0:
            add(t, iface, ["%s!", "%s"][rng.below(2)], False)
    add(in_a, in_b, "%s!", True)
    add(in_a, in_b, "%s!", True)
    add(in_b, in_a, "%s", False)
    add(in_b, in_a, "[%s!]", False)
    opts = {"struct_fields_always_pointers": "false" if always_false or rng.below(2) else "true"}
    for o in BOOL_OPTS:
        r = rng.below(4)
        if r < 2:
            opts[o] = "true" if r else "false"
    sdl = "interface %s { ident: ID! }\nunion %s = %s | %s\n" % (iface, union, objs[0], objs[1])
    models = []
    for t in shuffle(rng, list(fields)):
        fs = shuffle(rng, fields[t])
        kw = "input" if t in (in_a, in_b) else "type"
        impl = " implements %s" % iface if kw == "type" and rng.below(4) == 0 else ""
        body = ["ident: ID!"] + ["%s: %s" % (f[0], f[1]) for f in fs] + ["count: Int", "label: String!"]
        sdl += "%s %s%s {\n  %s\n}\n" % (kw, t, impl, "\n  ".join(body))
        models.append({"name": t, "fields": [{"name": f[0], "target": f[2], "val": f[3]} for f in fs]})
    q = ["%s(in: %s): %s" % (t.lower(), in_a, t) for t in objs]
    sdl += "type Query {\n  %s\n}\n" % "\n  ".join(shuffle(rng, q))
    layout = ["follow", "follow", "none"][rng.below(3)]
    return {"files": {"schema.graphql": sdl, "gqlgen.yml": yml(name, layout, "".join("%s: %s\n" % kv for kv in sorted(opts.items())))},
            "meta": {"dimension": "relations", "models": models, "always_pointers": opts["struct_fields_always_pointers"] == "true",
                     "options": opts}}


# ------------------------------------------------------------------------------------------------ imports
PKG_NAMES = ["model", "model", "model", "types", "types", "pb", "ast", "graphql", "context", "errors", "introspection", "res"]
DIRS = ["zed", "alpha", "mid", "beta", "yak", "core", "omega", "aaa"]


def imports(rng, name):
    npk = 2 + rng.below(4)
    first = PKG_NAMES[rng.below(len(PKG_NAMES))]
    pk_names = [first, first if rng.below(3) else PKG_NAMES[rng.below(len(PKG_NAMES))]]
    while len(pk_names) < npk:
        pk_names.append(PKG_NAMES[rng.below(len(PKG_NAMES))])
    dirs = shuffle(rng, DIRS)[:npk]
    tnames = shuffle(rng, WORDS)
    files, models, types, pkgs = {}, "", [], []
    for i in range(npk):
        base = pk_names[i] if rng.below(4) else pk_names[i] + "pkg"      # directory not named like the package
        rel = "%s/%s" % (dirs[i], base)
        src = "package %s\n\n" % pk_names[i]
        for _ in range(1 + rng.below(2)):
            t = tnames.pop()
            src += "type %s struct {\n\tID   string\n\tName string\n\tRank int\n}\n\n" % t
            models += "  %s:\n    model: {{PKG}}/%s.%s\n" % (t, rel, t)
            if rng.below(3) == 0:
                models += "    fields:\n      name:\n        resolver: true\n"
            types.append(t)
        files["%s/types_src.go" % rel] = src
        pkgs.append({"dir": rel, "package": pk_names[i]})
    gen = [tnames.pop() for _ in range(1 + rng.below(2))]       # unbound: generated into the model package
    inp = tnames.pop()
    model_pkg = "model" if rng.below(3) else ["types", "gen"][rng.below(2)]
    sdl = ["", ""]
    for t in types + gen:
        sdl[rng.below(2)] += "type %s {\n  id: ID!\n  name: String!\n  rank: Int!\n}\n" % t
    sdl[0] += "input %s {\n  name: String!\n  rank: Int\n}\n" % inp
    q = [[], []]
    fp = shuffle(rng, FIELDS)
    for t in shuffle(rng, types + types[:2] + gen):
        wrap = ["%s", "%s!", "[%s!]!", "[%s]"][rng.below(4)]
        arg = ["", "", "(in: %s)" % inp, "(ids: [ID!])"][rng.below(4)]
        q[rng.below(2)].append("%s%s: %s" % (fp.pop(), arg, wrap % t))
    if not q[0]:
        q[0].append(q[1].pop())
    sdl[0] += "type Query {\n  %s\n}\n" % "\n  ".join(q[0])
    if q[1]:
        sdl[1] += "extend type Query {\n  %s\n}\n" % "\n  ".join(q[1])
    m = shuffle(rng, types)[:2]
    sdl[1] += "type Mutation {\n  %s\n}\n" % "\n  ".join("%s(a: %s!, b: ID): %s!" % (fp.pop(), inp, t) for t in m)
    files["schema.graphql"] = sdl[0]
    files["extra.graphql"] = sdl[1]
    layout = "follow" if rng.below(5) else "single"
    files["gqlgen.yml"] = yml(name, layout, "models:\n" + models, model_pkg=model_pkg, schemas=("schema.graphql", "extra.graphql"))
    return {"files": files, "meta": {"dimension": "imports", "packages": pkgs, "model_package": model_pkg, "layout": layout}}


# ------------------------------------------------------------------------------------------------ literals
def literals(rng, name):
    keys = shuffle(rng, FIELDS)

    def inner(n):
        return "{" + ", ".join("%s: %d" % (k, rng.below(100)) for k in shuffle(rng, keys[:n])) + "}"

    nk = 5 + rng.below(4)
    sdl = "input Inner {\n  %s\n}\n" % "\n  ".join("%s: Int" % k for k in keys[:nk])
    outer = keys[nk:nk + 4]
    sdl += "input Outer {\n  %s: Inner = %s\n  %s: [Inner!] = [%s, %s]\n  %s: String = \"x\"\n  %s: Int = 3\n}\n" % (
        outer[0], inner(nk), outer[1], inner(3), inner(4), outer[2], outer[3])
    sdl += "directive @limits(cfg: Inner, all: Outer) on FIELD_DEFINITION | ARGUMENT_DEFINITION | INPUT_FIELD_DEFINITION\n"
    q = []
    for i in range(2 + rng.below(3)):
        kind = rng.below(3)
        if kind == 0:
            q.append("%s(filter: Inner = %s): Int" % (keys[-1 - i], inner(nk)))
        elif kind == 1:
            q.append("%s(o: Outer = {%s: %s, %s: \"y\", %s: 1}): Int" % (keys[-1 - i], outer[0], inner(nk - 1), outer[2], outer[3]))
        else:
            q.append("%s(x: Int @limits(cfg: %s)): Int @limits(cfg: %s, all: {%s: %s, %s: 2})" % (
                keys[-1 - i], inner(nk), inner(nk - 2), outer[0], inner(3), outer[3]))
    sdl += "type Query {\n  %s\n}\n" % "\n  ".join(q)
    extra = "directives:\n  limits:\n    skip_runtime: %s\n" % ("true" if rng.below(3) == 0 else "false")
    return {"files": {"schema.graphql": sdl, "gqlgen.yml": yml(name, ["follow", "none"][rng.below(2)], extra)},
            "meta": {"dimension": "literals", "keys": nk}}


# ------------------------------------------------------------------------------------------------ writing
def write(root, name, proj, pkg_prefix):
    d = os.path.join(root, name)
    for rel, text in proj["files"].items():
        p = os.path.join(d, rel)
        os.makedirs(os.path.dirname(p), exist_ok=True)
        with open(p, "w") as f:
            f.write(text.replace("{{PKG}}", pkg_prefix + "/" + name))
    return d


def load_corpus(cdir):
    """corpus/C18/<case>/…: directed projects kept as files; meta.json (optional) carries the model summary."""
    out = []
    if not os.path.isdir(cdir):
        return out
    for case in sorted(os.listdir(cdir)):
        base = os.path.join(cdir, case)
        if not os.path.isdir(base):
            continue
        files = {}
        for r, _, fs in os.walk(base):
            for f in fs:
                p = os.path.join(r, f)
                files[os.path.relpath(p, base)] = open(p).read()
        meta = {"dimension": "corpus"}
        if "meta.json" in files:
            import json
            meta.update(json.loads(files.pop("meta.json")))
        out.append((case, {"files": files, "meta": meta}))
    return out
