"""Project generators for C18 (used by checks/c18.py): the input dimensions beyond the C17 schema grammar.

Each generator returns {"files": {relative path: text}, "meta": {...}}; `{{PKG}}` in a file is replaced by the Go import
path of the project directory when it is written. Files named `*_src.go` are hand-written INPUTS of a project (bound
Go packages), never wiped between runs.

  relations   configuration x relationship structure of the generated models: pairs of object types joined by 0-3
              non-null (value) edges in each direction, self loops, nullable / list cross edges, inputs, a union and an
              interface, `struct_fields_always_pointers: false` mostly, other boolean options at random. With value
              fields modelgen runs its cycle pass (findAndHandleCyclicalRelationships), whose result depends on the
              order in which the models are visited. `meta["models"]` is the summary for driver_c18 `cyc`.
  imports     bound Go packages (the `models:` section): 2-5 hand-written packages under the project whose PACKAGE
              NAMES are drawn with repetition from a small pool that also contains names the templates reserve
              (ast, graphql, context, ...) and the generated model package's own name, at directories whose sort order
              is independent of the order of first use in the resolver files; some directories are not called like
              their package. Exercises codegen/templates/import.go (Reserve / Lookup numbering) and resolvergen's
              re-reservation of an existing file's imports on re-generation.
  literals    constant values rendered into generated Go source (templates.Dump): argument / input-field defaults
              and directive arguments that are input-object literals with several keys, nested objects and lists.
  federation  the federation plugin x its options: version 1 / 2 (explicit or detected from @link), explicit_requires,
              computed_requires, @entityResolver(multi: true), 4-12 entities with 1-3 @key each (plain, compound, nested
              through another entity) and 0-2 @requires fields each (two thirds of the entities have @requires), models in
              or out of the exec package: every map the plugin ranges over (entities, requires entities, imports of the
              requires file, builtins) has several entries.
  autobind    configuration that changes what a SECOND run sees of the first run's output: the package the models are
              generated into also holds a hand-written file and is listed under `autobind:` (or its types are bound
              through `models:`), the model package is the exec package itself or a separate one, further hand-written
              packages are autobound in a random order. `meta["regen"]` is the summary for driver_c18 `gen2`.
"""
import os

WORDS = ["Order", "Address", "Basket", "Carton", "Dealer", "Engine", "Farmer", "Garden", "Harbor", "Island", "Jacket",
         "Kettle", "Ladder", "Magnet", "Napkin", "Orchid", "Pillow", "Quiver", "Rocket", "Saddle", "Tunnel", "Velvet",
         "Walnut", "Zipper", "Beacon", "Candle", "Dragon", "Falcon", "Goblet", "Hammer"]
FIELDS = ["alpha", "bravo", "delta", "echo", "golf", "hotel", "india", "kilo", "lima", "mike", "oscar", "papa",
          "romeo", "sierra", "tango", "victor", "whiskey", "yankee", "zulu", "amber", "birch", "coral", "dune", "ember"]

BOOL_OPTS = ["omit_slice_element_pointers", "omit_getters", "omit_complexity", "resolvers_always_return_pointers",
             "enable_model_json_omitempty_tag", "omit_gqlgen_file_notice", "omit_interface_checks", "omit_root_models",
             "return_pointers_in_unmarshalinput", "use_function_syntax_for_execution_context"]


def shuffle(rng, xs):
    xs = list(xs)
    for i in range(len(xs) - 1, 0, -1):
        j = rng.below(i + 1)
        xs[i], xs[j] = xs[j], xs[i]
    return xs


def yml(name, layout, extra="", model_pkg="model", schemas=("schema.graphql",)):
    s = "schema:\n" + "".join("  - %s\n" % f for f in schemas)
    s += "exec:\n  filename: generated.go\n  package: %s\n" % name
    s += "model:\n  filename: %s/models_gen.go\n  package: %s\n" % (model_pkg, model_pkg)
    if layout == "follow":
        s += "resolver:\n  layout: follow-schema\n  dir: res\n  package: res\n"
    elif layout == "single":
        s += "resolver:\n  filename: res/resolver.go\n  package: res\n  type: Resolver\n"
    s += "skip_mod_tidy: true\n" + extra
    return s


# ------------------------------------------------------------------------------------------------ relations
def relations(rng, name, always_false=True):
    npairs = 3 + rng.below(4)
    names = shuffle(rng, WORDS)[:2 * npairs + 4]
    objs = names[:2 * npairs]
    in_a, in_b, union, iface = names[2 * npairs:2 * npairs + 4]
    fields = {t: [] for t in objs + [in_a, in_b]}
    fpool = {t: shuffle(rng, FIELDS) for t in fields}

    def add(t, target, wrap, val):
        fields[t].append((fpool[t].pop(), wrap % target, target, val))

    for p in range(npairs):
        a, b = objs[2 * p], objs[2 * p + 1]
        for _ in range(1 + rng.below(3)):
            add(a, b, "%s!", True)
        for _ in range(rng.below(3)):
            add(b, a, "%s!", True)
        if rng.below(4) == 0:
            add(a, a, "%s!", True)          # recursive struct
        if rng.below(4) == 0:
            add(b, b, "%s", False)
    # cross edges between different pairs never are values (a longer value cycle does not compile: C17's business)
    for _ in range(npairs + rng.below(2 * npairs)):
        a, b = objs[rng.below(len(objs))], objs[rng.below(len(objs))]
        add(a, b, ["%s", "[%s!]!", "[%s]", "[[%s!]]"][rng.below(4)], False)
    for t in objs:
        if rng.below(3) == 0:
            add(t, union, ["%s!", "%s", "[%s!]"][rng.below(3)], False)
        if rng.below(3) == 0:
            add(t, iface, ["%s!", "%s"][rng.below(2)], False)
    add(in_a, in_b, "%s!", True)
    add(in_a, in_b, "%s!", True)
    add(in_b, in_a, "%s", False)
    add(in_b, in_a, "[%s!]", False)
    opts = {"struct_fields_always_pointers": "false" if always_false or rng.below(2) else "true"}
    for o in BOOL_OPTS:
        r = rng.below(4)
        if r < 2:
            opts[o] = "true" if r else "false"
    sdl = "interface %s { ident: ID! }\nunion %s = %s | %s\n" % (iface, union, objs[0], objs[1])
    models = []
    for t in shuffle(rng, list(fields)):
        fs = shuffle(rng, fields[t])
        kw = "input" if t in (in_a, in_b) else "type"
        impl = " implements %s" % iface if kw == "type" and rng.below(4) == 0 else ""
        body = ["ident: ID!"] + ["%s: %s" % (f[0], f[1]) for f in fs] + ["count: Int", "label: String!"]
        sdl += "%s %s%s {\n  %s\n}\n" % (kw, t, impl, "\n  ".join(body))
        models.append({"name": t, "fields": [{"name": f[0], "target": f[2], "val": f[3]} for f in fs]})
    q = ["%s(in: %s): %s" % (t.lower(), in_a, t) for t in objs]
    sdl += "type Query {\n  %s\n}\n" % "\n  ".join(shuffle(rng, q))
    layout = ["follow", "follow", "none"][rng.below(3)]
    return {"files": {"schema.graphql": sdl, "gqlgen.yml": yml(name, layout, "".join("%s: %s\n" % kv for kv in sorted(opts.items())))},
            "meta": {"dimension": "relations", "models": models, "always_pointers": opts["struct_fields_always_pointers"] == "true",
                     "options": opts}}


# ------------------------------------------------------------------------------------------------ imports
PKG_NAMES = ["model", "model", "model", "types", "types", "pb", "ast", "graphql", "context", "errors", "introspection", "res"]
DIRS = ["zed", "alpha", "mid", "beta", "yak", "core", "omega", "aaa"]


def imports(rng, name):
    npk = 2 + rng.below(4)
    first = PKG_NAMES[rng.below(len(PKG_NAMES))]
    pk_names = [first, first if rng.below(3) else PKG_NAMES[rng.below(len(PKG_NAMES))]]
    while len(pk_names) < npk:
        pk_names.append(PKG_NAMES[rng.below(len(PKG_NAMES))])
    dirs = shuffle(rng, DIRS)[:npk]
    tnames = shuffle(rng, WORDS)
    files, models, types, pkgs = {}, "", [], []
    for i in range(npk):
        base = pk_names[i] if rng.below(4) else pk_names[i] + "pkg"      # directory not named like the package
        rel = "%s/%s" % (dirs[i], base)
        src = "package %s\n\n" % pk_names[i]
        for _ in range(1 + rng.below(2)):
            t = tnames.pop()
            src += "type %s struct {\n\tID   string\n\tName string\n\tRank int\n}\n\n" % t
            models += "  %s:\n    model: {{PKG}}/%s.%s\n" % (t, rel, t)
            if rng.below(3) == 0:
                models += "    fields:\n      name:\n        resolver: true\n"
            types.append(t)
        files["%s/types_src.go" % rel] = src
        pkgs.append({"dir": rel, "package": pk_names[i]})
    gen = [tnames.pop() for _ in range(1 + rng.below(2))]       # unbound: generated into the model package
    inp = tnames.pop()
    model_pkg = "model" if rng.below(3) else ["types", "gen"][rng.below(2)]
    sdl = ["", ""]
    for t in types + gen:
        sdl[rng.below(2)] += "type %s {\n  id: ID!\n  name: String!\n  rank: Int!\n}\n" % t
    sdl[0] += "input %s {\n  name: String!\n  rank: Int\n}\n" % inp
    q = [[], []]
    fp = shuffle(rng, FIELDS)
    for t in shuffle(rng, types + types[:2] + gen):
        wrap = ["%s", "%s!", "[%s!]!", "[%s]"][rng.below(4)]
        arg = ["", "", "(in: %s)" % inp, "(ids: [ID!])"][rng.below(4)]
        q[rng.below(2)].append("%s%s: %s" % (fp.pop(), arg, wrap % t))
    if not q[0]:
        q[0].append(q[1].pop())
    sdl[0] += "type Query {\n  %s\n}\n" % "\n  ".join(q[0])
    if q[1]:
        sdl[1] += "extend type Query {\n  %s\n}\n" % "\n  ".join(q[1])
    m = shuffle(rng, types)[:2]
    sdl[1] += "type Mutation {\n  %s\n}\n" % "\n  ".join("%s(a: %s!, b: ID): %s!" % (fp.pop(), inp, t) for t in m)
    files["schema.graphql"] = sdl[0]
    files["extra.graphql"] = sdl[1]
    layout = "follow" if rng.below(5) else "single"
    files["gqlgen.yml"] = yml(name, layout, "models:\n" + models, model_pkg=model_pkg, schemas=("schema.graphql", "extra.graphql"))
    return {"files": files, "meta": {"dimension": "imports", "packages": pkgs, "model_package": model_pkg, "layout": layout}}


# ------------------------------------------------------------------------------------------------ literals
def literals(rng, name):
    keys = shuffle(rng, FIELDS)

    def inner(n):
        return "{" + ", ".join("%s: %d" % (k, rng.below(100)) for k in shuffle(rng, keys[:n])) + "}"

    nk = 5 + rng.below(4)
    sdl = "input Inner {\n  %s\n}\n" % "\n  ".join("%s: Int" % k for k in keys[:nk])
    outer = keys[nk:nk + 4]
    sdl += "input Outer {\n  %s: Inner = %s\n  %s: [Inner!] = [%s, %s]\n  %s: String = \"x\"\n  %s: Int = 3\n}\n" % (
        outer[0], inner(nk), outer[1], inner(3), inner(4), outer[2], outer[3])
    sdl += "directive @limits(cfg: Inner, all: Outer) on FIELD_DEFINITION | ARGUMENT_DEFINITION | INPUT_FIELD_DEFINITION\n"
    q = []
    for i in range(2 + rng.below(3)):
        kind = rng.below(3)
        if kind == 0:
            q.append("%s(filter: Inner = %s): Int" % (keys[-1 - i], inner(nk)))
        elif kind == 1:
            q.append("%s(o: Outer = {%s: %s, %s: \"y\", %s: 1}): Int" % (keys[-1 - i], outer[0], inner(nk - 1), outer[2], outer[3]))
        else:
            q.append("%s(x: Int @limits(cfg: %s)): Int @limits(cfg: %s, all: {%s: %s, %s: 2})" % (
                keys[-1 - i], inner(nk), inner(nk - 2), outer[0], inner(3), outer[3]))
    sdl += "type Query {\n  %s\n}\n" % "\n  ".join(q)
    extra = "directives:\n  limits:\n    skip_runtime: %s\n" % ("true" if rng.below(3) == 0 else "false")
    return {"files": {"schema.graphql": sdl, "gqlgen.yml": yml(name, ["follow", "none"][rng.below(2)], extra)},
            "meta": {"dimension": "literals", "keys": nk}}


# ------------------------------------------------------------------------------------------------ federation
def federation(rng, name, option=None, version=None, min_requires=3):
    """option: None (random) | "" | "explicit_requires" | "computed_requires"; version: None (random) | 1 | 2"""
    if version is None:
        version = 1 + (rng.below(3) > 0)
    if option is None:
        option = ["", "explicit_requires", "explicit_requires", "computed_requires"][rng.below(4)]
    if option == "computed_requires":
        version = 2
    nent = 4 + rng.below(9) if min_requires < 9 else 10 + rng.below(3)     # > 8 entries: beyond one runtime map bucket
    names = shuffle(rng, WORDS)[:nent + 2]
    ents, plain = names[:nent], names[nent:]
    sdl = ""
    if version == 2:
        sdl += 'extend schema @link(url: "https://specs.apollo.dev/federation/v2.%d", import: ["@key", "@requires", "@external", "@shareable"])\n' % [0, 3, 7][rng.below(3)]
    sdl += "directive @entityResolver(multi: Boolean) on OBJECT\n"
    for t in plain:
        sdl += "type %s {\n  label: String!\n  count: Int\n}\n" % t
    need = set(shuffle(rng, range(nent))[:max(min_requires, 2 * nent // 3)])     # entities that have @requires fields
    summary = []
    blocks = []
    for i, t in enumerate(ents):
        other = ents[(i + 1 + rng.below(nent - 1)) % nent]
        keys = ['"id"']
        r = rng.below(6)
        if r == 1:
            keys.append('"sku"')
        elif r == 2:
            keys.append('"id sku"')
        elif r == 3:
            keys = ['"id owner { id }"', '"sku"']
        elif r == 4:
            keys = ['"sku"', '"id"', '"owner { id } sku"']
        multi = rng.below(4) == 0
        fp = shuffle(rng, FIELDS)
        body = ["id: ID!", "sku: String!", "owner: %s!" % other, "detail: %s" % plain[rng.below(2)]]
        nreq = (1 + rng.below(2)) if i in need or rng.below(3) == 0 else 0
        for k in range(nreq):
            ext = fp.pop()
            body.append("%s: Int! @external" % ext)
            if rng.below(3) == 0:
                ext2 = fp.pop()
                body.append("%s: String @external" % ext2)
                body.append('%s: Int! @requires(fields: "%s %s")' % (fp.pop(), ext, ext2))
            elif rng.below(3) == 0:
                body.append('%s: Int @requires(fields: "%s owner { sku }")' % (fp.pop(), ext))
            else:
                body.append('%s: Int! @requires(fields: "%s")' % (fp.pop(), ext))
        blocks.append("type %s %s%s {\n  %s\n}\n" % (t, " ".join("@key(fields: %s)" % k for k in keys),
                                                 " @entityResolver(multi: true)" if multi else "", "\n  ".join(shuffle(rng, body))))
        summary.append({"name": t, "keys": len(keys), "requires": nreq, "multi": multi})
    sdl += "".join(shuffle(rng, blocks))
    sdl += "type Query {\n  %s\n}\n" % "\n  ".join("%s: %s" % (t.lower(), t) for t in shuffle(rng, ents)[:3])
    in_exec = rng.below(3) == 0                         # models generated into the exec package
    y = "schema:\n  - schema.graphql\nexec:\n  filename: generated.go\n  package: %s\n" % name
    y += "federation:\n  filename: federation.go\n  package: %s\n" % name
    if version == 1 or rng.below(2):
        y += "  version: %d\n" % version                # else: detected from the @link url
    if option:
        y += "  options:\n    %s: true\n" % option
    y += "model:\n  filename: %s\n  package: %s\n" % (("models_gen.go", name) if in_exec else ("model/models_gen.go", "model"))
    if rng.below(3):
        y += "resolver:\n  layout: follow-schema\n  dir: res\n  package: res\n"
    y += "skip_mod_tidy: true\n"
    if option == "computed_requires":
        y += "call_argument_directives_with_null: true\n"
    for o in ("omit_complexity", "use_function_syntax_for_execution_context", "omit_slice_element_pointers"):
        if rng.below(3) == 0:
            y += "%s: true\n" % o
    return {"files": {"schema.graphql": sdl, "gqlgen.yml": y},
            "meta": {"dimension": "federation", "version": version, "option": option or "none", "entities": summary,
                     "models_in_exec_package": in_exec}}


# ------------------------------------------------------------------------------------------------ autobind
def autobind(rng, name):
    tn = shuffle(rng, WORDS)
    in_exec = rng.below(3) == 0                         # the model package is the exec package itself
    mdir, mpkg = (".", name) if in_exec else [("model", "model"), ("graph/model", "model"), ("types", "types")][rng.below(3)]
    bind_auto = rng.below(4) > 0                        # the model package is listed under `autobind:`
    files, models_yml = {}, ""
    hand = [tn.pop() for _ in range(1 + rng.below(3))]  # hand-written types living in the model package
    src = "package %s\n\n" % mpkg
    for t in hand:
        src += "type %s struct {\n\tID   string\n\tName string\n\tRank int\n}\n\n" % t
        if not bind_auto:
            models_yml += "  %s:\n    model: {{PKG}}%s.%s\n" % (t, "" if in_exec else "/" + mdir, t)
    files[("" if in_exec else mdir + "/") + "types_src.go"] = src
    auto = ["{{PKG}}" + ("" if in_exec else "/" + mdir)] if bind_auto else []
    ext = []
    for d in shuffle(rng, ["ext/shared", "aaa/kinds", "zed/base"])[:rng.below(3)]:
        t = tn.pop()
        files[d + "/types_src.go"] = "package %s\n\ntype %s struct {\n\tID   string\n\tName string\n\tRank int\n}\n" % (d.split("/")[1], t)
        auto.append("{{PKG}}/" + d)
        ext.append(t)
    auto = shuffle(rng, auto)
    gen = [tn.pop() for _ in range(2 + rng.below(3))]   # generated into models_gen.go of the model package
    enum, inp = tn.pop(), tn.pop()
    sdl = "enum %s {\n  LOW\n  HIGH\n}\ninput %s {\n  name: String!\n  level: %s\n}\n" % (enum, "New" + inp, enum)
    every = hand + ext + gen
    for t in shuffle(rng, every):
        body = ["id: ID!", "name: String!", "rank: Int!"]
        if t in gen:
            body.append("level: %s" % enum)
        fp = shuffle(rng, FIELDS)
        for _ in range(rng.below(3)):
            body.append("%s: %s" % (fp.pop(), ["%s", "[%s!]"][rng.below(2)] % every[rng.below(len(every))]))
        sdl += "type %s {\n  %s\n}\n" % (t, "\n  ".join(body))
    sdl += "type Query {\n  %s\n}\n" % "\n  ".join("%s: %s" % (t.lower(), t) for t in shuffle(rng, every))
    sdl += "type Mutation {\n  create(in: %s!): %s!\n}\n" % ("New" + inp, gen[0])
    y = "schema:\n  - schema.graphql\nexec:\n  filename: generated.go\n  package: %s\n" % name
    y += "model:\n  filename: %s\n  package: %s\n" % ("models_gen.go" if in_exec else mdir + "/models_gen.go", mpkg)
    if rng.below(3):
        y += "resolver:\n  layout: follow-schema\n  dir: res\n  package: res\n"
    y += "skip_mod_tidy: true\n"
    if auto:
        y += "autobind:\n" + "".join("  - %s\n" % a for a in auto)
    if models_yml:
        y += "models:\n" + models_yml
    files["schema.graphql"] = sdl
    files["gqlgen.yml"] = y
    return {"files": files, "meta": {"dimension": "autobind", "models_in_exec_package": in_exec, "model_package_autobound": bind_auto,
                                     "autobind_packages": len(auto), "hand_written_in_model_package": hand, "generated": gen + [enum, "New" + inp],
                                     "regen": {"types": every + [enum, "New" + inp], "hand": hand + ext, "autobind": bind_auto}}}


# ------------------------------------------------------------------------------------------------ writing
def write(root, name, proj, pkg_prefix):
    d = os.path.join(root, name)
    for rel, text in proj["files"].items():
        p = os.path.join(d, rel)
        os.makedirs(os.path.dirname(p), exist_ok=True)
        with open(p, "w") as f:
            f.write(text.replace("{{PKG}}", pkg_prefix + "/" + name))
    return d


def load_corpus(cdir):
    """corpus/C18/<case>/…: directed projects kept as files; meta.json (optional) carries the model summary."""
    out = []
    if not os.path.isdir(cdir):
        return out
    for case in sorted(os.listdir(cdir)):
        base = os.path.join(cdir, case)
        if not os.path.isdir(base):
            continue
        files = {}
        for r, _, fs in os.walk(base):
            for f in fs:
                p = os.path.join(r, f)
                files[os.path.relpath(p, base)] = open(p).read()
        meta = {"dimension": "corpus"}
        if "meta.json" in files:
            import json
            meta.update(json.loads(files.pop("meta.json")))
        out.append((case, {"files": files, "meta": meta}))
    return out
