"""Project generators for C18 (used by checks/c18.py): the input dimensions beyond the C17 schema grammar.

Each generator returns {"files": {relative path: text}, "meta": {...}}; `{{PKG}}` in a file is replaced by the Go import
path of the project directory when it is written. Files named `*_src.go` are hand-written INPUTS of a project (bound
Go packages), never wiped between runs.

  relations   configuration x relationship structure of the generated models: pairs of object types joined by 0-3
              non-null (value) edges in each direction, self loops, nullable / list cross edges, inputs, a union and an
              interface, `struct_fields_always_pointers: false` mostly, other boolean options at random. With value
              fields modelgen runs its cycle pass (findAndHandleCyclicalRelationships), whose result depends on the
              order in which the models are visited. `meta["models"]` is the summary for driver_c18 `cyc`.
  imports     bound Go packages (the `models:` section): 2-5 hand-written packages under the project whose PACKAGE
              NAMES are drawn with repetition from a small pool that also contains names the templates reserve
              (ast, graphql, context, ...) and the generated model package's own name, at directories whose sort order
              is independent of the order of first use in the resolver files; some directories are not called like
              their package. Exercises codegen/templates/import.go (Reserve / Lookup numbering) and resolvergen's
              re-reservation of an existing file's imports on re-generation.
  literals    constant values rendered into generated Go source (templates.Dump): argument / input-field defaults
              and directive arguments that are input-object literals with several keys, nested objects and lists.
  federation  the federation plugin x its options: version 1 / 2 (explicit or detected from @link), explicit_requires,
              computed_requires, @entityResolver(multi: true), 4-12 entities with 1-3 @key each (plain, compound, nested
              through another entity) and 0-2 @requires fields each (two thirds of the entities have @requires), models in
              or out of the exec package: every map the plugin ranges over (entities, requires entities, imports of the
              requires file, builtins) has several entries.
  autobind    configuration that changes what a SECOND run sees of the first run's output: the package the models are
              generated into also holds a hand-written file and is listed under `autobind:` (or its types are bound
              through `models:`), the model package is the exec package itself or a separate one, further hand-written
              packages are autobound in a random order. `meta["regen"]` is the summary for driver_c18 `gen2`.
  modular     project LAYOUT: `exec.layout: follow-schema` over SEVERAL schema files in several directories, base names
              shared between directories (users/schema.graphql, orders/schema.graphql -> ONE schema.generated.go), files
              that hold only enums / scalars / interfaces / unions, directives WITH ARGUMENTS defined in some of the files
              (type-system and, in the source the unchanged generator pins, executable ones), explicit `schema:` list in
              random order or globs, `filename_template`, follow-schema / single-file / no resolvers.
              codegen.generatePerSchema pins each per-file build to the source of the element that creates it.
              `layout_summary` derives the input of driver_c18 `pins` from ANY follow-schema project's files.
  extrafields `models.<Type>.extraFields` (a Go map) with 2-7 entries, `embedExtraFields`, `@goExtraField` with and
              without name, on objects and inputs, builtin / pointer / slice / named types from the standard library and
              from a hand-written package. `extra_summary` derives the input of driver_c18 `xf`.
  shadow      hand-written model packages whose identifiers COLLIDE ACROSS SCOPES: for bound types T (structs, named string
              scalars) the package also defines type parameters (of funcs and of generic types), parameters, named results,
              locals, local types / consts, labels, receivers, closure parameters, type-switch variables called T or
              Marshal<T>, plus struct fields and methods called T; 1-2 packages, bound through `models:` or `autobind:`.
              The binder indexes a package by identifier NAME over the map TypesInfo.Defs (`h_c18 -mode find` + driver `idx`).
  collisions  schemas whose type / enum-value / field names collide after Go name normalisation (FooBar / foo_bar / FOO_BAR,
              UserId / UserID / user_id, Plan2 / plan_2), kinds mixed, every colliding type referenced from fields of
              DIFFERENT generated models: the process-global name registry hands out FooBar, FooBar0 in request order.
  start_dirs  (not a generator) the directories inside ANY project the generator process is started from, by class.
  template_sets  (not projects) template sets for templates.Render: 0-4 `!.gotpl` roots x 0-4 ordinary roots, `_.gotpl`
              includes, templates defined inside files, sub-directories, foreign files (`h_c18 -mode render` + driver `roots`).
"""
import fnmatch
import glob
import os
import re

WORDS = ["Order", "Address", "Basket", "Carton", "Dealer", "Engine", "Farmer", "Garden", "Harbor", "Island", "Jacket",
         "Kettle", "Ladder", "Magnet", "Napkin", "Orchid", "Pillow", "Quiver", "Rocket", "Saddle", "Tunnel", "Velvet",
         "Walnut", "Zipper", "Beacon", "Candle", "Dragon", "Falcon", "Goblet", "Hammer"]
FIELDS = ["alpha", "bravo", "delta", "echo", "golf", "hotel", "india", "kilo", "lima", "mike", "oscar", "papa",
          "romeo", "sierra", "tango", "victor", "whiskey", "yankee", "zulu", "amber", "birch", "coral", "dune", "ember"]

BOOL_OPTS = ["omit_slice_element_pointers", "omit_getters", "omit_complexity", "resolvers_always_return_pointers",
             "enable_model_json_omitempty_tag", "omit_gqlgen_file_notice", "omit_interface_checks", "omit_root_models",
             "return_pointers_in_unmarshalinput", "use_function_syntax_for_execution_context"]


def shuffle(rng, xs):
    xs = list(xs)
    for i in range(len(xs) - 1, 0, -1):
        j = rng.below(i + 1)
        xs[i], xs[j] = xs[j], xs[i]
    return xs


def yml(name, layout, extra="", model_pkg="model", schemas=("schema.graphql",)):
    s = "schema:\n" + "".join("  - %s\n" % f for f in schemas)
    s += "exec:\n  filename: generated.go\n  package: %s\n" % name
    s += "model:\n  filename: %s/models_gen.go\n  package: %s\n" % (model_pkg, model_pkg)
    if layout == "follow":
        s += "resolver:\n  layout: follow-schema\n  dir: res\n  package: res\n"
    elif layout == "single":
        s += "resolver:\n  filename: res/resolver.go\n  package: res\n  type: Resolver\n"
    s += "skip_mod_tidy: true\n" + extra
    return s


# ------------------------------------------------------------------------------------------------ relations
def relations(rng, name, always_false=True):
    npairs = 3 + rng.below(4)
    names = shuffle(rng, WORDS)[:2 * npairs + 4]
    objs = names[:2 * npairs]
    in_a, in_b, union, iface = names[2 * npairs:2 * npairs + 4]
    fields = {t: [] for t in objs + [in_a, in_b]}
    fpool = {t: shuffle(rng, FIELDS) for t in fields}

    def add(t, target, wrap, val):
        fields[t].append((fpool[t].pop(), wrap % target, target, val))

    for p in range(npairs):
        a, b = objs[2 * p], objs[2 * p + 1]
        for _ in range(1 + rng.below(3)):
            add(a, b, "%s!", True)
        for _ in range(rng.below(3)):
            add(b, a, "%s!", True)
        if rng.below(4) == 0:
            add(a, a, "%s!", True)          # recursive struct
        if rng.below(4) == 0:
            add(b, b, "%s", False)
    # cross edges between different pairs never are values (a longer value cycle does not compile: C17's business)
    for _ in range(npairs + rng.below(2 * npairs)):
        a, b = objs[rng.below(len(objs))], objs[rng.below(len(objs))]
        add(a, b, ["%s", "[%s!]!", "[%s]", "[[%s!]]"][rng.below(4)], False)
    for t in objs:
        if rng.below(3) == 0:
            add(t, union, ["%s!", "%s", "[%s!]"][rng.below(3)], False)
        if rng.below(3) == 0:
            add(t, iface, ["%s!", "%s"][rng.below(2)], False)
    add(in_a, in_b, "%s!", True)
    add(in_a, in_b, "%s!", True)
    add(in_b, in_a, "%s", False)
    add(in_b, in_a, "[%s!]", False)
    opts = {"struct_fields_always_pointers": "false" if always_false or rng.below(2) else "true"}
    for o in BOOL_OPTS:
        r = rng.below(4)
        if r < 2:
            opts[o] = "true" if r else "false"
    sdl = "interface %s { ident: ID! }\nunion %s = %s | %s\n" % (iface, union, objs[0], objs[1])
    models = []
    for t in shuffle(rng, list(fields)):
        fs = shuffle(rng, fields[t])
        kw = "input" if t in (in_a, in_b) else "type"
        impl = " implements %s" % iface if kw == "type" and rng.below(4) == 0 else ""
        body = ["ident: ID!"] + ["%s: %s" % (f[0], f[1]) for f in fs] + ["count: Int", "label: String!"]
        sdl += "%s %s%s {\n  %s\n}\n" % (kw, t, impl, "\n  ".join(body))
        models.append({"name": t, "fields": [{"name": f[0], "target": f[2], "val": f[3]} for f in fs]})
    q = ["%s(in: %s): %s" % (t.lower(), in_a, t) for t in objs]
    sdl += "type Query {\n  %s\n}\n" % "\n  ".join(shuffle(rng, q))
    layout = ["follow", "follow", "none"][rng.below(3)]
    return {"files": {"schema.graphql": sdl, "gqlgen.yml": yml(name, layout, "".join("%s: %s\n" % kv for kv in sorted(opts.items())))},
            "meta": {"dimension": "relations", "models": models, "always_pointers": opts["struct_fields_always_pointers"] == "true",
                     "options": opts}}


# ------------------------------------------------------------------------------------------------ imports
PKG_NAMES = ["model", "model", "model", "types", "types", "pb", "ast", "graphql", "context", "errors", "introspection", "res"]
DIRS = ["zed", "alpha", "mid", "beta", "yak", "core", "omega", "aaa"]


def imports(rng, name):
    npk = 2 + rng.below(4)
    first = PKG_NAMES[rng.below(len(PKG_NAMES))]
    pk_names = [first, first if rng.below(3) else PKG_NAMES[rng.below(len(PKG_NAMES))]]
    while len(pk_names) < npk:
        pk_names.append(PKG_NAMES[rng.below(len(PKG_NAMES))])
    dirs = shuffle(rng, DIRS)[:npk]
    tnames = shuffle(rng, WORDS)
    files, models, types, pkgs = {}, "", [], []
    for i in range(npk):
        base = pk_names[i] if rng.below(4) else pk_names[i] + "pkg"      # directory not named like the package
        rel = "%s/%s" % (dirs[i], base)
        src = "package %s\n\n" % pk_names[i]
        for _ in range(1 + rng.below(2)):
            t = tnames.pop()
            src += "type %s struct {\n\tID   string\n\tName string\n\tRank int\n}\n\n" % t
            models += "  %s:\n    model: {{PKG}}/%s.%s\n" % (t, rel, t)
            if rng.below(3) == 0:
                models += "    fields:\n      name:\n        resolver: true\n"
            types.append(t)
        files["%s/types_src.go" % rel] = src
        pkgs.append({"dir": rel, "package": pk_names[i]})
    gen = [tnames.pop() for _ in range(1 + rng.below(2))]       # unbound: generated into the model package
    inp = tnames.pop()
    model_pkg = "model" if rng.below(3) else ["types", "gen"][rng.below(2)]
    sdl = ["", ""]
    for t in types + gen:
        sdl[rng.below(2)] += "type %s {\n  id: ID!\n  name: String!\n  rank: Int!\n}\n" % t
    sdl[0] += "input %s {\n  name: String!\n  rank: Int\n}\n" % inp
    q = [[], []]
    fp = shuffle(rng, FIELDS)
    for t in shuffle(rng, types + types[:2] + gen):
        wrap = ["%s", "%s!", "[%s!]!", "[%s]"][rng.below(4)]
        arg = ["", "", "(in: %s)" % inp, "(ids: [ID!])"][rng.below(4)]
        q[rng.below(2)].append("%s%s: %s" % (fp.pop(), arg, wrap % t))
    if not q[0]:
        q[0].append(q[1].pop())
    sdl[0] += "type Query {\n  %s\n}\n" % "\n  ".join(q[0])
    if q[1]:
        sdl[1] += "extend type Query {\n  %s\n}\n" % "\n  ".join(q[1])
    m = shuffle(rng, types)[:2]
    sdl[1] += "type Mutation {\n  %s\n}\n" % "\n  ".join("%s(a: %s!, b: ID): %s!" % (fp.pop(), inp, t) for t in m)
    files["schema.graphql"] = sdl[0]
    files["extra.graphql"] = sdl[1]
    layout = "follow" if rng.below(5) else "single"
    files["gqlgen.yml"] = yml(name, layout, "models:\n" + models, model_pkg=model_pkg, schemas=("schema.graphql", "extra.graphql"))
    return {"files": files, "meta": {"dimension": "imports", "packages": pkgs, "model_package": model_pkg, "layout": layout}}


# ------------------------------------------------------------------------------------------------ literals
def literals(rng, name):
    keys = shuffle(rng, FIELDS)

    def inner(n):
        return "{" + ", ".join("%s: %d" % (k, rng.below(100)) for k in shuffle(rng, keys[:n])) + "}"

    nk = 5 + rng.below(4)
    sdl = "input Inner {\n  %s\n}\n" % "\n  ".join("%s: Int" % k for k in keys[:nk])
    outer = keys[nk:nk + 4]
    sdl += "input Outer {\n  %s: Inner = %s\n  %s: [Inner!] = [%s, %s]\n  %s: String = \"x\"\n  %s: Int = 3\n}\n" % (
        outer[0], inner(nk), outer[1], inner(3), inner(4), outer[2], outer[3])
    sdl += "directive @limits(cfg: Inner, all: Outer) on FIELD_DEFINITION | ARGUMENT_DEFINITION | INPUT_FIELD_DEFINITION\n"
    q = []
    for i in range(2 + rng.below(3)):
        kind = rng.below(3)
        if kind == 0:
            q.append("%s(filter: Inner = %s): Int" % (keys[-1 - i], inner(nk)))
        elif kind == 1:
            q.append("%s(o: Outer = {%s: %s, %s: \"y\", %s: 1}): Int" % (keys[-1 - i], outer[0], inner(nk - 1), outer[2], outer[3]))
        else:
            q.append("%s(x: Int @limits(cfg: %s)): Int @limits(cfg: %s, all: {%s: %s, %s: 2})" % (
                keys[-1 - i], inner(nk), inner(nk - 2), outer[0], inner(3), outer[3]))
    sdl += "type Query {\n  %s\n}\n" % "\n  ".join(q)
    extra = "directives:\n  limits:\n    skip_runtime: %s\n" % ("true" if rng.below(3) == 0 else "false")
    return {"files": {"schema.graphql": sdl, "gqlgen.yml": yml(name, ["follow", "none"][rng.below(2)], extra)},
            "meta": {"dimension": "literals", "keys": nk}}


# ------------------------------------------------------------------------------------------------ federation
def federation(rng, name, option=None, version=None, min_requires=3):
    """option: None (random) | "" | "explicit_requires" | "computed_requires"; version: None (random) | 1 | 2"""
    if version is None:
        version = 1 + (rng.below(3) > 0)
    if option is None:
        option = ["", "explicit_requires", "explicit_requires", "computed_requires"][rng.below(4)]
    if option == "computed_requires":
        version = 2
    nent = 4 + rng.below(9) if min_requires < 9 else 10 + rng.below(3)     # > 8 entries: beyond one runtime map bucket
    names = shuffle(rng, WORDS)[:nent + 2]
    ents, plain = names[:nent], names[nent:]
    sdl = ""
    if version == 2:
        sdl += 'extend schema @link(url: "https://specs.apollo.dev/federation/v2.%d", import: ["@key", "@requires", "@external", "@shareable"])\n' % [0, 3, 7][rng.below(3)]
    sdl += "directive @entityResolver(multi: Boolean) on OBJECT\n"
    for t in plain:
        sdl += "type %s {\n  label: String!\n  count: Int\n}\n" % t
    need = set(shuffle(rng, range(nent))[:max(min_requires, 2 * nent // 3)])     # entities that have @requires fields
    summary = []
    blocks = []
    for i, t in enumerate(ents):
        other = ents[(i + 1 + rng.below(nent - 1)) % nent]
        keys = ['"id"']
        r = rng.below(6)
        if r == 1:
            keys.append('"sku"')
        elif r == 2:
            keys.append('"id sku"')
        elif r == 3:
            keys = ['"id owner { id }"', '"sku"']
        elif r == 4:
            keys = ['"sku"', '"id"', '"owner { id } sku"']
        multi = rng.below(4) == 0
        fp = shuffle(rng, FIELDS)
        body = ["id: ID!", "sku: String!", "owner: %s!" % other, "detail: %s" % plain[rng.below(2)]]
        nreq = (1 + rng.below(2)) if i in need or rng.below(3) == 0 else 0
        for k in range(nreq):
            ext = fp.pop()
            body.append("%s: Int! @external" % ext)
            if rng.below(3) == 0:
                ext2 = fp.pop()
                body.append("%s: String @external" % ext2)
                body.append('%s: Int! @requires(fields: "%s %s")' % (fp.pop(), ext, ext2))
            elif rng.below(3) == 0:
                body.append('%s: Int @requires(fields: "%s owner { sku }")' % (fp.pop(), ext))
            else:
                body.append('%s: Int! @requires(fields: "%s")' % (fp.pop(), ext))
        blocks.append("type %s %s%s {\n  %s\n}\n" % (t, " ".join("@key(fields: %s)" % k for k in keys),
                                                 " @entityResolver(multi: true)" if multi else "", "\n  ".join(shuffle(rng, body))))
        summary.append({"name": t, "keys": len(keys), "requires": nreq, "multi": multi})
    sdl += "".join(shuffle(rng, blocks))
    sdl += "type Query {\n  %s\n}\n" % "\n  ".join("%s: %s" % (t.lower(), t) for t in shuffle(rng, ents)[:3])
    in_exec = rng.below(3) == 0                         # models generated into the exec package
    y = "schema:\n  - schema.graphql\nexec:\n  filename: generated.go\n  package: %s\n" % name
    y += "federation:\n  filename: federation.go\n  package: %s\n" % name
    if version == 1 or rng.below(2):
        y += "  version: %d\n" % version                # else: detected from the @link url
    if option:
        y += "  options:\n    %s: true\n" % option
    y += "model:\n  filename: %s\n  package: %s\n" % (("models_gen.go", name) if in_exec else ("model/models_gen.go", "model"))
    if rng.below(3):
        y += "resolver:\n  layout: follow-schema\n  dir: res\n  package: res\n"
    y += "skip_mod_tidy: true\n"
    if option == "computed_requires":
        y += "call_argument_directives_with_null: true\n"
    for o in ("omit_complexity", "use_function_syntax_for_execution_context", "omit_slice_element_pointers"):
        if rng.below(3) == 0:
            y += "%s: true\n" % o
    return {"files": {"schema.graphql": sdl, "gqlgen.yml": y},
            "meta": {"dimension": "federation", "version": version, "option": option or "none", "entities": summary,
                     "models_in_exec_package": in_exec}}


# ------------------------------------------------------------------------------------------------ autobind
def autobind(rng, name):
    tn = shuffle(rng, WORDS)
    in_exec = rng.below(3) == 0                         # the model package is the exec package itself
    mdir, mpkg = (".", name) if in_exec else [("model", "model"), ("graph/model", "model"), ("types", "types")][rng.below(3)]
    bind_auto = rng.below(4) > 0                        # the model package is listed under `autobind:`
    files, models_yml = {}, ""
    hand = [tn.pop() for _ in range(1 + rng.below(3))]  # hand-written types living in the model package
    src = "package %s\n\n" % mpkg
    for t in hand:
        src += "type %s struct {\n\tID   string\n\tName string\n\tRank int\n}\n\n" % t
        if not bind_auto:
            models_yml += "  %s:\n    model: {{PKG}}%s.%s\n" % (t, "" if in_exec else "/" + mdir, t)
    files[("" if in_exec else mdir + "/") + "types_src.go"] = src
    auto = ["{{PKG}}" + ("" if in_exec else "/" + mdir)] if bind_auto else []
    ext = []
    for d in shuffle(rng, ["ext/shared", "aaa/kinds", "zed/base"])[:rng.below(3)]:
        t = tn.pop()
        files[d + "/types_src.go"] = "package %s\n\ntype %s struct {\n\tID   string\n\tName string\n\tRank int\n}\n" % (d.split("/")[1], t)
        auto.append("{{PKG}}/" + d)
        ext.append(t)
    auto = shuffle(rng, auto)
    gen = [tn.pop() for _ in range(2 + rng.below(3))]   # generated into models_gen.go of the model package
    enum, inp = tn.pop(), tn.pop()
    sdl = "enum %s {\n  LOW\n  HIGH\n}\ninput %s {\n  name: String!\n  level: %s\n}\n" % (enum, "New" + inp, enum)
    every = hand + ext + gen
    for t in shuffle(rng, every):
        body = ["id: ID!", "name: String!", "rank: Int!"]
        if t in gen:
            body.append("level: %s" % enum)
        fp = shuffle(rng, FIELDS)
        for _ in range(rng.below(3)):
            body.append("%s: %s" % (fp.pop(), ["%s", "[%s!]"][rng.below(2)] % every[rng.below(len(every))]))
        sdl += "type %s {\n  %s\n}\n" % (t, "\n  ".join(body))
    sdl += "type Query {\n  %s\n}\n" % "\n  ".join("%s: %s" % (t.lower(), t) for t in shuffle(rng, every))
    sdl += "type Mutation {\n  create(in: %s!): %s!\n}\n" % ("New" + inp, gen[0])
    y = "schema:\n  - schema.graphql\nexec:\n  filename: generated.go\n  package: %s\n" % name
    y += "model:\n  filename: %s\n  package: %s\n" % ("models_gen.go" if in_exec else mdir + "/models_gen.go", mpkg)
    if rng.below(3):
        y += "resolver:\n  layout: follow-schema\n  dir: res\n  package: res\n"
    y += "skip_mod_tidy: true\n"
    if auto:
        y += "autobind:\n" + "".join("  - %s\n" % a for a in auto)
    if models_yml:
        y += "models:\n" + models_yml
    files["schema.graphql"] = sdl
    files["gqlgen.yml"] = y
    return {"files": files, "meta": {"dimension": "autobind", "models_in_exec_package": in_exec, "model_package_autobound": bind_auto,
                                     "autobind_packages": len(auto), "hand_written_in_model_package": hand, "generated": gen + [enum, "New" + inp],
                                     "regen": {"types": every + [enum, "New" + inp], "hand": hand + ext, "autobind": bind_auto}}}


# ------------------------------------------------------------------------------------------------ modular layout
MOD_DIRS = ["users", "orders", "billing", "catalog", "shared", "internal/audit"]
MOD_BASES = ["schema", "types", "common", "api", "enums"]
DIR_LOCS = "FIELD_DEFINITION | ARGUMENT_DEFINITION | INPUT_FIELD_DEFINITION | OBJECT | ENUM_VALUE"


def modular(rng, name, shared_uncovered=False):
    """shared_uncovered: also produce same-named files WITHOUT object / input types that define directives with arguments
    (the shape of open finding F18b; generated projects leave it to the corpus)."""
    ndirs = 2 + rng.below(3)
    dirs = shuffle(rng, MOD_DIRS)[:ndirs]
    bases = shuffle(rng, MOD_BASES)[:1 + rng.below(3)]
    ext = ".graphql"
    present = {}
    for bi, b in enumerate(bases):
        share = shuffle(rng, dirs)[:(2 + rng.below(ndirs - 1)) if bi == 0 or rng.below(2) else 1]
        for d in share:
            present[(d, b)] = True
    tn = shuffle(rng, [w + x for x in ("Ext", "Aux", "Sub") for w in WORDS]) + shuffle(rng, WORDS)      # popped from the end
    files = {k: {"objects": [], "inputs": [], "enums": [], "scalars": [], "ifaces": [], "unions": [], "dirs": []} for k in present}
    keys = sorted(present)
    # per output group: is it object/input free? (only for bases beyond the first, sometimes)
    typeonly_base = {b: (bi > 0 and rng.below(3) == 0) for bi, b in enumerate(bases)}
    for k in keys:
        f = files[k]
        if not typeonly_base[k[1]]:
            for _ in range(1 + rng.below(3)):
                f["objects"].append(tn.pop())
            if rng.below(2):
                f["inputs"].append(tn.pop() + "Input")
        for _ in range(rng.below(3) + (1 if typeonly_base[k[1]] else 0)):
            f["enums"].append(tn.pop() + "Kind")
        if rng.below(3) == 0:
            f["scalars"].append(tn.pop() + "Stamp")
        if rng.below(3) == 0:
            f["ifaces"].append(tn.pop() + "Like")
    # where Query lives: a file with objects
    with_objs = [k for k in keys if files[k]["objects"]]
    qhome = with_objs[rng.below(len(with_objs))]
    # the source the UNCHANGED generator pins for each output group: source of the alphabetically first object
    # (else input) of the group; `Query` counts
    def pinned(base):
        objs = [(o, k) for k in keys if k[1] == base for o in files[k]["objects"]] + ([("Query", qhome)] if qhome[1] == base else [])
        if objs:
            return min(objs)[1]
        ins = [(o, k) for k in keys if k[1] == base for o in files[k]["inputs"]]
        return min(ins)[1] if ins else None
    # directives with arguments
    dcount = 0
    argdirs = []
    exec_base = bases[rng.below(len(bases))] if rng.below(2) else None     # executable directives in ONE output file only: two files
    for b in bases:                                                        # would both declare _queryMiddleware (C17's business)
        group = [k for k in keys if k[1] == b]
        pin = pinned(b)
        for k in shuffle(rng, group):
            if pin is None and len(group) > 1 and not shared_uncovered:
                continue            # F18b: which of the sources is pinned depends on map order on the unchanged tree
            if rng.below(2) == 0 or (len(group) > 1 and not any(files[g]["dirs"] for g in group)):
                dn = "%s%d" % (["auth", "limit", "audit", "mask"][rng.below(4)], dcount)
                dcount += 1
                files[k]["dirs"].append("directive @%s(role: String!, level: Int = %d) on %s" % (dn, rng.below(9), DIR_LOCS))
                argdirs.append(dn)
        if pin is not None and b == exec_base:
            # an executable directive: its middleware functions must land in a file; only the pinned source's do
            dn = "trace%d" % dcount
            dcount += 1
            files[pin]["dirs"].append("directive @%s(tag: String, depth: Int) on QUERY | FIELD" % dn)
    all_objs = [o for k in keys for o in files[k]["objects"]]
    all_enums = [e for k in keys for e in files[k]["enums"]]
    all_scalars = [e for k in keys for e in files[k]["scalars"]]
    all_ifaces = [e for k in keys for e in files[k]["ifaces"]]
    all_inputs = [e for k in keys for e in files[k]["inputs"]]
    impl = {}
    for i in all_ifaces:
        impl[i] = shuffle(rng, all_objs)[:1 + rng.below(2)]
    text = {}
    used = set()

    def deco():
        if argdirs and rng.below(3) == 0:
            d = argdirs[rng.below(len(argdirs))]
            return ' @%s(role: "r%d")' % (d, rng.below(5))
        return ""

    qfields = {k: [] for k in keys}
    for k in keys:
        f = files[k]
        out = [d + "\n" for d in f["dirs"]]
        for e in f["scalars"]:
            out.append("scalar %s\n" % e)
        for e in f["enums"]:
            out.append("enum %s {\n  LOW%s\n  HIGH\n}\n" % (e, deco()))
        for i in f["ifaces"]:
            out.append("interface %s {\n  id: ID!\n}\n" % i)
        for o in f["objects"]:
            fp = shuffle(rng, FIELDS)
            body = ["id: ID!", "%s: String%s" % (fp.pop(), deco())]
            for _ in range(1 + rng.below(3)):
                r = rng.below(4)
                if r == 0 and all_enums:
                    t = all_enums[rng.below(len(all_enums))]
                elif r == 1 and all_scalars:
                    t = all_scalars[rng.below(len(all_scalars))]
                elif r == 2:
                    t = all_objs[rng.below(len(all_objs))]
                else:
                    t = "Int"
                used.add(t)
                arg = ""
                if all_inputs and rng.below(3) == 0:
                    a = all_inputs[rng.below(len(all_inputs))]
                    used.add(a)
                    arg = "(in: %s%s)" % (a, deco())
                body.append("%s%s: %s%s" % (fp.pop(), arg, ["%s", "%s!", "[%s!]"][rng.below(3)] % t, deco()))
            imp = [i for i in all_ifaces if o in impl[i]]
            out.append("type %s%s%s {\n  %s\n}\n" % (o, " implements " + " & ".join(imp) if imp else "", deco(), "\n  ".join(body)))
            qfields[k].append("%s: %s" % (o[0].lower() + o[1:], o))
        for a in f["inputs"]:
            fp = shuffle(rng, FIELDS)
            body = ["name: String!%s" % deco()]
            if all_enums:
                t = all_enums[rng.below(len(all_enums))]
                used.add(t)
                body.append("%s: %s" % (fp.pop(), t))
            out.append("input %s {\n  %s\n}\n" % (a, "\n  ".join(body)))
        text[k] = shuffle(rng, out)
    # everything defined is referenced (ReferencedTypes holds what is used): the rest goes onto Query fields next to its definition
    for k in keys:
        f = files[k]
        for t in f["enums"] + f["scalars"]:
            if t not in used:
                qfields[k].append("%s: %s" % (t[0].lower() + t[1:], t))
        for t in f["ifaces"]:
            qfields[k].append("%s: [%s!]" % (t[0].lower() + t[1:], t))
        for a in f["inputs"]:
            if a not in used:
                qfields[k].append("with%s(in: %s): Int" % (a, a))
    # a union per project in some file
    uk = keys[rng.below(len(keys))]
    if len(all_objs) >= 2:
        u = tn.pop() + "Result"
        text[uk].append("union %s = %s\n" % (u, " | ".join(shuffle(rng, all_objs)[:2])))
        qfields[uk].append("%s: %s" % (u[0].lower() + u[1:], u))
    for k in keys:
        if k == qhome:
            text[k].append("type Query {\n  %s\n}\n" % "\n  ".join(qfields[k] or ["ping: Boolean"]))
        elif qfields[k]:
            text[k].append("extend type Query {\n  %s\n}\n" % "\n  ".join(qfields[k]))
    out_files = {"%s/%s%s" % (k[0], k[1], ext): "".join(text[k]) for k in keys}
    paths = sorted(out_files)
    mode = rng.below(3)
    if mode == 0:
        schema = shuffle(rng, paths)
    elif mode == 1:
        schema = sorted({"%s/*.graphql" % os.path.dirname(p) for p in paths})
        schema = shuffle(rng, schema)
    else:
        schema = ["./**/*.graphql"]
    y = "schema:\n" + "".join('  - "%s"\n' % x for x in schema)
    exec_dir = [".", "graph"][rng.below(2)]
    y += "exec:\n  layout: follow-schema\n  dir: %s\n  package: %s\n" % (exec_dir, name if exec_dir == "." else "graph")
    tmpl = ["", "", "", "{name}.gen.go", "zz_{name}.go"][rng.below(5)]
    if tmpl:
        y += '  filename_template: "%s"\n' % tmpl
    y += "model:\n  filename: model/models_gen.go\n  package: model\n"
    r = rng.below(4)
    if r < 2:
        y += "resolver:\n  layout: follow-schema\n  dir: %s\n  package: %s\n" % (("res", "res") if r == 0 or exec_dir == "." else (exec_dir, "graph"))
    elif r == 2:
        y += "resolver:\n  filename: res/resolver.go\n  package: res\n  type: Resolver\n"
    y += "skip_mod_tidy: true\n"
    for o in ("omit_complexity", "use_function_syntax_for_execution_context", "omit_slice_element_pointers"):
        if rng.below(4) == 0:
            y += "%s: true\n" % o
    out_files["gqlgen.yml"] = y
    shared = sorted(b for b in bases if len([k for k in keys if k[1] == b]) > 1)
    return {"files": out_files, "meta": {"dimension": "modular", "schema_files": paths, "shared_base_names": shared,
                                         "object_free_base_names": sorted(b for b in bases if typeonly_base[b]),
                                         "directives_with_arguments": dcount, "schema_list": schema, "filename_template": tmpl or "{name}.generated.go"}}


DEF_RE = re.compile(r"^(type|input|interface|union|enum|scalar)\s+(\w+)", re.M)
DIRDEF_RE = re.compile(r"^directive\s+@(\w+)\s*\(", re.M)


def layout_summary(d):
    """What codegen.generatePerSchema sees of the project in directory `d`, derived from its files (None unless the exec layout
    is follow-schema without federation): per pass the elements (output file @ source), the directives with arguments, the
    output files; `uncovered` = output files shared by several sources none of which holds an object or input type."""
    y = open(os.path.join(d, "gqlgen.yml")).read()
    m = re.search(r"^exec:\n((?:  .*\n)+)", y, re.M)
    if not m or "layout: follow-schema" not in m.group(1) or re.search(r"^federation:", y, re.M):
        return None
    ex = m.group(1)
    dm = re.search(r"^  dir: (\S+)", ex, re.M)
    tm = re.search(r'^  filename_template: "?([^"\n]+)"?', ex, re.M)
    tmpl = tm.group(1) if tm else "{name}.generated.go"
    sm = re.search(r"^schema:\n((?:  - .*\n)+)", y, re.M)
    if not sm:
        return None
    srcs = []
    for pat in re.findall(r'^  - "?([^"\n]+)"?', sm.group(1), re.M):
        if "**" in pat:
            found = sorted(glob.glob(os.path.join(d, pat), recursive=True))
        else:
            found = sorted(glob.glob(os.path.join(d, pat)))
        for f in found:
            rel = os.path.relpath(f, d)
            if rel not in srcs:
                srcs.append(rel)
    objects, inputs, ifaces, alltypes, dirs = [], [], [], [], []
    by_out = {}
    for src in srcs:
        text = open(os.path.join(d, src)).read()
        out = tmpl.replace("{name}", os.path.splitext(os.path.basename(src))[0])
        g = by_out.setdefault(out, {"srcs": [], "covered": False})
        g["srcs"].append(src)
        for kind, n in DEF_RE.findall(text):
            el = (n, out, src)
            alltypes.append(el)
            if kind == "type":
                objects.append(el)
                g["covered"] = True
            elif kind == "input":
                inputs.append(el)
                g["covered"] = True
            elif kind in ("interface", "union"):
                ifaces.append(el)
        for n in DIRDEF_RE.findall(text):
            dirs.append((n, src))
    return {"exec_dir": dm.group(1) if dm else ".", "sources": srcs,
            "passes": {"addObjects": [(o, s) for _, o, s in sorted(objects)], "addInputs": [(o, s) for _, o, s in sorted(inputs)],
                       "addInterfaces": [(o, s) for _, o, s in ifaces], "addReferencedTypes": [(o, s) for _, o, s in alltypes]},
            "argdirs": dirs, "outputs": sorted(by_out),
            "shared": sorted(o for o, g in by_out.items() if len(g["srcs"]) > 1),
            "uncovered": sorted(o for o, g in by_out.items() if len(g["srcs"]) > 1 and not g["covered"])}


# ------------------------------------------------------------------------------------------------ extra fields
X_TYPES = ["string", "int64", "bool", "*string", "[]string", "float64", "time.Time", "*time.Time", "[]*time.Time",
           "{{PKG}}/xbase.Stamp", "*{{PKG}}/xbase.Tenant", "[]{{PKG}}/xbase.Audit", "[]byte"]
X_EMBED = ["{{PKG}}/xbase.Audit", "*{{PKG}}/xbase.Tenant", "{{PKG}}/xbase.Stamp", "{{PKG}}/xbase.Trail"]
X_NAMES = ["Session", "tenantID", "CreatedBy", "updatedAt", "Zone", "audit", "Meta", "eTag", "Version", "owner", "Shard",
           "traceID", "Flags", "cursor", "Aardvark", "zebra"]


def extrafields(rng, name):
    tn = shuffle(rng, WORDS)
    n = 3 + rng.below(4)
    objs = [tn.pop() for _ in range(n)]
    inp = "New" + tn.pop()
    files = {"xbase/types_src.go": "package xbase\n\n" + "".join("type %s struct {\n\tBy string\n\tAt int64\n}\n\n" % t for t in ("Audit", "Stamp", "Tenant", "Trail"))}
    models_yml = ""
    sdl = ("directive @goExtraField(name: String, type: String!, overrideTags: String, description: String) repeatable on OBJECT | INPUT_OBJECT\n")
    summary = []
    for i, t in enumerate(objs + [inp]):
        # the first model has many named fields and nothing embedded, the second has both; then random
        n_named = [5 + rng.below(3), 3 + rng.below(3)][i] if i < 2 else rng.below(6)
        n_emb = [0, 1 + rng.below(2)][i] if i < 2 else (rng.below(3) if rng.below(2) else 0)
        via = "config" if i == 0 else "directive" if i == 1 else ["config", "directive", "both"][rng.below(3)]
        names = shuffle(rng, X_NAMES)[:n_named]
        named = [(x, X_TYPES[rng.below(len(X_TYPES))]) for x in names]
        emb = shuffle(rng, X_EMBED)[:n_emb]
        cfg_named, dir_named = [], []
        for j, nt in enumerate(named):
            (cfg_named if via == "config" or (via == "both" and j % 2 == 0) else dir_named).append(nt)
        cfg_emb = emb if via == "config" else []
        dir_emb = emb if via != "config" else []
        if cfg_named or cfg_emb:
            models_yml += "  %s:\n" % t
            if cfg_named:
                models_yml += "    extraFields:\n"
                for fnm, ft in cfg_named:
                    models_yml += '      %s:\n        type: "%s"\n' % (fnm, ft)
                    r = rng.below(4)
                    if r == 0:
                        models_yml += '        description: "%s of %s"\n' % (fnm, t)
                    elif r == 1:
                        models_yml += "        overrideTags: 'json:\"%s,omitempty\" db:\"%s\"'\n" % (fnm, fnm.lower())
            if cfg_emb:
                models_yml += "    embedExtraFields:\n" + "".join('      - type: "%s"\n' % e for e in cfg_emb)
        ds = ['@goExtraField(name: "%s", type: "%s"%s)' % (fnm, ft, ', description: "set by middleware"' if rng.below(4) == 0 else "") for fnm, ft in dir_named]
        ds += ['@goExtraField(type: "%s")' % e for e in dir_emb]
        ds = shuffle(rng, ds)
        kw = "input" if t == inp else "type"
        fp = shuffle(rng, FIELDS)
        body = ["id: ID!", "%s: String" % fp.pop(), "%s: Int!" % fp.pop()]
        if kw == "type" and rng.below(2):
            body.append("%s: %s" % (fp.pop(), objs[rng.below(len(objs))]))
        sdl += "%s %s%s {\n  %s\n}\n" % (kw, t, "".join("\n  " + x for x in ds), "\n  ".join(body))
        summary.append({"type": t, "named": named, "embedded": emb, "via": via, "schema_fields": len(body)})
    sdl += "type Query {\n  %s\n}\n" % "\n  ".join("%s: %s" % (t.lower(), t) for t in shuffle(rng, objs))
    sdl += "type Mutation {\n  create(in: %s!): %s!\n}\n" % (inp, objs[0])
    extra = ""
    for o in ("omit_getters", "enable_model_json_omitempty_tag", "omit_root_models"):
        if rng.below(3) == 0:
            extra += "%s: true\n" % o
    if models_yml:
        extra += "models:\n" + models_yml
    files["schema.graphql"] = sdl
    files["gqlgen.yml"] = yml(name, ["follow", "none"][rng.below(2)], extra)
    return {"files": files, "meta": {"dimension": "extrafields", "extra": summary}}


def extra_summary(d, pkg):
    """The extra fields of every model of the project in `d`, derived from its files: `models.<T>.extraFields` /
    `embedExtraFields` of gqlgen.yml (the format the generators and the corpus write) and @goExtraField in the schema.
    -> [{"type", "named": [(name, type)], "embedded": [type]}] with Go type strings as types.Type.String() prints them."""
    y = open(os.path.join(d, "gqlgen.yml")).read()
    out = {}
    mm = re.search(r"^models:\n((?:  .*\n)+)", y, re.M)
    if mm:
        for tm in re.finditer(r"^  (\w+):\n((?:    .*\n)+)", mm.group(1), re.M):
            e = out.setdefault(tm.group(1), {"named": {}, "embedded": []})
            xm = re.search(r"^    extraFields:\n((?:      .*\n)+)", tm.group(2), re.M)
            if xm:
                for fm in re.finditer(r'^      (\w+):\n((?:        .*\n)+)', xm.group(1), re.M):
                    e["named"][fm.group(1)] = re.search(r'type: "?([^"\n]+)"?', fm.group(2)).group(1)
            em = re.search(r"^    embedExtraFields:\n((?:      .*\n)+)", tm.group(2), re.M)
            if em:
                e["embedded"] += re.findall(r'- type: "?([^"\n]+)"?', em.group(1))
    for f in sorted(glob.glob(os.path.join(d, "**", "*.graphql"), recursive=True)):
        text = open(f).read()
        for tm in re.finditer(r"^(?:type|input)\s+(\w+)([^{]*)\{", text, re.M):
            for dm in re.finditer(r"@goExtraField\(([^)]*)\)", tm.group(2)):
                args = dict(re.findall(r'(\w+):\s*"([^"]*)"', dm.group(1)))
                e = out.setdefault(tm.group(1), {"named": {}, "embedded": []})
                if args.get("name"):
                    e["named"][args["name"]] = args["type"]
                else:
                    e["embedded"].append(args["type"])
    return [{"type": t, "named": sorted(e["named"].items()), "embedded": e["embedded"]}
            for t, e in sorted(out.items()) if e["named"] or e["embedded"]]


# ------------------------------------------------------------------------------------------------ identifiers colliding across scopes
# Hand-written model packages in which identifiers of NESTED scopes (and methods / struct fields, which have no scope)
# are named like a bound type T or like Marshal<T>. The binder indexes a package by identifier name while ranging over
# the map TypesInfo.Defs (codegen/config/binder.go indexDefs); only package-scope names are guaranteed distinct.
SHADOW_KINDS = {
    "typeparam_func": "func Pick{k}[{T} any](xs []{T}) ({T}, bool) {{\n\tvar z {T}\n\tif len(xs) > 0 {{\n\t\treturn xs[0], true\n\t}}\n\treturn z, false\n}}\n",
    "typeparam_constraint": "func Conv{k}[{T} ~string](v {T}) string {{ return string(v) }}\n",
    "typeparam_type": "type Box{k}[{T} any] struct{{ V {T} }}\n",
    "local_var": "func local{k}() int {{\n\t{T} := {k}\n\treturn {T}\n}}\n",
    "param": "func param{k}({T} int) int {{ return {T} + 1 }}\n",
    "result": "func result{k}() ({T} string) {{\n\t{T} = \"x\"\n\treturn\n}}\n",
    "local_type": "func ltype{k}() any {{\n\ttype {T} struct{{ X int }}\n\treturn {T}{{X: {k}}}\n}}\n",
    "local_const": "func lconst{k}() int {{\n\tconst {T} = {k}\n\treturn {T}\n}}\n",
    "field": "type Holder{k} struct{{ {T} string }}\n",
    "method": "type Owner{k} struct{{}}\n\nfunc (Owner{k}) {T}() string {{ return \"m\" }}\n",
    "label": "func label{k}() int {{\n\tn := 0\n{T}:\n\tfor {{\n\t\tn++\n\t\tif n > 2 {{\n\t\t\tbreak {T}\n\t\t}}\n\t}}\n\treturn n\n}}\n",
    "receiver": "type Recv{k} struct{{ N int }}\n\nfunc ({T} Recv{k}) Get() int {{ return {T}.N }}\n",
    "typeswitch": "func tswitch{k}(x any) int {{\n\tswitch {T} := x.(type) {{\n\tcase int:\n\t\treturn {T}\n\t}}\n\treturn 0\n}}\n",
    "closure_param": "var Fn{k} = func({T} int) int {{ return {T} * 2 }}\n",
    "marshal_local": "func mlocal{k}() int {{\n\tMarshal{T} := {k}\n\treturn Marshal{T}\n}}\n",
    "marshal_param": "func mparam{k}(Marshal{T} func() string) string {{ return Marshal{T}() }}\n",
}
SHADOW_NESTED = [k for k in SHADOW_KINDS if k not in ("field", "method")]      # kinds that HAVE a parent scope
SHADOW_PKGS = [("model", "model"), ("domain", "domain"), ("graph/types", "types"), ("internal/entity", "entity"), ("zed/model", "model")]
SHADOW_SCALARS = ["Cursor", "Token", "Slug", "Stamp"]


def shadow(rng, name, collisions=None):
    """collisions: how many (bound name, nested identifier) pairs the project holds (None: 2-7); 1 = the lightest case"""
    npk = 1 + rng.below(2)
    pkgs = shuffle(rng, SHADOW_PKGS)[:npk]
    if len({p for _, p in pkgs}) < npk:
        pkgs = pkgs[:1]
    tn = shuffle(rng, WORDS)
    sc = shuffle(rng, SHADOW_SCALARS)
    autobind = rng.below(3) == 0
    files, models_yml, bound, scalars = {}, "", [], []
    per_pkg = []
    for d, pk in pkgs:
        ts = [tn.pop() for _ in range(2 + rng.below(2))]
        ss = [sc.pop()] if rng.below(3) else []
        per_pkg.append((d, pk, ts, ss))
        bound += ts
        scalars += ss
    want = collisions if collisions is not None else 2 + rng.below(6)
    targets = []                                    # (package index, bound name, kind)
    kinds = shuffle(rng, SHADOW_NESTED)
    for i in range(want):
        pi = rng.below(len(per_pkg))
        cand = per_pkg[pi][2] + per_pkg[pi][3]
        t = cand[rng.below(len(cand))]
        k = kinds[i % len(kinds)]
        if k == "typeparam_constraint" and t not in per_pkg[pi][3]:
            k = "typeparam_func"
        targets.append((pi, t, k))
    for _ in range(rng.below(3)):                   # scope-less namesakes (struct field, method): never indexed
        pi = rng.below(len(per_pkg))
        targets.append((pi, per_pkg[pi][2][0], ["field", "method"][rng.below(2)]))
    k = 0
    for pi, (d, pk, ts, ss) in enumerate(per_pkg):
        src = "// Package %s holds hand-written types the schema is bound to.\npackage %s\n\n" % (pk, pk)
        decls = []
        for s_ in ss:
            decls.append("type %s string\n" % s_)
        for t in ts:
            extra = "".join("\t%s *%s\n" % (s_ + "At", s_) for s_ in ss[:1])
            decls.append("type %s struct {\n\tID   string\n\tName string\n\tRank int\n%s}\n" % (t, extra))
        for (qi, t, kind) in targets:
            if qi == pi:
                k += 1
                decls.append(SHADOW_KINDS[kind].format(T=t, k=k))
        src += "\n".join(shuffle(rng, decls))
        files["%s/types_src.go" % d] = src
        if not autobind:
            for t in ts + ss:
                models_yml += "  %s:\n    model: {{PKG}}/%s.%s\n" % (t, d, t)
    gen = [tn.pop() for _ in range(1 + rng.below(2))]
    sdl = "".join("scalar %s\n" % s_ for s_ in scalars)
    every = bound + gen
    fp = shuffle(rng, FIELDS)
    for pi, (d, pk, ts, ss) in enumerate(per_pkg):
        for t in ts:
            body = ["id: ID!", "name: String!", "rank: Int!"] + ["%sAt: %s" % (s_[0].lower() + s_[1:], s_) for s_ in ss[:1]]
            sdl += "type %s {\n  %s\n}\n" % (t, "\n  ".join(body))
    for t in gen:
        body = ["id: ID!", "%s: %s" % (fp.pop(), every[rng.below(len(every))])] + ["%s: %s" % (fp.pop(), s_) for s_ in scalars[:1]]
        sdl += "type %s {\n  %s\n}\n" % (t, "\n  ".join(body))
    q = []
    for t in shuffle(rng, every):
        arg = "(after: %s, first: Int)" % scalars[rng.below(len(scalars))] if scalars and rng.below(2) else ""
        q.append("%s%s: %s" % (fp.pop(), arg, ["%s", "%s!", "[%s!]!"][rng.below(3)] % t))
    sdl += "type Query {\n  %s\n}\n" % "\n  ".join(q)
    layout = ["follow", "none"][rng.below(2)]
    extra = ""
    if autobind:
        extra += "autobind:\n" + "".join("  - {{PKG}}/%s\n" % d for d, _, _, _ in shuffle(rng, per_pkg))
    else:
        extra += "models:\n" + models_yml
    model_pkg = "gen" if any(pk == "model" for _, pk in pkgs) else "model"
    files["schema.graphql"] = sdl
    files["gqlgen.yml"] = yml(name, layout, extra, model_pkg=model_pkg)
    return {"files": files, "meta": {"dimension": "shadow", "autobind": autobind, "bound": bound + scalars,
                                     "collisions": [{"package": per_pkg[pi][0], "name": t, "kind": kind} for pi, t, kind in targets]}}


# ------------------------------------------------------------------------------------------------ template sets for templates.Render
TPL_STEMS = ["consts", "types", "a", "ab", "abc", "b", "Z", "z", "zz", "0init", "_lead", "x!y", "model-gen", "build", "accessors", "m.n", ""]


def template_sets(rng, n):
    """n template sets of every shape: 0-4 important (`!.gotpl`) and 0-4 ordinary root files, `_.gotpl` includes, templates
    defined INSIDE files (`{{ define "x!.gotpl" }}` is a root too, `{{ define "helper" }}` is not), files in sub-directories and
    files of other suffixes (both must be ignored). The first cases cover 0, 1, 2, 3 important roots."""
    out = []
    for i in range(n):
        k_imp = i if i < 4 else rng.below(5)
        k_ord = rng.below(5) if i != 0 else 3
        stems = shuffle(rng, TPL_STEMS)
        files = {}
        v = 0

        def body(nm):
            nonlocal v
            v += 1
            return "// from %s\nvar V%d = {{ .Version | quote }}\n" % (nm, v)
        names = []
        for j in range(k_imp):
            st = stems[j % len(stems)] + ("" if j < len(stems) else str(j))
            names.append(st + "!.gotpl")
        for j in range(k_ord):
            st = stems[(k_imp + j) % len(stems)]
            if st == "":
                st = "plain"
            names.append(st + ".gotpl")
        for nm in names:
            files[nm] = body(nm)
        roots = list(names)
        inc = ["shared_.gotpl", "helpers!_.gotpl"][:rng.below(3)]
        for nm in inc:
            files[nm] = '{{ define "helper%d" }}// helper{{ end }}// include %s\n' % (len(files), nm)
        if names:
            for j in range(rng.below(3)):           # templates defined inside a root file
                host = names[rng.below(len(names))]
                inner = ["inner%d!.gotpl" % j, "part%d.gotpl" % j, "frag%d" % j, "Inner%d!.gotpl" % j][rng.below(4)]
                files[host] += '{{ define "%s" }}// defined in %s\nvar D%d_%d = 1\n{{ end }}' % (inner, host, i, j)
                if inner.endswith(".gotpl"):
                    roots.append(inner)
        for j in range(rng.below(3)):               # sub-directories: not part of the set
            files["sub%d/%s" % (j, ["deep!.gotpl", "more.gotpl"][rng.below(2)])] = "var Nested%d = 1\n" % j
        if rng.below(2):
            files["README.txt"] = "not a template\n"
        if rng.below(3) == 0:
            files["notes.gotpl.bak"] = "var Bak = 1\n"
        out.append(("tset%d" % i, {"files": files, "templates": sorted(set(roots + inc)), "important": k_imp, "ordinary": k_ord}))
    return out


DEFINE_RE = re.compile(r'\{\{-?\s*define\s+"([^"]+)"')


def template_names(files):
    """every template NAME t.Templates() holds after ParseFS(fs, "*.gotpl") on these files: the top-level files matching the
    glob and whatever they define"""
    names = []
    for rel in sorted(files):
        if "/" in rel or not rel.endswith(".gotpl"):
            continue
        names.append(rel)
        names += DEFINE_RE.findall(files[rel])
    seen, out = set(), []
    for n_ in names:
        if n_ not in seen:
            seen.add(n_)
            out.append(n_)
    return out


def load_template_corpus(cdir):
    out = []
    if not os.path.isdir(cdir):
        return out
    for case in sorted(os.listdir(cdir)):
        base = os.path.join(cdir, case)
        if not os.path.isdir(base):
            continue
        files = {}
        for r, _, fs in os.walk(base):
            for f in fs:
                files[os.path.relpath(os.path.join(r, f), base)] = open(os.path.join(r, f)).read()
        out.append((case, {"files": files}))
    return out


# ------------------------------------------------------------------------------------------------ writing
# ------------------------------------------------------------------------------------------------ collisions
# spellings of one name that templates.ToGo normalises to the SAME Go identifier (case, underscores, initialisms, digits)
def _spellings(a, b):
    la, lb = a.lower(), b.lower()
    return [a + b, la + "_" + lb, a + "_" + b, la + b, a.upper() + "_" + b.upper(), a + "_" + lb, la + "_" + b, a + b + "_", a + "__" + lb]


def _spell_family(rng):
    r = rng.below(4)
    a = WORDS[rng.below(len(WORDS))]
    if r == 0:      # initialism at the end: UserId / UserID / user_id / USER_ID / User_Id
        ini = ["Id", "Url", "Api", "Http", "Uuid"][rng.below(5)]
        return [a + ini, a + ini.upper(), a.lower() + "_" + ini.lower(), a.upper() + "_" + ini.upper(), a + "_" + ini, a.lower() + ini.upper()]
    if r == 1:      # digits: Plan2 / plan_2 / Plan_2 / PLAN_2
        n = str(2 + rng.below(8))
        return [a + n, a.lower() + "_" + n, a + "_" + n, a.upper() + "_" + n, a.lower() + n]
    b = WORDS[rng.below(len(WORDS))]
    return _spellings(a, b)


def collisions(rng, name, groups=None):
    """Schemas whose type / enum-value / field names COLLIDE after Go name normalisation, referenced across models.
    1-3 groups of 2-3 types (objects, inputs, enums, interfaces, unions - kinds mixed inside a group) spelled so that
    templates.ToGo maps them to one Go name; every member is the type of a field of 1-2 OTHER generated models (different
    models for different members, plus sometimes one model that references several members), so that whichever code asks the
    process-global name registry (templates.ToGoModelName: FooBar, FooBar0, ... first come first served) for these names
    from a loop over a map decides the suffixes by the map seed. Sometimes: an enum whose VALUES collide, a model whose FIELD
    names collide. `skip_validation: true`: upstream binds clashing names loosely (the output need not compile - C17's
    business); C18 only asks for identical bytes. meta["more_processes"]: compared over more separate processes."""
    ngroups = groups or 1 + rng.below(3)
    used = set()
    words = [w for w in shuffle(rng, WORDS)]
    sdl, q, members_meta = [], [], []
    ref_objs, ref_ins = [], []
    all_out_members = []

    def fresh_ref(prefix):
        if not words:
            words.extend("%s%d" % (w, len(used) + i) for i, w in enumerate(shuffle(rng, WORDS)))
        return prefix + words.pop()

    for g in range(ngroups):
        fam = None
        for _ in range(20):
            fam = [x for x in _spell_family(rng) if x not in used]
            if len(set(fam)) >= 3 and not any(x.lower().replace("_", "") in {u.lower().replace("_", "") for u in used} for x in fam):
                break
        fam = shuffle(rng, sorted(set(fam)))[:2 + rng.below(2)]
        used.update(fam)
        # upstream binds EVERY member of a group to <model pkg>.<ToGo name> (the member that got the plain name); a struct
        # there fails the implements / union-member check of an abstract type and nothing is generated - so a group is
        # either structs and enums, or ONE abstract type (interfaces are emitted first: it gets the plain name) + inputs / enums
        grp = []
        abstract = rng.below(3) == 0
        for j, m in enumerate(fam):
            if abstract:
                kind = ["interface", "union"][rng.below(2)] if j == 0 else ["input", "enum"][rng.below(2)]
            else:
                kind = ["object", "object", "object", "input", "enum"][rng.below(5)]
            grp.append((m, kind))
        members_meta.append([{"name": m, "kind": k} for m, k in grp])
        for m, kind in grp:
            nref = 1 + rng.below(2)
            wrap = ["%s", "%s!", "[%s!]", "[%s]!"][rng.below(4)]
            if kind == "object":
                sdl.append("type %s {\n  ident: ID!\n  label: String\n}" % m)
            elif kind == "input":
                sdl.append("input %s {\n  ident: ID!\n  label: String\n}" % m)
            elif kind == "enum":
                sdl.append("enum %s {\n  FIRST\n  SECOND\n}" % m)
            elif kind == "interface":
                impl = fresh_ref("Impl")
                sdl.append("interface %s {\n  ident: ID!\n}\ntype %s implements %s {\n  ident: ID!\n}" % (m, impl, m))
                q.append("%s: %s" % (impl.lower(), impl))
            else:
                u1, u2 = fresh_ref("Arm"), fresh_ref("Arm")
                sdl.append("union %s = %s | %s\ntype %s {\n  ident: ID!\n}\ntype %s {\n  count: Int\n}" % (m, u1, u2, u1, u2))
            if kind != "input":
                all_out_members.append((m, wrap))
            for _ in range(nref):
                if kind == "input" or (kind == "enum" and rng.below(2) == 0):
                    r_ = fresh_ref("In")
                    sdl.append("input %s {\n  ident: ID\n  value: %s\n}" % (r_, wrap % m))
                    ref_ins.append(r_)
                else:
                    r_ = fresh_ref("Ref")
                    sdl.append("type %s {\n  ident: ID!\n  value: %s\n}" % (r_, wrap % m))
                    ref_objs.append(r_)
    extras = {}
    if len(all_out_members) >= 2 and rng.below(2) == 0:
        # one model that references several members (its field order fixes ITS requests, the other referers still race)
        r_ = fresh_ref("Hub")
        fs = ["%s: %s" % (FIELDS[i], w % m) for i, (m, w) in enumerate(shuffle(rng, all_out_members)[:3])]
        sdl.append("type %s {\n  %s\n}" % (r_, "\n  ".join(fs)))
        ref_objs.append(r_)
        extras["hub"] = r_
    if rng.below(2) == 0:
        # enum VALUES that collide (goModelName <enum> <value>)
        e = fresh_ref("Shade")
        vals = shuffle(rng, ["DARK_RED", "darkRed", "Dark_red", "dark_red", "DarkRed"])[:2 + rng.below(3)]
        sdl.append("enum %s {\n  %s\n  PLAIN\n}" % (e, "\n  ".join(vals)))
        q.append("shade: %s" % e)
        extras["enum_values"] = vals
    if rng.below(3) == 0:
        # FIELD names that collide inside one model
        r_ = fresh_ref("Twin")
        sdl.append("type %s {\n  item_code: Int\n  itemCode: Int\n  ident: ID!\n}" % r_)
        ref_objs.append(r_)
        extras["field_names"] = ["item_code", "itemCode"]
    for r_ in ref_objs:
        q.append("%s: %s" % (r_[0].lower() + r_[1:], r_))
    for r_ in ref_ins:
        q.append("with%s(in: %s): Boolean" % (r_, r_))
    sdl = shuffle(rng, sdl)
    sdl.append("type Query {\n  %s\n}" % "\n  ".join(shuffle(rng, q)))
    opts = {}
    for o in BOOL_OPTS:
        r = rng.below(5)
        if r < 2:
            opts[o] = "true" if r else "false"
    layout = ["follow", "single", "none"][rng.below(3)]
    model_pkg = ["model", "model", name][rng.below(3)]
    if model_pkg == name:
        y = yml(name, layout, "").replace("model:\n  filename: model/models_gen.go\n  package: model\n", "model:\n  filename: models_gen.go\n  package: %s\n" % name)
    else:
        y = yml(name, layout, "")
    y += "skip_validation: true\n" + "".join("%s: %s\n" % kv for kv in sorted(opts.items()))
    return {"files": {"schema.graphql": "\n".join(sdl) + "\n", "gqlgen.yml": y},
            "meta": {"dimension": "collisions", "more_processes": True, "groups": members_meta, "extras": extras, "options": opts}}


# ------------------------------------------------------------------------------------------------ start directories
START_CLASSES = ("root", "out", "deep", "sub", "schema", "tool", "below")


def start_dirs(d):
    """Directories INSIDE project d from which `gqlgen generate` can be started, by class (derived from the project's own
    gqlgen.yml, so every project - random, directed, corpus - gets them):
      root    the directory of gqlgen.yml
      out     the directories generated files go to (exec / model / resolver / federation dir), the ones that are not the root
      below   a directory below the exec directory that holds no package (<exec dir>/zz_inner)
      schema  the directories schema files live in, the ones that are not the root
      sub, deep, tool   directories unrelated to the configuration: sub, sub/deep, cmd/tool
    Returns {class: [relative dir, ...]} (every class non-empty: `out` / `schema` fall back to `tool`)."""
    y = open(os.path.join(d, "gqlgen.yml")).read()
    outs, exec_dir = [], ""
    for sec in re.finditer(r"^(exec|model|resolver|federation):\n((?:[ \t]+.*\n?)+)", y, re.M):
        for k, v in re.findall(r"^[ \t]+(filename|dir):[ \t]*([^\n#]+)", sec.group(2), re.M):
            v = v.strip().strip('"\'')
            x = os.path.normpath(os.path.dirname(v) if k == "filename" else v)
            if os.path.isabs(x) or x.startswith(".."):
                continue
            if sec.group(1) == "exec":
                exec_dir = "" if x == "." else x
            if x != "." and x not in outs:
                outs.append(x)
    schemas = []
    for r, ds, fs in os.walk(d):
        for f in fs:
            if f.endswith(".graphql") or f.endswith(".graphqls"):
                x = os.path.relpath(r, d)
                if x != "." and x not in schemas:
                    schemas.append(x)
    schemas.sort()
    return {"root": [""], "out": outs or ["cmd/tool"], "below": [os.path.normpath(os.path.join(exec_dir, "zz_inner"))],
            "schema": schemas or ["cmd/tool"], "sub": ["sub"], "deep": ["sub/deep"], "tool": ["cmd/tool"]}


def write(root, name, proj, pkg_prefix):
    d = os.path.join(root, name)
    for rel, text in proj["files"].items():
        p = os.path.join(d, rel)
        os.makedirs(os.path.dirname(p), exist_ok=True)
        with open(p, "w") as f:
            f.write(text.replace("{{PKG}}", pkg_prefix + "/" + name))
    return d


def load_corpus(cdir):
    """corpus/C18/<case>/…: directed projects kept as files; meta.json (optional) carries the model summary."""
    out = []
    if not os.path.isdir(cdir):
        return out
    for case in sorted(os.listdir(cdir)):
        base = os.path.join(cdir, case)
        if not os.path.isdir(base) or case.startswith("_"):     # _templates: template sets, see load_template_corpus
            continue
        files = {}
        for r, _, fs in os.walk(base):
            for f in fs:
                p = os.path.join(r, f)
                files[os.path.relpath(p, base)] = open(p).read()
        meta = {"dimension": "corpus"}
        if "meta.json" in files:
            import json
            meta.update(json.loads(files.pop("meta.json")))
        out.append((case, {"files": files, "meta": meta}))
    return out
