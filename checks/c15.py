"""C15 - the persisted-query cache binds a hash only to the text that hashes to it.

extract  : go/extract ApqProg re-translates MutateOperationParameters (+ pinned cache/hash bodies) -> Gen/ApqProg.lean;
           PostPool enumerates the return paths of every function of package transport that takes an object from a
           sync.Pool (get / use / put events, deferred calls where they run) -> Gen/PostPool.lean
           DocFlow lists every place where package executor touches a parsed document (def / store / call / pass / write /
           alias / ...) -> Gen/DocFlow.lean
prove    : Props/C15 (all histories, all lawful caches, MapCache/NoCache/LRU(n) lawful) + Props/C15Gen (regenerated body = step)
           + Props/C15Pool (disciplined paths => no two requests in flight share a RawParams; the regenerated paths are disciplined)
           + Props/C15Op (operationName: with any lawful document cache every request of every history executes the operation
           a first-time server selects in the text the extension answered with; the regenerated document flow is read-only)
tie      : real extension through graphql/executor with a recording cache around the real MapCache/NoCache/lru.New(n),
           with and without a parsed-document cache (+q): exhaustive histories over 3 texts x 6 request kinds, seeded random
           long histories with eviction, directed adversarial histories (harness + corpus/C15/histories.txt: layout siblings
           of one document sent with each other's hashes, weak-key collision pairs); the same tokens over HTTP (@http:
           handler.Server, POST with pooled params, GET) with undecodable bodies and pairs of requests in flight at once;
           texts with several operations and an operationName per request (^name): exhaustive histories over a 16-kind
           operation alphabet (register / hash only / text only x which operation), random operation-heavy histories,
           directed ones, with a map / LRU(n) / no document cache (+q, +q<n>), also over HTTP;
           per-request outcome, executed document, cache calls and final contents compared with the model
decide   : the Spec (Apq.specOk, proved to hold of the model for all inputs) is evaluated by the Lean driver on the
           implementation's own trace of EVERY history; a Spec failure is a concrete failing history (shrunk)
budgets  : failing histories are counted, at most KEEP per kind are kept (the shortest); the MAX_REPORTS shortest of distinct
           form are shrunk (ddmin, SHRINK_REPLAYS replays each, REPORT_SECONDS together) and reported; after ENOUGH Spec
           failures no further exhaustive chunk is started. The check ends also when nearly every history fails.
"""
import json
import os
import re
import time
from collections import Counter
from concurrent.futures import ThreadPoolExecutor

from lib import vf

PROPS = ["GqlgenVerif.Props.C15", "GqlgenVerif.Props.C15Gen", "GqlgenVerif.Props.C15Pool", "GqlgenVerif.Props.C15Op"]
NALPHA = 18
CORPUS = os.path.join(vf.VERIF, "corpus", "C15", "histories.txt")
_RAW = re.compile(r"!(raw|doc)=[^| ]*")
_OPNAME = re.compile(r"\^([A-Za-z_]*)")
_FORM = re.compile(r"\d+(\.\d+)?|=[0-9a-f]*|\?[0-9a-f]*")

# ---- budgets: every loop of the check ends, also when nearly every history violates
KEEP = 400            # failing histories kept per kind (Spec failures / divergences); the rest is only counted
ENOUGH = 2000         # Spec failures after which no further exhaustive chunk is started (the verdict is settled)
MAX_REPORTS = 6       # candidates looked at for reporting (shortest first), distinct shrunk histories reported
SHRINK_REPLAYS = 120  # harness+driver replays one shrink may spend
REPORT_SECONDS = 150  # wall time all shrinking together may spend; afterwards histories are reported unshrunk


def _for_spec(obs):
    """`!raw=` marks OperationContext.RawQuery differing from the text APQ left in the params: a divergence from
    the model, but the rest of the observation (outcome, executed document, cache calls) is still judged by the Spec.
    `!doc=` likewise marks an executed operation whose accompanying document (OperationContext.Doc) is not the fresh
    document of the text: WHICH operation of which text ran is what the Spec judges."""
    return _RAW.sub("", obs)


def _driver_exe():
    return os.path.join(vf.LEAN, ".lake", "build", "bin", "driver_c15")


def _run_driver(lines):
    rc, so, se = vf.sh([_driver_exe()], inp="\n".join(lines) + "\n", timeout=3000)
    if rc != 0:
        raise RuntimeError("lean driver failed rc=%s: %s" % (rc, se[-2000:]))
    out = so.split("\n")
    if out and out[-1] == "":
        out.pop()
    return out


def _run_harness(hbin, args):
    e = vf.go_env()
    e["GOMEMLIMIT"] = "6GiB"
    rc, so, se = vf.sh([hbin] + [str(a) for a in args], cwd=vf.GO, env=e, timeout=3000)
    if rc != 0:
        raise RuntimeError("harness %s failed rc=%s: %s" % (args, rc, se[-2000:]))
    tabs, runs = [], []
    for l in so.split("\n"):
        if not l:
            continue
        r = l.split("\t")
        if r[0] == "json":
            if runs:
                runs[-1].append(r[1])
            continue
        (tabs if r[0] == "tab" else runs).append(r)
    return tabs, runs


def _classify(req, ob, added, live):
    """branch class of one request (implementation side), for the input-distribution histogram."""
    q, ext, _shape = req.split("/")
    cls, _x, ops = ob.split("|")
    if q == "!":
        return "undecodable-body"
    if ext == "a":
        return "no-extension" if q != "-" else "no-extension-empty-query"
    if ext == "m":
        return "malformed-extension"
    ver, h = ext.split(",", 1)
    if cls == "ver":
        return "wrong-version"
    if q == "-":
        if cls == "nf":
            return "hash-only:miss-after-eviction" if h in added and h not in live else (
                "hash-only:miss-never-registered")
        return "hash-only:hit" if ops.startswith("G") and cls.startswith("run:") else "hash-only:other"
    if cls == "mm":
        return "mismatch:hash-bound-to-other-text" if h in added else "mismatch:hash-unbound"
    if ops.startswith("A"):
        return "register:again" if h in added else "register:first"
    return "text+hash:other"


class Acc:
    def __init__(self):
        self.hist = 0
        self.reqs = 0
        self.nontriv = set()
        self.branch = Counter()
        self.bycache = Counter()
        self.gen = Counter()
        self.div = Kept()      # histories on which implementation and model differ (or the trace is unparsable)
        self.specbad = Kept()  # histories whose implementation trace fails the Spec
        self.stopped_early = None
        self.unparsable = 0
        self.samples = []
        self.http = Counter()
        self.opdim = Counter()


def _ntoks(r):
    return r[2].count(" ") + 1


class Kept:
    """Bounded memory of failing histories: the first KEEP seen, afterwards a strictly shorter history replaces the
    longest one kept. Constant work per history unless it is shorter than everything the full list could lose
    (each replacement lowers the total length kept, so there are at most KEEP * max-length of them per run)."""

    def __init__(self):
        self.items = []      # (row, verdict-or-None, model_line) in order of arrival
        self.count = 0       # all failing histories, kept or not
        self.bound = None    # length of the longest kept history once the list is full

    def add(self, row, verdict, model_line):
        self.count += 1
        it = (row, verdict, model_line)
        if len(self.items) < KEEP:
            self.items.append(it)
            if len(self.items) == KEEP:
                self.bound = max(_ntoks(x[0]) for x in self.items)
            return
        if _ntoks(row) >= self.bound:
            return
        j = max(range(KEEP), key=lambda k: _ntoks(self.items[k][0]))
        self.items[j] = it
        self.bound = max(_ntoks(x[0]) for x in self.items)

    def shortest_first(self):
        """stable: among histories of equal length the order of arrival (directed and corpus histories come first);
        histories whose observation has a form not seen yet (text / hash ids and operation names abstracted) come before
        further instances of a form, so that the few that are reported differ in kind"""
        first, rest, forms = [], [], set()
        for it in sorted(self.items, key=lambda x: _ntoks(x[0])):
            form = (it[1], _FORM.sub("N", it[0][3]))
            (rest if form in forms else first).append(it)
            forms.add(form)
        return first + rest


def _process(acc, gen, tabs, runs, have_driver):
    """Compare one batch with the model, evaluate the Spec on the implementation's traces."""
    tabl = [" ".join(t) for t in tabs]
    model = verdicts = None
    if have_driver:
        out = _run_driver(tabl + ["run %s %s" % (r[1], r[2]) for r in runs] +
                          ["chk %s %s\t%s\t%s" % (r[1], r[2], _for_spec(r[3]), r[4]) for r in runs])
        model = out[len(tabl):len(tabl) + len(runs)]
        verdicts = out[len(tabl) + len(runs):]
        if len(model) != len(runs) or len(verdicts) != len(runs):
            raise RuntimeError("driver answered %d lines for %d cases" % (len(out), len(tabl) + 2 * len(runs)))
    for i, r in enumerate(runs):
        acc.hist += 1
        acc.gen[gen] += 1
        acc.bycache[r[1]] += 1
        reqs = r[2].split(" ") if r[2] != "-" else []
        obs = r[3].split(" ") if r[3] != "-" else []
        acc.reqs += len(reqs)
        added, live = set(), None
        # which hashes are still cached is only known at the end; approximate "evicted" as added and absent at the end
        final = set(p.split(">")[0] for p in r[4].split(" ")) if r[4] != "-" else set()
        nt = False
        if "@http" in r[1]:
            acc.http["histories"] += 1
            acc.http["requests"] += len(reqs)
            pairs = sum(1 for rq in reqs if rq.endswith(("~p2", "~q2")))
            faults = sum(1 for rq in reqs if rq.startswith("!/"))
            acc.http["pairs_in_flight_at_once"] += pairs
            acc.http["undecodable_bodies"] += faults
            acc.http["GET_requests"] += sum(1 for rq in reqs if "@g" in rq)
            seen_fault = False
            for rq in reqs:
                if rq.startswith("!/"):
                    seen_fault = True
                elif seen_fault and rq.endswith(("~p2", "~q2")):
                    acc.http["histories_with_pair_after_undecodable_body"] += 1
                    nt = True
                    break
        if "+q" in r[1]:
            acc.http["histories_with_document_cache"] += 1
        # operation dimension: per hash, the operations executed so far out of the text registered for it
        ran = {}
        missed = set()
        for rq, ob in zip(reqs, obs):
            parts = ob.split("|")
            if "^" in rq or (len(parts) == 3 and "." in parts[1]):
                acc.opdim["requests_with_operationName_or_multi_operation_text"] += 1
                if len(parts) == 3 and parts[1].startswith("x:") and "." in parts[1] and rq.count("/") == 2:
                    unit = parts[1][2:]
                    t, k = unit.split(".", 1)
                    hash_only = rq.startswith("-/")
                    seen = ran.setdefault(t, [])
                    if hash_only and seen and seen[-1] != k:
                        acc.opdim["hash_only_runs_other_operation_than_previous_request_of_that_text"] += 1
                        if k.isdigit() and any(x.isdigit() and int(x) > int(k) for x in seen):
                            acc.opdim["hash_only_runs_EARLIER_operation_after_a_later_one"] += 1
                            nt = True
                    seen.append(k)
                elif len(parts) == 3 and parts[0].startswith("run:") and parts[1] == "x:-":
                    acc.opdim["no_such_operation_or_rejected_text"] += 1
            c = _classify(rq, ob, added, final) if len(parts) == 3 and rq.count("/") == 2 else "unclassified"
            if c.startswith("hash-only:miss") or c == "hash-only:other":
                # the dimension of seeded change 9: the SAME hash looked up again after a miss, nothing registered in between
                hh = rq.split("/")[1].split(",", 1)[1]
                if hh in missed and hh not in added:
                    c = "hash-only:asked-again-after-a-miss(" + c.split(":", 1)[1] + ")"
                    nt = True
                missed.add(hh)
            acc.branch[c] += 1
            if c.startswith(("hash-only:hit", "hash-only:miss-after", "mismatch:", "register:again")):
                nt = True
            if len(parts) == 3 and parts[2].startswith("A"):
                added.add(parts[2][1:].split(":")[0])
        if nt:
            acc.nontriv.add(hash((r[1], r[2])))
        if model is not None:
            diverges = model[i] != r[3] + "\t" + r[4]
            v = verdicts[i]
            if v.startswith("violates"):
                acc.specbad.add(r, v, model[i])
            elif v != "ok":
                acc.unparsable += 1
                diverges = True
            if diverges:
                acc.div.add(r, None, model[i])
        if len(acc.samples) < 6 and (acc.hist in (3, 17) or (nt and acc.hist % 9973 == 0)):
            acc.samples.append({"cache": r[1], "history": r[2], "observed": r[3], "final_cache": r[4]})


def _replay_one(hbin, kind, toks):
    tabs, runs = _run_harness(hbin, ["-replay", "%s|%s" % (kind, " ".join(toks))])
    r = runs[0]
    tabl = [" ".join(t) for t in tabs]
    out = _run_driver(tabl + ["run %s %s" % (r[1], r[2]), "chk %s %s\t%s\t%s" % (r[1], r[2], _for_spec(r[3]), r[4])])
    return r, out[len(tabl)], out[len(tabl) + 1]


class Budget:
    """what all shrinking of one run together may spend"""

    def __init__(self, seconds):
        self.deadline = time.time() + seconds
        self.replays = 0

    def left(self):
        return time.time() < self.deadline


def _shrink(hbin, kind, toks, want_spec_failure, budget=None):
    """Delta-debug a history (ddmin: drop chunks of half, a quarter, ... one request) while the failure (Spec failure,
    else divergence) persists. Bounded: at most SHRINK_REPLAYS replays and only while the run's budget lasts; what is
    reached by then is returned (still a failing history, possibly not minimal)."""
    spent = [0]

    def bad(ts):
        if not ts:
            return False
        spent[0] += 1
        if budget is not None:
            budget.replays += 1
        try:
            r, m, v = _replay_one(hbin, kind, ts)
        except Exception:
            return False
        return v.startswith("violates") if want_spec_failure else (m != r[3] + "\t" + r[4])

    def more():
        return spent[0] < SHRINK_REPLAYS and (budget is None or budget.left())

    cur = list(toks)
    size = max(1, len(cur) // 2)
    while len(cur) > 1 and more():
        changed = False
        i = 0
        while i < len(cur) and len(cur) > 1 and more():
            cand = cur[:i] + cur[i + size:]
            if cand and bad(cand):
                cur = cand
                changed = True
            else:
                i += size
        if size > 1:
            size = min(max(1, size // 2), max(1, len(cur) // 2))
        elif not changed:
            break            # 1-minimal: no single request can be dropped
    return cur


def _report(ctx, hbin, r, model_line, verdict, kind_of, budget=None, seen=None):
    kind, toks = r[1], (r[2].split(" ") if r[2] != "-" else [])
    failing = verdict is not None and verdict.startswith("violates")
    small = toks
    try:
        small = _shrink(hbin, kind, toks, failing, budget) if len(toks) <= 64 else toks
        if seen is not None:
            if (kind, tuple(small)) in seen:
                return False     # shrinks to a history that is already reported
            seen.add((kind, tuple(small)))
        rr, mm, vv = _replay_one(hbin, kind, small)
    except Exception:
        rr, mm, vv = r, model_line, verdict
    reproduced = True
    if failing and not (vv or "").startswith("violates"):
        # the Spec failure was observed in the batch run but not when the history is replayed alone: it depends on
        # what ran at the same time (the exhaustive batches run histories on several goroutines). Report what was observed.
        reproduced = False
        small = toks
        try:
            rj = _replay_one(hbin, kind, toks)[0]
            rr = list(r[:5]) + ([rj[5]] if len(rj) > 5 else [])
        except Exception:
            rr = r
        mm, vv = model_line or mm, verdict
    classes = sorted(set(o.split("|")[0].split(":")[0] for o in rr[3].split(" "))) if rr[3] != "-" else []
    rep = {
        "kind": kind_of,
        "cache": kind,
        "history": " ".join(small),
        "requests": json.loads(rr[5]) if len(rr) > 5 else None,
        "implementation": {"observed": rr[3], "final_cache": rr[4]},
        "model": mm,
        "spec_verdict": vv,
        "original_history": r[2],
        "reproduced_when_replayed_alone": reproduced,
        "shape": {"cache": kind, "verdict": (vv or "").split(":")[0], "classes": ",".join(classes)},
        "token_format": "<text id|->/<a|m|version,hash>/<concrete shape>[^operationName]; observed <class>|x:<executed text>[.<index of the executed operation in a fresh parse of that text>]|<cache calls>; "
                        "cache <map|no|lruN>[+q[M] = parsed-document cache (map / LRU of M)][@http]",
        "replay": "cd /verif/go && go run -tags verif ./harness/c15 -replay '%s|%s'   # then compare with: driver_c15 run/chk; "
                  "Spec = GqlgenVerif.Apq.specOk (theorem model_satisfies_spec)" % (kind, " ".join(small)),
    }
    ctx.violation(rep, no_failing_input=not failing)
    return True


def run(ctx):
    ctx.assumptions += [
        "SHA-256 is an uninterpreted function H in every theorem; the driver instantiates H with the real digests the harness computes with crypto/sha256 (the same digests a client would send)",
        "mapstructure.Decode (library) is modelled by the harness's classification of concrete extension values into absent / malformed / decoded(version, sha); the classification is exercised by the correspondence run (float64, json.Number, int, fractional, missing and nil keys, wrong types)",
        "hashicorp/golang-lru (library) is modelled as a bounded recency list (Get refreshes, Add refreshes or evicts the oldest); tied by histories with eviction on lru.New(1..4)",
        "gqlparser parse/validate is a parameter `valid` of the model: which texts the executor accepts is taken from the harness's text table and checked against the mock ExecutableSchema's record of executed texts",
        "requests in flight at once: the pool discipline of POST.Do is regenerated and proved (Props/C15Pool: get use* put on every return path => no two requests share a RawParams, any interleaving); on the implementation only the interleavings 'both requests decoded before either passes APQ, then one after the other' (both decode orders) are forced, on one P with the collector off so that sync.Pool is deterministic; truly simultaneous execution inside the extension / the cache is not scheduled (the cache implementations' own thread-safety is outside C15)",
        "which operation Exec runs is observed through a signature of OperationContext.Operation (its name; alias, name, first argument of its first selection), independent of RawQuery and of the operation's position in OperationContext.Doc; layout siblings of one document share signatures; a document that differs from the fresh parse of the text while the right operation runs is reported as a divergence (`!doc=`), not as a Spec failure",
        "which operation a first-time server selects (gqlparser ForName on a fresh parse + validation) is taken from the harness's text table (operation names of a fresh parser.ParseQuery, `valid` flag) and modelled by ApqOp.forName; documents are immutable values in the model - that the executor only reads cached documents is the regenerated fact Gen/DocFlow (syntactic taint of *ast.QueryDocument values within package executor; writes inside gqlparser or by extensions are out of its sight and left to the tie)",
        "weak-key pairs: texts whose SHA-256 hex strings collide under FNV-1/1a-32, CRC-32, Adler-32 and 32-bit prefix/suffix truncation are found by birthday search at start-up; other lossy key transformations are not probed",
    ]
    ok_prog = ctx.extract("ApqProg")
    ok_pool = ctx.extract("PostPool")
    ok_flow = ctx.extract("DocFlow")
    ok_extract = ok_prog and ok_pool and ok_flow
    proved = ctx.prove(props=[p for p, ok in zip(PROPS, (True, ok_prog, ok_pool, ok_flow)) if ok])
    if not proved:
        ctx.cov["proof_failure"] = ctx.proof_failure
    have_driver = getattr(ctx, "driver_ok", False)

    # build the harness once; run it for the base batch
    rc, so, se = ctx.harness("c15", ["-mode", "tab"])
    if rc != 0:
        raise RuntimeError("harness failed: " + se[-2000:])
    hbin = os.path.join(vf.CACHE, "h_c15")

    if getattr(ctx, "replay", None):
        rp = json.load(open(ctx.replay))
        r, m, v = _replay_one(hbin, rp["cache"], rp["history"].split(" "))
        ctx.cov.update({"evaluations": 1, "replayed": {"observed": r[3], "final_cache": r[4], "model": m, "spec": v}})
        if v != "ok" or m != r[3] + "\t" + r[4]:
            _report(ctx, hbin, r, m, v, "replay")
        return

    acc = Acc()
    thorough = ctx.tier == "thorough"
    tabs, runs = _run_harness(hbin, ["-mode", "all", "-tier", ctx.tier, "-seed", ctx.seed, "-corpus", CORPUS])
    _process(acc, "directed+corpus+weak-key+random+exhaustive<=3", tabs, runs, have_driver)
    # histories carried over HTTP (own process: one P, collector off - see go/harness/c15/http.go)
    tabs, runs = _run_harness(hbin, ["-mode", "http", "-tier", ctx.tier, "-seed", ctx.seed, "-corpus", CORPUS])
    _process(acc, "http:corpus+weak-key+exhaustive+random", tabs, runs, have_driver)

    # exhaustive chunks
    chunks = []
    if thorough:
        for c in ("map", "lru1", "lru2", "lru3", "no", "map+q", "lru2+q"):
            chunks.append((c, 4, ""))
        for c in ("map", "lru1", "lru2", "lru3"):
            for i in range(NALPHA):
                chunks.append((c, 5, str(i)))
        # length 6 on LRU(2): first request over text 0 only — the alphabet (incl. its wrong-hash map t -> t+1)
        # is invariant under the cyclic renaming of the three texts, so every history is a renaming of one of these
        for i in range(0, NALPHA, 3):
            for j in range(NALPHA):
                chunks.append(("lru2", 6, "%d,%d" % (i, j)))
    else:
        for c in ("map", "map+q", "lru1", "lru2"):
            chunks.append((c, 4, ""))
    # the operation alphabet (16 kinds: register / hash only / text only x operationName over texts with 3, 2, 1 operations)
    if thorough:
        for c in ("map+q", "lru1+q1", "lru2+q2", "map", "map+q1"):
            chunks.append((c, 4, "", "exhop"))
        for i in range(16):
            chunks.append(("map+q", 5, str(i), "exhop"))
    else:
        for c in ("map+q", "lru1+q1"):
            chunks.append((c, 4, "", "exhop"))

    def work(ch):
        if acc.stopped_early:
            return ch, None
        c, L, pre = ch[:3]
        args = ["-mode", ch[3] if len(ch) > 3 else "exh", "-cache", c, "-len", L]
        if pre:
            args += ["-prefix", pre]
        return ch, _run_harness(hbin, args)

    skipped = 0
    with ThreadPoolExecutor(max_workers=3 if thorough else 4) as ex:
        for ch, res in ex.map(work, chunks):
            if res is None:
                skipped += 1
                continue
            tb, rs = res
            _process(acc, "exhaustive%s-len%d" % ("-operations" if len(ch) > 3 else "", ch[1]), tb, rs, have_driver)
            if acc.specbad.count >= ENOUGH and not acc.stopped_early:
                # the verdict is settled and there are more than enough failing histories to choose a short one from:
                # chunks not started yet are skipped (the quick tier's four chunks start at once; this bounds the
                # thorough tier, whose 170 chunks take 20 minutes)
                acc.stopped_early = "%d Spec failures after %d histories" % (acc.specbad.count, acc.hist)

    # ---- decide
    budget = Budget(REPORT_SECONDS)
    seen = set()
    nrep = 0
    for r, v, m in acc.specbad.shortest_first()[:MAX_REPORTS]:
        nrep += 1 if _report(ctx, hbin, r, m, v, "spec-violation", budget, seen) else 0
    if not acc.specbad.count:
        for r, _v, m in acc.div.shortest_first()[:MAX_REPORTS]:
            nrep += 1 if _report(ctx, hbin, r, m, None, "correspondence", budget, seen) else 0
    if not have_driver:
        ctx.violation({"kind": "driver", "what": "Lean driver for C15 does not build", "detail": getattr(ctx, "driver_log", "")[-3000:]},
                      no_failing_input=True)
    if not proved and ok_extract and not any(not nf for _, nf in ctx.violations):
        # a proof obligation no longer checks and neither the Spec evaluation of every implementation trace
        # nor the correspondence produced a failing history
        ctx.violation({"kind": "proof", "failing": ctx.proof_failure,
                       "note": "theorem(s) of Props/C15, Props/C15Gen (regenerated body of MutateOperationParameters = Apq.step), Props/C15Pool "
                               "or Props/C15Op (regenerated flow of the parsed document through package executor is read-only) no longer check; "
                               "no failing history found among %d histories" % acc.hist}, no_failing_input=True)

    ctx.cov.update({
        "evaluations": acc.hist,
        "requests_executed_on_implementation": acc.reqs,
        "distinct_nontrivial": len(acc.nontriv),
        "rule": "distinct (cache, history) in which a hash-only lookup hits, or misses a hash that was registered earlier in the "
                "history (eviction), or a text is sent with a hash it does not hash to, or a hash is registered a second time, "
                "or a hash that was missed is looked up again with no registration in between",
        "input_distribution": dict(acc.branch),
        "histories_by_cache": dict(acc.bycache),
        "histories_by_generator": dict(acc.gen),
        "exhaustive_enumeration": ("all histories over 3 texts x {text only, text+hash, text+other text's hash, hash only, malformed extension, version 2}: "
                       + ("length <=3 on map/lru1/lru2/lru3/no, length 4 on all five, length 5 on map/lru1/lru2/lru3, length 6 on lru2 up to renaming of the texts"
                          if thorough else "length <=3 on map/lru1/lru2/lru3/no/map+q, length 4 on map/map+q/lru1/lru2")
                       + "; over HTTP (2 texts x {text+hash, hash only, text+other's hash} + an undecodable body, every adjacent pair of requests "
                         "also in flight at once in both decode orders): length <=3 on map, 3 on lru1+q, "
                       + ("4 on map and lru1+q" if thorough else "a 1/8 sample of length 4 on map+q")),
        "http": dict(acc.http),
        "operation_dimension": dict(acc.opdim),
        "operation_alphabet_enumeration": "all histories over {text [A B C]: register x {A,B,C,none}, hash only x {A,B,C,none}, text only x {A,C}; "
                                          "text [B A]: register / hash only x {A,B}; text [A]: register, hash only ^B}: length <=3 on map+q, lru1+q1, map, "
                                          "lru2+q2, " + ("length 4 on map+q, lru1+q1, lru2+q2, map, map+q1, length 5 on map+q" if thorough else "length 4 on map+q, lru1+q1")
                                          + "; over HTTP a 7-kind alphabet (with GET, pairs in flight at once) length 2-3 on map+q",
        "traces_validated_against_impl": acc.hist if have_driver else 0,
        "correspondence_divergences": acc.div.count,
        "spec_violations_on_implementation_traces": acc.specbad.count,
        "failing_histories_reported": nrep,
        "budgets": {"failing_histories_kept_per_kind": KEEP, "candidates_reported_shortest_first": MAX_REPORTS,
                    "replays_per_shrink": SHRINK_REPLAYS, "seconds_for_all_shrinking": REPORT_SECONDS,
                    "shrink_replays_spent": budget.replays,
                    "no_new_exhaustive_chunk_after_spec_failures": ENOUGH,
                    "stopped_early": acc.stopped_early, "exhaustive_chunks_skipped": skipped},
        "spec_evaluated_on": "every implementation trace (driver op chk = Apq.specOk)",
        "unparsable_implementation_traces": acc.unparsable,
        "samples": acc.samples,
        "proved_vs_sampled": "proved: invariant/hash-only/mismatch/no-rebind for all histories, all lawful caches, uninterpreted H; MapCache, NoCache, LRU(n) lawful; "
                             "regenerated MutateOperationParameters body = model step. sampled: model of mapstructure decoding, of hashicorp LRU, of the executor hand-off",
    })
