"""C20 - federation `_entities` answers each representation at its own index.

prove (Props/C20 over Model/Entities, Props/C20Gen over the regenerated Gen/FedFacts) -> generate the federation probe servers from /repo's
CURRENT templates (variants: federation v1/v2 x default/explicit_requires/computed_requires x code-style
options) -> run generated cases through the REAL generated executor in-process (go/harness/c20/rt) and through
the Lean model (driver_c20) -> compare element by element, errors as a multiset, entity-resolver calls as a
multiset -> evaluate the Spec (every representation resolved directly, by itself) and isolation (fault
families) directly on the implementation's output.
"""
import hashlib
import json
import os
import shutil
from collections import Counter
from concurrent.futures import ThreadPoolExecutor

from lib import vf

HARNESS_FILES = ["main.go", "gen.go", "config.go", "cases.go", "table.go", "shapes.go", "rt/rt.go"]


def _hkey():
    h = hashlib.sha256()
    for f in HARNESS_FILES:
        h.update(open(os.path.join(vf.GO, "harness", "c20", f), "rb").read())
    for f in sorted(os.listdir(os.path.join(vf.GO, "probes", "c20"))):
        h.update(open(os.path.join(vf.GO, "probes", "c20", f), "rb").read())
    return h.hexdigest()[:8]


def build_variant(ctx, hbin, variant, key):
    """generate + build the probe server of one variant (cached by tree hash + harness hash)"""
    pkg = "c20_" + variant
    d = os.path.join(vf.GO, "genout", pkg)
    out = os.path.join(vf.CACHE, "srv_%s_%s" % (pkg, key))
    stamp = os.path.join(d, ".verif_stamp")
    if os.path.exists(out) and os.path.exists(stamp) and open(stamp).read() == key:
        return out
    shutil.rmtree(d, ignore_errors=True)
    os.makedirs(d)
    rc, so, se = vf.sh([hbin, "-mode", "gen", "-variant", variant, "-dir", d], cwd=vf.GO, env=vf.go_env(), timeout=900)
    if rc != 0:
        raise RuntimeError("generation failed for %s:\n%s%s" % (variant, so[-3000:], se[-3000:]))
    ctx.go_build("./genout/%s/cmd" % pkg, out)
    open(stamp, "w").write(key)
    for f in os.listdir(vf.CACHE):
        if f.startswith("srv_%s_" % pkg) and f != os.path.basename(out):
            try:
                os.remove(os.path.join(vf.CACHE, f))
            except OSError:
                pass
    return out


def canon_impl(r):
    data = r.get("data")
    ents = data.get("_entities") if isinstance(data, dict) else None
    errs = sorted([e["path"], e["msg"]] for e in r.get("errors") or [])
    calls = sorted(c for c in r.get("calls") or [] if c.startswith("Find"))
    return ents, errs, calls


def canon_model(m):
    return m["data"], sorted(m["errors"]), sorted(m["calls"])


def msg_class(msg):
    for pre, c in (("__typename must", "err:no-typename"), ("unknown type", "err:unknown-type"),
                   ("finding resolver", "err:no-usable-key"), ("resolving Entity", "err:user-error"),
                   ("populating requires", "err:populator-error"), ("panic: type assertion", "panic:type-assertion"),
                   ("panic: nil deref", "panic:nil-entity-requires"), ("panic: index", "panic:index-out-of-range"),
                   ("panic: ", "panic:user"), ("strconv.Atoi", "err:unmarshal-int"), ("Field ", "err:multi-key-unmarshal"),
                   ("must not be null", "err:null-for-non-null-key"), ("entity resolver ", "err:batch-length-mismatch"),
                   ("popE", "err:computed-field-error")):
        if msg.startswith(pre):
            return c
    if " is not a" in msg:
        return "err:unmarshal-type"
    if len(msg) > 1 and msg[0] in "EF" and msg[1:].isdigit():
        return "err:batch-user-error"
    return "err:other"


def multiset_minus(a, b):
    c = Counter(map(tuple, a))
    c.subtract(Counter(map(tuple, b)))
    return [k for k, v in c.items() if v > 0]


def spec_eval(case, ents, errs, model):
    """The property written directly, evaluated on the implementation's output.
    returns list of (index, verdict, cause) for violating elements.
    Single-mode representations (and those without __typename): the element must be exactly what the
    representation resolves to by itself (its entity, or null). Batch groups: the same, except that a group
    whose user resolver failed as a whole, or broke its contract, is null with an error throughout."""
    bad = []
    spec = model["spec"]
    n = len(case["reps"])
    if ents is None or len(ents) != n:
        return [(-1, "result-length", None)]
    unexplained = multiset_minus(errs, spec["errors"])
    group_of = {}
    for g in model["groups"]:
        for i in g["indices"]:
            group_of[i] = g
    if not model["groups"] and errs != sorted(spec["errors"]):
        # no batch type involved: the errors are exactly the per-representation errors (name the first wrong
        # element when there is one)
        for i in range(n):
            if ents[i] != spec["data"][i]:
                return [(i, "wrong-entity" if ents[i] is not None else "wrong-null", None)]
        have = set(e[1] for e in errs)
        for i in range(n):
            own = model["specElemErrors"][i]
            if ents[i] is None and own and not any(m in have for m in own):
                return [(i, "null-without-error", None)]
        return [(-1, "errors-differ", None)]
    for i in range(n):
        g = group_of.get(i)
        if g is None:
            if ents[i] != spec["data"][i]:
                bad.append((i, "wrong-entity" if ents[i] is not None else "wrong-null", None))
            continue
        cause_errs = set(e for k in g["indices"] for e in model["specElemErrors"][k])
        reported = bool(unexplained) or any(e[1] in cause_errs for e in errs)
        if g["lenMismatch"]:
            # the user's batch resolver broke its contract (one entity per input): nothing can be attributed;
            # every element of the group must be null and the group must have reported an error
            if ents[i] is not None or not reported:
                bad.append((i, "wrong-entity" if ents[i] is not None else "silent-null", "multi-length-mismatch"))
            continue
        if g.get("reordered"):
            continue                # right length, wrong order: a broken user contract the generated code cannot see
        if ents[i] == spec["data"][i]:
            continue
        cause = "multi-first-key" if g["mixedKeys"] else None
        if ents[i] is None:
            if g.get("userFault") and reported:
                continue            # the user's batch resolver failed as a whole: every member is null with that error
            if reported and (cause or any(model["specElemErrors"][k] or model["spec"]["data"][k] is None
                                          for k in g["indices"] if k != i)):
                # null with an error - but the failure is another member's, not this representation's
                bad.append((i, "null-by-other-member", cause or "multi-batch-abort"))
            elif reported:
                # null with an error although no other member of its group fails either: nothing but this
                # representation itself was refused
                bad.append((i, "wrong-null", None))
            else:
                bad.append((i, "silent-null", cause))
        else:
            bad.append((i, "wrong-entity", cause))
    return bad


def run_variant(ctx, hbin, srv, variant, st):
    rc, cfgj, se = vf.sh([hbin, "-mode", "config", "-variant", variant], cwd=vf.GO, timeout=120)
    if rc != 0:
        raise RuntimeError("config failed: " + se[-2000:])
    cfgj = cfgj.strip()
    if ctx.replay:
        rp = json.load(open(ctx.replay))
        if rp.get("variant") != variant or "case" not in rp:
            return
        case_lines = [json.dumps(rp["case"])]
    else:
        rc, so, se = vf.sh([hbin, "-mode", "cases", "-variant", variant, "-seed", str(ctx.seed), "-tier", ctx.tier],
                           cwd=vf.GO, timeout=600)
        if rc != 0:
            raise RuntimeError("case generation failed: " + se[-2000:])
        case_lines = [l for l in so.split("\n") if l]
        corpus = os.path.join(vf.VERIF, "corpus", "C20")
        if os.path.isdir(corpus):
            q = json.loads(cfgj)["query"]
            for f in sorted(os.listdir(corpus)):
                c = json.load(open(os.path.join(corpus, f)))
                c["query"] = q
                c["id"] = "%s-corpus-%s" % (variant, f)
                case_lines.insert(0, json.dumps(c))
    rc, so, se = vf.sh([srv], inp="\n".join(case_lines) + "\n", timeout=2400)
    if rc != 0:
        ctx.violation({"kind": "crash", "variant": variant, "stderr": se[-4000:], "shape": {"crash": True},
                       "replay": "the runner of variant %s died while running the generated cases" % variant})
        return
    impl_lines = [l for l in so.split("\n") if l]
    if len(impl_lines) < len(case_lines) and impl_lines and json.loads(impl_lines[-1]).get("hung"):
        # the runner stops after three operations that never answered: judge what ran
        case_lines = case_lines[:len(impl_lines)]
    model_lines = ctx.driver("c20", ["cfg " + cfgj] + ["case " + l for l in case_lines])[1:]
    if len(impl_lines) != len(case_lines) or len(model_lines) != len(case_lines):
        raise RuntimeError("line count mismatch: %d cases, %d impl, %d model" % (len(case_lines), len(impl_lines), len(model_lines)))
    outs = {}
    ok = 0
    for cl, il, ml in zip(case_lines, impl_lines, model_lines):
        case = json.loads(cl)
        r = json.loads(il)
        st["total"] += 1
        if not ml.startswith("{"):
            st["divs"].append((variant, case, r, ml, ["model:" + ml[:60]]))
            continue
        m = json.loads(ml)
        ents, errs, calls = canon_impl(r)
        mdata, merrs, mcalls = canon_model(m["impl"])
        outs[case["id"]] = (case, ents, errs, m)
        why = []
        if r.get("crash"):
            why.append("crash")
        if r.get("hung"):
            why.append("hung")
        if r.get("gate"):
            why.append("gate")
        if ents != mdata:
            why.append("data")
        if errs != merrs:
            why.append("errors")
        if calls != mcalls:
            why.append("calls")
        if not m.get("orderIndependent", False):
            why.append("model-order-dependent")
        # branch histogram
        tags = set(case.get("class") or [])
        for e in merrs:
            tags.add(msg_class(e[1]))
        types = [rep.get("__typename") for rep in case["reps"] if isinstance(rep.get("__typename"), str)]
        if len(set(types)) > 1:
            tags.add("interleaved-types" if any(types[i] != types[i + 1] and types[i] in types[i + 2:] for i in range(len(types) - 2)) else "several-types")
        if any(g["mixedKeys"] for g in m["groups"]):
            tags.add("multi-group-mixed-keys")
        if any(g["lenMismatch"] for g in m["groups"]):
            tags.add("multi-group-length-mismatch")
        if any(g.get("reordered") for g in m["groups"]):
            tags.add("multi-group-user-reordered")
        for t in tags:
            st["dist"][t] += 1
        st["dist"]["len:%d" % len(case["reps"])] += 1
        if tags - {"mixed", "iso-base", "plain"} and (merrs or case.get("plan")):
            st["nontriv"].add(json.dumps([case["reps"], case.get("plan")], sort_keys=True))
        if why:
            st["divs"].append((variant, case, r, m, why))
        else:
            ok += 1
        # the Spec, directly, on the implementation's output
        if not why or "data" in why or "errors" in why:
            for i, verdict, cause in spec_eval(case, ents, errs, m)[:1]:
                st["specbad"].append((variant, case, r, m, i, verdict, cause))
        if len(st["samples"]) < 4 and 3 <= len(case["reps"]) <= 6 and merrs and not why and st["total"] % 29 == 0:
            st["samples"].append({"variant": variant, "reps": case["reps"], "plan": case.get("plan"), "entities": ents, "errors": errs})
    # isolation, directly: a fault at representation j must not change any other element
    for cid, (case, ents, errs, m) in outs.items():
        iso = case.get("iso")
        if not iso or iso["base"] not in outs or ents is None:
            continue
        bcase, bents, berrs, bm = outs[iso["base"]]
        if bents is None or len(bents) != len(ents):
            continue
        st["iso_pairs"] += 1
        j = iso["j"]
        gj = next((g for g in m["groups"] if j in g["indices"]), None)
        user_batch_fault = gj is not None and any(o.get("kind") in ("error", "panic") for o in (case.get("plan") or {}).values())
        for i in range(len(ents)):
            if i == j or ents[i] == bents[i]:
                continue
            if m["spec"]["data"][i] != bm["spec"]["data"][i]:
                continue        # same call as representation j (equal keys): the fault is its own
            same_group = gj is not None and i in gj["indices"]
            if same_group and user_batch_fault:
                continue        # the user's batch resolver failed as a whole: not attributable to one member
            st["isobad"].append((variant, case, bents, ents, i, j, "multi-batch-abort" if same_group else None))
            break
    st["per_variant"][variant] = {"cases": len(case_lines), "corresponding": ok}


def run(ctx):
    ctx.assumptions += [
        "a task (one resolveEntity call with its list[i] write / ec.Error, or one resolveManyEntities call) is atomic in the model; the Go memory model is not modelled, absence of data races is not a theorem (thorough tier: the probe runs under the race detector)",
        "user code (entity resolvers, populators) is a total function of the arguments it receives; the stubs are deterministic functions of (resolver, key arguments, plan)",
        "graphql.Unmarshal{ID,String,Int}, encoding/json (json.Number), errors.Join, fmt, the executor around _entities (argument coercion, _Entity marshalling, error presenter, computed_requires directive) are modelled at the fidelity the correspondence run validates, not verified",
        "generator restriction: string key values are letters/digits (strconv.Atoi / quoting modelled for that alphabet), integers are small",
        "the entity table (keys in directive order, nested paths, multi, requires) is derived from the schema text by the harness and compared on every run with the table the real plugin computes in-process (federation.New ... InjectSourcesLate); Go identifier casing comes from /repo's templates.ToGo",
    ]
    hbin = os.path.join(vf.CACHE, "h_c20")
    ctx.go_build("./harness/c20", hbin)
    rc, so, se = vf.sh([hbin, "-mode", "variants", "-tier", ctx.tier], cwd=vf.GO)
    variants = [v for v in so.split() if v]
    key = vf.tree_hash() + "_" + _hkey()
    st = {"total": 0, "divs": [], "specbad": [], "isobad": [], "dist": Counter(), "nontriv": set(), "samples": [],
          "per_variant": {}, "iso_pairs": 0}

    # ---- probe servers, generated from /repo's current templates
    def one(v):
        try:
            return v, build_variant(ctx, hbin, v, key)
        except RuntimeError as e:
            return v, e
    ctx.sync_gosum()
    with ThreadPoolExecutor(max_workers=4) as ex:
        built = dict(ex.map(one, variants))

    # ---- regenerated facts of the generated federation.go, then the proofs
    first_ok = next((v for v in variants if not isinstance(built[v], Exception)), None)
    ok_extract = first_ok is not None and ctx.extract("FedFacts", arg=os.path.join(vf.GO, "genout", "c20_" + first_ok))
    # ---- the key-field walk of every entityResolverNameFor<T> and the paths the key arguments are read from, of EVERY
    #      generated server (statement by statement; Props/C20Walk ties them to the model's key check)
    ok_dirs = [os.path.join(vf.GO, "genout", "c20_" + v) for v in variants if not isinstance(built[v], Exception)]
    if ok_dirs:
        ctx.extract("FedKeyWalk", arg=",".join(ok_dirs))
    # ---- the guards that decide whether an entity type gets resolvers at all (entity.go, buildEntity), regenerated
    ctx.extract("FedResolvable")
    proved = ctx.prove(props=["GqlgenVerif.Props.C20", "GqlgenVerif.Props.C20Gen", "GqlgenVerif.Props.C20Res",
                              "GqlgenVerif.Props.C20Walk"])
    if not proved:
        ctx.cov["proof_failure"] = ctx.proof_failure

    # ---- the real plugin in-process: entity tables, fieldset.New
    tb_total, tb_div = table_tie(ctx, hbin, st)

    for v in variants:
        b = built[v]
        if isinstance(b, Exception):
            ctx.violation({"kind": "generated-server-does-not-build", "variant": v, "detail": str(b)[-3000:],
                           "shape": {"variant": v, "build": "fail"}}, no_failing_input=True)
            continue
        run_variant(ctx, hbin, b, v, st)

    # ---- the same cases under the race detector (observed, not proved): a schedule-dependent defect such as a
    #      variable shared between the per-entity goroutines has a window of nanoseconds and rarely shows in values
    if not ctx.replay and first_ok:
        race_run(ctx, hbin, first_ok, st, key)

    # ---- decide
    reported = Counter()
    for variant, case, r, m, i, verdict, cause in st["specbad"]:
        k = (verdict, cause, variant)
        reported[k] += 1
        if reported[k] > 2 and len(ctx.violations) >= 4:
            continue
        ctx.violation({"kind": "spec", "variant": variant, "case": case, "impl": r, "element": i, "verdict": verdict,
                       "expected_element": m["spec"]["data"][i] if i >= 0 else None,
                       "shape": {"mode": "multi" if cause else "any", "cause": cause or verdict},
                       "replay": "./bin/check C20 --replay <this file>: element %d of _entities is %s for the listed representations" % (i, verdict)})
    for variant, case, bents, ents, i, j, cause in st["isobad"]:
        ctx.violation({"kind": "isolation", "variant": variant, "case": case, "base_entities": bents, "entities": ents,
                       "element": i, "faulted": j,
                       "shape": {"mode": "multi" if cause else "any", "cause": cause or "fault-not-isolated"},
                       "replay": "failing representation %d changed element %d (compare with the family's fault-free case)" % (j, i)})
    spec_cases = set(c["id"] for _, c, *_ in st["specbad"])
    for variant, case, r, m, why in st["divs"]:
        if len(ctx.violations) >= 12:
            break
        if case["id"] in spec_cases:
            continue            # already reported with its failing input
        failing = any(w in ("crash", "hung") for w in why)
        ctx.violation({"kind": "correspondence", "variant": variant, "why": why, "case": case, "impl": r,
                       "model": m.get("impl") if isinstance(m, dict) else m,
                       "shape": {"why": ",".join(sorted(w.split(":")[0] for w in why))},
                       "replay": "./bin/check C20 --replay <this file>: model and generated code differ (%s); the Spec holds on the implementation's output" % ",".join(why)},
                      no_failing_input=not failing)
    if not proved and not any(not nf for _, nf in ctx.violations):
        ctx.violation({"kind": "proof", "failing": ctx.proof_failure}, no_failing_input=True)

    ctx.cov.update({
        "evaluations": st["total"] + tb_total,
        "distinct_nontrivial": len(st["nontriv"]),
        "rule": "per variant: fixed directed cases; random interleaved lists (length 0-12, 25% damaged representations, random user faults and delays); duplicate-heavy lists; isolation families (fault-free base + one run per representation x {error, panic, nil, malformed requires}); forced completion orders (reverse, forward, straggler, alternate); failing representations under a slow error presenter; adversarial batch groups (mixed keys, reshaped result slices, nil elements, malformed member/first member); a malformed stream (85% damaged); the key-state product of every entity type (3L states per key path of L segments; strided sample above the cap) incl. the key-shape types enumerated by go/harness/c20/shapes.go (nested component first / middle / last, several nested, 3-4 segment paths, several @keys mixing flat and nested sets; single and batch); key-shape lists (exactly one key - each in turn -, every key, one member failing); every @requires field in turn unusable while the others are fine. Non-trivial = distinct (representations, plan) reaching a branch beyond the fault-free single-type path with an error or a plan entry",
        "input_distribution": dict(st["dist"]),
        "variants": st["per_variant"],
        "correspondence_divergences": len(st["divs"]),
        "spec_violations_on_impl_output": len(st["specbad"]),
        "isolation_pairs_compared": st["iso_pairs"],
        "isolation_violations": len(st["isobad"]),
        "plugin_table_and_fieldset_cases": tb_total,
        "plugin_table_and_fieldset_divergences": tb_div,
        "race_detector": st.get("race", "not run"),
        "samples": st["samples"],
    })


def _norm_table(es):
    return [(e["name"], e["multi"],
             [(x["name"], [(k["path"], k["type"], k["defName"], k["goField"]) for k in x.get("keys") or []]) for x in e["resolvers"]],
             [k["path"] for k in e["requires"]]) for e in es or []]


def table_tie(ctx, hbin, st):
    """the real plugin in-process: its entity table vs the one derived from the schema text (the model's
    configuration); fieldset.New vs the leaf paths of the printed tree"""
    rc, so, se = vf.sh([hbin, "-mode", "table", "-seed", str(ctx.seed), "-tier", ctx.tier], cwd=vf.GO, timeout=600)
    if rc != 0:
        raise RuntimeError("table harness failed: " + se[-2000:])
    rows = [json.loads(l) for l in so.split("\n") if l]
    div = 0
    for r in rows:
        if r["kind"] == "table":
            st["dist"]["plugin-entity-table"] += 1
            if r.get("panic") or _norm_table(r.get("real")) != _norm_table(r.get("derived")):
                div += 1
                ctx.violation({"kind": "correspondence", "what": "entity table", "variant": r["variant"], "plugin": r.get("real"),
                               "derived_from_schema": r.get("derived"), "panic": r.get("panic"), "shape": {"why": "entity-table"},
                               "replay": "go/harness/c20 -mode table: plugin/federation computes another entity table for the probe schema than the schema text says"},
                              no_failing_input=True)
        elif r["kind"] == "schema":
            # generated entity schemas (the schema-shape dimension): which types get resolvers
            st["dist"]["generated-schema:v%d" % r["version"]] += 1
            real = {e["name"]: e for e in r.get("real") or []}
            specbad = None
            for f in r.get("facts") or []:
                e = real.get(f["name"])
                nres = len(e["resolvers"]) if e else -1
                cls = "%s%s/%s/%s" % ("key-only/" if f["keyOnly"] else "", "resolvable:false" if f["anyResolvableOff"] else
                                      ("resolvable:true" if f["resolvableArgs"] else "no-resolvable-arg"),
                                      "own-field" if f["ownField"] else "all-external", "resolvers" if nres > 0 else "no-resolver")
                st["dist"]["entity-shape:v%d/%s" % (r["version"], cls)] += 1
                # the Spec, directly: a resolvable entity type with a field of its own has one resolver per @key
                # (else every representation of it is null, "unknown type"); an all-@external type has none
                if not r.get("panic") and specbad is None:
                    if f["ownField"] and not f["anyResolvableOff"] and nres != f["keys"]:
                        specbad = (f, nres, "resolvable-entity-without-resolver" if nres <= 0 else "resolver-count")
                    elif not f["ownField"] and nres > 0:
                        specbad = (f, nres, "resolver-for-all-external-entity")
            if specbad:
                div += 1
                st["schema_spec_bad"] = st.get("schema_spec_bad", 0) + 1
                if st["schema_spec_bad"] <= 2:
                    f, nres, verdict = specbad
                    ctx.violation({"kind": "spec-schema", "federation_version": r["version"], "schema": r["schema"], "entity": f["name"],
                                   "facts": f, "plugin_resolvers": [x["name"] for x in (real.get(f["name"]) or {}).get("resolvers", [])],
                                   "verdict": verdict, "shape": {"mode": "any", "cause": verdict},
                                   "replay": "go/harness/c20 -mode table: for the listed schema (federation version %d) plugin/federation gives entity type %s %d resolver(s) for %d @key(s)%s" % (
                                       r["version"], f["name"], max(nres, 0), f["keys"],
                                       ": every representation {__typename:%s,...} in _entities is answered null with `unknown type: %s` instead of the entity resolved from it" % (f["name"], f["name"]) if verdict == "resolvable-entity-without-resolver" else "")})
            elif r.get("panic") or _norm_table(r.get("real")) != _norm_table(r.get("derived")):
                div += 1
                st["schema_div"] = st.get("schema_div", 0) + 1
                if st["schema_div"] <= 2:
                    ctx.violation({"kind": "correspondence", "what": "entity table of a generated schema", "federation_version": r["version"],
                                   "schema": r["schema"], "plugin": r.get("real"), "derived_from_schema": r.get("derived"), "panic": r.get("panic"),
                                   "shape": {"why": "entity-table"},
                                   "replay": "go/harness/c20 -mode table: plugin/federation computes another entity table for the listed schema than the schema text says"},
                                  no_failing_input=True)
        else:
            st["dist"]["fieldset"] += 1
            if r.get("panic") or (r.get("out") or []) != (r.get("want") or []):
                div += 1
                if div <= 3:
                    ctx.violation({"kind": "fieldset", "raw": r["raw"], "impl": r.get("out"), "expected": r.get("want"), "panic": r.get("panic"),
                                   "shape": {"why": "fieldset"},
                                   "replay": "fieldset.New(%r, nil) = %r, the field set's leaf paths are %r" % (r["raw"], r.get("out"), r.get("want"))})
    return len(rows), div


def race_run(ctx, hbin, variant, st, key):
    pkg = "c20_" + variant
    out = os.path.join(vf.CACHE, "srv_%s_race_%s" % (pkg, key))
    try:
        if not os.path.exists(out):
            for f in os.listdir(vf.CACHE):
                if f.startswith("srv_%s_race" % pkg):
                    os.remove(os.path.join(vf.CACHE, f))
            ctx.go_build("./genout/%s/cmd" % pkg, out, race=True)
    except (RuntimeError, OSError) as e:
        st["race"] = "race build failed: " + str(e)[-300:]
        return
    rc, so, se = vf.sh([hbin, "-mode", "cases", "-variant", variant, "-seed", str(ctx.seed), "-tier", "quick"], cwd=vf.GO, timeout=600)
    rc, so2, se2 = vf.sh([out], inp=so, timeout=2400, env={"GORACE": "halt_on_error=0"})
    ncases = len([l for l in so.split(chr(10)) if l])
    if "DATA RACE" in se2:
        st["race"] = "DATA RACE reported"
        ctx.violation({"kind": "race", "variant": variant, "report": se2[:6000], "shape": {"race": True},
                       "replay": "generated probe %s built with -race, the %d cases of seed %d: the race detector reports unsynchronised accesses between goroutines of __resolve_entities (a schedule exists in which an element is not the entity of its own representation)" % (variant, ncases, ctx.seed)},
                      no_failing_input=True)
    else:
        st["race"] = "no race reported on %d cases (variant %s)" % (ncases, variant)
