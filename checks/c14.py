"""C14 - the complexity limit is a sound gate: over-limit operations execute nothing."""
from collections import Counter
from lib import vf

MAXINT = 9223372036854775807


def _calc_line(r):
    return "calc %s %s %s %s" % (r[1], r[2], r[3], r[4])


def run(ctx):
    ctx.assumptions += [
        "gqlparser (parser, validator, VariableValues, Field.ArgumentMap, Schema.PossibleTypes) is library code: the model starts from the validated AST the walker receives; arg2map is modelled (resolveArgs) and compared on every case",
        "custom complexity functions are the user's code: the theorems quantify over all of them (as total functions returning a Go int); the correspondence samples them from the shared expression language (constant / a*child+b / args[name]*child+b, incl. negative and near-MaxInt values)",
        "ExecutableSchema.Exec is the only entry to resolvers (graphql/executor/executor.go DispatchOperation is its only caller); 'no resolver runs' is observed as 'Exec is not called'",
        "the walker model is hand-written and tied by differential runs; safeAdd/maxInt are re-translated from source on every run (Gen/SafeAdd.lean)",
    ]
    ok_extract = ctx.extract("SafeAdd")
    proved = ok_extract and ctx.prove(props=["GqlgenVerif.Props.C14"])
    if ok_extract and not proved:
        ctx.cov["proof_failure"] = ctx.proof_failure
    have_model = ok_extract and getattr(ctx, "driver_ok", False)

    rc, so, se = ctx.harness("c14", ["-tier", ctx.tier, "-seed", ctx.seed])
    if rc != 0:
        raise RuntimeError("harness failed: " + se[-2000:])
    rows = [l.split("\t") for l in so.split("\n") if l]
    kinds = Counter(r[0] for r in rows)
    sas = [r for r in rows if r[0] == "sa"]
    calcs = [r for r in rows if r[0] == "calc"]
    gates = [r for r in rows if r[0] == "gate"]
    bads = [r for r in rows if r[0] == "bad"]
    maxint = [r for r in rows if r[0] == "maxint"]

    # ---- model side: one driver run over everything
    lines = ["maxint"]
    lines += ["sa %s %s" % (r[1], r[2]) for r in sas]
    lines += ["saspec %s %s" % (r[1], r[2]) for r in sas]
    lines += [_calc_line(r) for r in calcs]
    lines += [_calc_line(r) for r in gates]
    if have_model:
        model = ctx.driver("c14", lines)
        if len(model) != len(lines):
            raise RuntimeError("driver returned %d lines for %d inputs" % (len(model), len(lines)))
    else:
        model = [None] * len(lines)
    k = 0
    m_maxint = model[k]; k += 1
    m_sa = model[k:k + len(sas)]; k += len(sas)
    m_saspec = model[k:k + len(sas)]; k += len(sas)
    m_calc = model[k:k + len(calcs)]; k += len(calcs)
    m_gcalc = model[k:k + len(gates)]; k += len(gates)

    branch = Counter()
    nontriv = set()
    ndiv = 0

    def sa_spec_py(a, b):
        # the right-hand side of safeAdd_spec, evaluated independently (used when the Lean side cannot be built)
        return 1 if a < 0 and b < 0 else min(MAXINT, max(a, 0) + max(b, 0))

    # ---- maxInt
    if maxint:
        if maxint[0][1] != str(MAXINT) or (m_maxint is not None and m_maxint != maxint[0][1]):
            ndiv += 1
            ctx.violation({"kind": "correspondence", "what": "maxInt", "impl": maxint[0][1], "model": m_maxint,
                           "shape": {"part": "maxInt"},
                           "replay": "complexity.maxInt = %s, expected %d" % (maxint[0][1], MAXINT)},
                          no_failing_input=(maxint[0][1] == str(MAXINT)))

    # ---- safeAdd: implementation vs regenerated definition vs Spec
    sa_reported = 0
    for r, m, sp in zip(sas, m_sa, m_saspec):
        a, b, impl = int(r[1]), int(r[2]), r[3]
        cls = ("neg" if a < 0 else "pos") + "/" + ("neg" if b < 0 else "pos")
        if a >= 0 and b >= 0 and a + b > MAXINT:
            cls += "+overflow"
        branch["safeAdd:" + cls] += 1
        nontriv.add("sa%s,%s" % (r[1], r[2]))
        spec = sp if sp not in (None, "bad-op") else str(sa_spec_py(a, b))
        if (m is not None and m != impl) or impl != spec:
            ndiv += 1
            if sa_reported < 6:
                sa_reported += 1
                failing = impl != spec
                ctx.violation({"kind": "correspondence", "case_kind": "safeAdd", "a": r[1], "b": r[2], "impl": impl,
                               "model_regenerated": m, "spec": spec,
                               "shape": {"part": "safeAdd", "class": cls},
                               "replay": "complexity.safeAdd(%s, %s) returned %s; the definition (saturating add ignoring negative operands) gives %s" % (r[1], r[2], impl, spec)},
                              no_failing_input=not failing)

    # ---- the walker: Calculate vs Lean walker vs Lean Spec vs Go reference
    calc_reported = 0
    for r, m in zip(calcs, m_calc):
        impl, oracle, tags = r[5], r[6], r[7]
        for t in tags.split(","):
            branch[t] += 1
        if tags != "plain":
            nontriv.add(r[2] + "|" + r[3] + "|" + r[4])
        mw, ms = (m.split(" ") + [None])[:2] if m not in (None, "bad-op") else (None, None)
        if m == "bad-op":
            raise RuntimeError("driver could not parse case: " + _calc_line(r)[:400])
        spec = ms if ms is not None else oracle
        if impl != spec or (mw is not None and mw != impl) or impl != oracle:
            ndiv += 1
            if calc_reported < 6:
                calc_reported += 1
                failing = impl != spec
                ctx.violation({"kind": "correspondence", "case_kind": "Calculate", "query": r[8], "customs": r[2], "vars": r[3],
                               "impl": impl, "model_walker": mw, "spec": ms, "go_reference": oracle, "tags": tags, "driver_line": _calc_line(r),
                               "shape": {"part": "walker", "tags": tags},
                               "replay": "complexity.Calculate on `%s` with custom costs {%s} and variables {%s} returned %s; the documented definition gives %s" % (r[8], r[2], r[3], impl, spec)},
                              no_failing_input=not failing)

    # ---- the gate: executor and HTTP handler vs the gate model on the Spec complexity
    gate_lines = []
    gate_specs = []
    for r, m in zip(gates, m_gcalc):
        if m in (None, "bad-op"):
            spec = None
        else:
            spec = m.split(" ")[1]
        gate_specs.append(spec)
        gate_lines.append("gate %s %s" % (spec if spec is not None else r[8], r[5]))
    if have_model:
        m_gate = ctx.driver("c14", gate_lines) if gate_lines else []
    else:
        m_gate = [None] * len(gates)
    gate_reported = 0
    for r, spec, mg in zip(gates, gate_specs, m_gate):
        limit, execs, code, stc, stl, hexecs, hcode, resolvers = r[5], r[6], r[7], r[8], r[9], r[10], r[11], r[13]
        gexecs, gcode = (r[15], r[16]) if len(r) > 16 else ("na", "na")
        c = int(spec) if spec is not None else None
        if c is None:
            # no model: fall back on the stats the implementation itself recorded
            c = int(stc) if stc != "-" else None
        if c is None:
            continue
        lim = int(limit)
        over = c > lim
        cls = "over-limit" if over else ("at-limit" if c == lim else "below-limit")
        if lim in (MAXINT, -MAXINT - 1) or lim < 0:
            cls += "+extreme-limit"
        branch["gate:" + cls] += 1
        nontriv.add("g" + r[2] + "|" + r[3] + "|" + r[4] + "|" + limit)
        want_exec, want_code = ("0", "COMPLEXITY_LIMIT_EXCEEDED") if over else ("1", "-")
        if mg is not None and mg != want_exec + " " + want_code:
            raise RuntimeError("gate model disagrees with its own specification: %r vs %r" % (mg, (want_exec, want_code)))
        bad = []
        if execs != want_exec or hexecs != want_exec:
            bad.append("exec-calls")
        if code != want_code or hcode != want_code:
            bad.append("error-code")
        if gexecs != "na" and (gexecs != want_exec or gcode != want_code):
            bad.append("get-transport")
        if over and resolvers != "0":
            bad.append("resolver-ran")
        if stc != str(c) and spec is not None:
            bad.append("stats-complexity")
        if stl != limit:
            bad.append("stats-limit")
        if bad:
            ndiv += 1
            if gate_reported < 6:
                gate_reported += 1
                # Spec of the property: over the limit => nothing runs and rejected; at/below => not rejected for complexity
                failing = ("get-transport" in bad) or (over and (execs != "0" or hexecs != "0" or resolvers != "0" or code != "COMPLEXITY_LIMIT_EXCEEDED" or hcode != "COMPLEXITY_LIMIT_EXCEEDED")) or \
                          ((not over) and ("COMPLEXITY_LIMIT_EXCEEDED" in (code, hcode) or execs != "1" or hexecs != "1")) or \
                          ("stats-complexity" in bad) or ("stats-limit" in bad)
                ctx.violation({"kind": "correspondence", "case_kind": "gate", "query": r[14], "customs": r[2], "vars": r[3], "limit": limit,
                               "complexity_by_definition": c, "class": cls, "differs": bad,
                               "impl": {"executor": {"exec_calls": execs, "code": code, "stats_complexity": stc, "stats_limit": stl, "resolver_calls": resolvers},
                                        "http": {"exec_calls": hexecs, "code": hcode, "status": r[12]},
                                        "http_get": {"exec_calls": gexecs, "code": gcode}},
                               "expected": {"exec_calls": want_exec, "code": want_code},
                               "shape": {"part": "gate", "class": cls.split("+")[0], "differs": ",".join(bad)},
                               "replay": "operation `%s` (custom costs {%s}, variables {%s}) has complexity %d; with FixedComplexityLimit(%s) the server called Exec %s time(s) (HTTP: %s) and answered code %s (HTTP: %s); expected Exec x%s, code %s" % (
                                   r[14], r[2], r[3], c, limit, execs, hexecs, code, hcode, want_exec, want_code)},
                              no_failing_input=not failing)

    # ---- malformed stream: must be stopped before the gate; Exec never runs; never blamed on complexity
    for r in bads:
        valid, limit, execs, code, hexecs, hcode = r[1], r[2], r[3], r[4], r[5], r[6]
        branch["malformed:" + (code if valid == "invalid" else "still-valid")] += 1
        if valid != "invalid":
            continue
        if execs != "0" or hexecs != "0" or code == "-" or hcode == "-" or code.startswith("panic") or "COMPLEXITY" in code:
            ndiv += 1
            ctx.violation({"kind": "correspondence", "case_kind": "malformed", "query": r[7], "limit": limit,
                           "impl": {"exec_calls": execs, "code": code, "http_exec_calls": hexecs, "http_code": hcode},
                           "shape": {"part": "malformed"},
                           "replay": "invalid operation `%s` reached Exec %s time(s) / answered %s" % (r[7], execs, code)})

    # ---- metamorphic Spec: a selection added at the top level never lowers the complexity (monotone_add_selection_top)
    monos = [r for r in rows if r[0] == "mono"]
    mono_reported = 0
    for r in monos:
        branch["mono:" + ("equal" if r[2] == r[3] else "increased")] += 1
        try:
            dec = int(r[2]) > int(r[3])
        except ValueError:
            dec = True
        if dec:
            ndiv += 1
            if mono_reported < 4:
                mono_reported += 1
                ctx.violation({"kind": "spec", "case_kind": "monotone", "customs": r[1], "before": r[2], "after": r[3],
                               "query_before": r[4], "query_after": r[5], "shape": {"part": "monotone-top"},
                               "replay": "adding a top-level selection lowered the complexity from %s to %s: `%s` -> `%s` with custom costs {%s}" % (r[2], r[3], r[4], r[5], r[1])})
    # ---- the Lean witness (monotone_add_selection_witness) replayed on the implementation: 9 then 8, as the definition says
    for r in [r for r in rows if r[0] == "witness"]:
        branch["witness:nonmonotone-custom"] += 1
        if (r[2], r[3]) != ("9", "8"):
            ndiv += 1
            ctx.violation({"kind": "correspondence", "case_kind": "witness", "impl": [r[2], r[3]], "expected": ["9", "8"],
                           "shape": {"part": "witness"},
                           "replay": "Calculate on `%s` / `%s` with {%s} returned %s / %s; the definition (and the Lean witness) gives 9 / 8" % (r[4], r[5], r[1], r[2], r[3])},
                          no_failing_input=False)

    # ---- a proof that no longer checks: look for a failing input, else say so
    if ok_extract and not proved:
        if not any(not nf for _, nf in ctx.violations):
            found = False
            if have_model:
                for r, m, sp in zip(sas, m_sa, m_saspec):
                    if m is not None and sp is not None and m != sp:
                        ctx.violation({"kind": "proof", "failing": ctx.proof_failure, "shape": {"part": "safeAdd"},
                                       "replay": "regenerated safeAdd(%s, %s) = %s but the definition gives %s; the implementation returns %s" % (r[1], r[2], m, sp, r[3])})
                        found = True
                        break
            if not found:
                ctx.violation({"kind": "proof", "failing": ctx.proof_failure}, no_failing_input=True)

    def pick(xs, i):
        return xs[i] if len(xs) > i else None

    ctx.cov.update({
        "evaluations": len(sas) + len(calcs) + len(gates) + len(bads) + len(monos) + 1,
        "distinct_nontrivial": len(nontriv),
        "rule": "safeAdd: exhaustive 20x20 boundary grid (min, min+1, +-max/2, -1..3, 2^31, 2^32, max/2-1..max/2+2, max-2..max) + seeded pairs around the overflow boundary; "
                "Calculate: 22 directed operations x 18+8 directed custom tables (+ custom pinned to children's cost -1/0/+1) + seeded random operations over 2 probe schemas + seeded random schemas "
                "(fragments nested and reused, inline fragments with/without type condition, interfaces incl. one without implementors, unions, aliases, Int arguments literal/null/variable/absent with defaults, "
                "@skip/@include, __schema/__type/__typename, mutations) x random custom tables; gate: every directed case at limit c-1/c/c+1 and random cases at c-1/c/c+1 + extreme limits, "
                "through executor.New, handler.New+transport.POST and handler.New+transport.GET (operationName given / omitted, multi-operation documents); seeded random schemas; metamorphic pairs (one selection added at the top level); malformed: mutated operations. Non-trivial = distinct case reaching a branch beyond default costs "
                "(custom used/ignored/negative/equal, saturation, interface, fragment, variable, __Schema skip), every safeAdd pair and every gate case",
        "input_distribution": dict(branch),
        "kinds": dict(kinds),
        "correspondence_divergences": ndiv,
        "samples": [x for x in [pick(sas, 150), pick(calcs, 40), pick(calcs, len(calcs) // 2), pick(gates, 7), pick(bads, 0)] if x],
        "model_available": bool(have_model),
    })
