"""C14 - the complexity limit is a sound gate: over-limit operations execute nothing."""
import os
import re
import shutil
from collections import Counter
from concurrent.futures import ThreadPoolExecutor
from lib import vf

MAXINT = 9223372036854775807


def _name_class(n):
    """how a schema spells a name, relative to the Go identifier derived from it"""
    cls = []
    if n[:1].islower():
        cls.append("lower-first")
    elif n[:1].isupper():
        cls.append("upper-first")
    if "_" in n:
        cls.append("underscore")
    if any(c.isdigit() for c in n):
        cls.append("digit")
    if len(n) > 1 and n.isupper():
        cls.append("all-caps")
    elif any(a.isupper() and b.isupper() for a, b in zip(n, n[1:])):
        cls.append("initialism")
    return "+".join(cls) or "other"


_OP_KIND = re.compile(r"\b(query|mutation|subscription)\s+Op\b")


def _op_kind(query):
    """the kind of the operation `Op` of a document = the root it runs on"""
    m = _OP_KIND.search(query)
    return m.group(1) if m else "query"


def _inst_parse(cfg):
    exts = []
    for e in ([] if cfg in ("-", "") else cfg.split(";")):
        h, p, c = e.split(":")
        exts.append((h, p, c))
    return exts


def _inst_spec_py(cfg, c_sent, c_alt):
    """ExtInstall.Spec.serve, evaluated independently (used when the Lean side cannot be built): every extension that
    implements P sees the parameters in Use order, then every extension that implements C - whatever else it implements -
    sees the operation context in Use order; first error wins; else Exec once."""
    exts = _inst_parse(cfg)
    cur, stats, calls = c_sent, "-", []
    for i, (h, p, c) in enumerate(exts):
        if "P" not in h:
            continue
        calls.append("P%d" % i)
        if p.startswith("f"):
            return "0 %s %s %s" % (p[1:], stats, ",".join(calls))
        if p == "r":
            cur = c_alt
    for i, (h, p, c) in enumerate(exts):
        if "C" not in h:
            continue
        calls.append("C%d" % i)
        if c.startswith("f"):
            return "0 %s %s %s" % (c[1:], stats, ",".join(calls))
        if c.startswith("l"):
            lim = int(c[1:])
            stats = "%d/%d" % (cur, lim)
            if cur > lim:
                return "0 COMPLEXITY_LIMIT_EXCEEDED %s %s" % (stats, ",".join(calls))
    return "1 - %s %s" % (stats, ",".join(calls) or "-")


_HOOK_NAMES = {"P": "OperationParameterMutator", "C": "OperationContextMutator", "O": "OperationInterceptor", "R": "ResponseInterceptor",
               "T": "RootFieldInterceptor", "F": "FieldInterceptor"}


def _inst_describe(fams, cfg):
    """the configuration in words, for the replay line"""
    out = []
    for i, (f, (h, p, c)) in enumerate(zip(fams.split(";"), _inst_parse(cfg))):
        hooks = "+".join(_HOOK_NAMES[x] for x in h)
        lim = ("limit %s" % c[1:]) if c.startswith("l") else None
        if f == "k":
            d = "extension.FixedComplexityLimit(%s)" % c[1:]
        elif f == "e":
            d = "a type embedding *extension.ComplexityLimit (%s) that implements %s" % (lim, hooks)
        elif f == "a":
            d = "Around%s(pass-through)" % {"O": "Operations", "R": "Responses", "T": "RootFields", "F": "Fields"}[h]
        else:
            acts = []
            if "P" in h:
                acts.append({"p": "parameters: pass", "r": "parameters: replaces the query"}.get(p, "parameters: refuses with " + p[1:]))
            if "C" in h:
                acts.append("context: delegates to a ComplexityLimit (%s)" % lim if lim else {"p": "context: pass"}.get(c, "context: refuses with " + c[1:]))
            d = "a type implementing %s (%s)" % (hooks, "; ".join(acts) or "pass-through")
        out.append("#%d %s" % (i, d))
    return "Use order: " + " | ".join(out) if out else "no extension"


def _calc_line(r):
    return "calc %s %s %s %s" % (r[1], r[2], r[3], r[4])


def run(ctx):
    ctx.assumptions += [
        "gqlparser (parser, validator, VariableValues, Field.ArgumentMap, Schema.PossibleTypes) is library code: the model starts from the validated AST the walker receives; arg2map is modelled (resolveArgs) and compared on every case",
        "custom complexity functions are the user's code: the theorems quantify over all of them (as total functions returning a Go int); the correspondence samples them from the shared expression language (constant / a*child+b / args[name]*child+b, incl. negative and near-MaxInt values)",
        "ExecutableSchema.Exec is the only entry to resolvers (graphql/executor/executor.go DispatchOperation is its only caller); 'no resolver runs' is observed as 'Exec is not called'",
        "the walker model is hand-written and tied by differential runs; safeAdd/maxInt are re-translated from source on every run (Gen/SafeAdd.lean)",
        "installation of the limit: processExtensions, (*Executor).Use and the mutator loops of CreateOperationContext are re-translated from source on every run (Gen/ExtInstall.lean; type assertions AND type switches have a reading) and proved to register every extension for every hook it implements (Props/C14Install.lean); what an extension's hooks DO is the user's code: the theorems quantify over pass / refuse / rewrite-the-document parameter mutators and pass / refuse / ComplexityLimit context mutators, the tie runs real types for every subset of the six hook interfaces (stock, embedding and delegating carriers); a context mutator that edits the parsed document or the variables after the gate is not modelled",
    ]
    ctx.assumptions += [
        "generated servers: the binding of schema fields to Go fields is the one DECLARED by the project the harness writes (an explicit @goField(name:) / fieldName / a name equal up to case and underscores, each matching exactly one field or method of the hand-written model); that gqlgen's binder resolves these declarations to that Go field is observed (the entries of the generated ComplexityRoot are compared with the declared ones), not modelled",
        "the template part of the generated Complexity() switch: the switch tag, the spelling of the case labels, the guards (over $object.IsReserved / $field.IsReserved and the kind of the object: $object.Root, $object.Stream), the selectors of the nil check / the call and the ComplexityRoot declaration are regenerated per template flavour (Gen/ComplexityLabels.lean, go/extract/complexitylabels.go; text/template/parse) and proved Faithful (Props/C14Label.lean); the nesting of the ranges (`case` before the first member, body after the last) is recognised by the extractor (anything else is refused) and modelled by hand (Model/ComplexityLabel.lean, Model/ComplexitySwitch.lean) over the regenerated UniqueFields, tied by direct calls of the really generated Complexity() for every (type, field) of every generated project; argument unmarshalling (field_*_args) is executed, not modelled",
    ]
    ok_extract = ctx.extract("SafeAdd", "UniqueFields", "ComplexityLabels", "ExtInstall")
    proved = ok_extract and ctx.prove(props=["GqlgenVerif.Props.C14", "GqlgenVerif.Props.C14Gen", "GqlgenVerif.Props.C14Label", "GqlgenVerif.Props.C14Install"])
    if ok_extract and not proved:
        ctx.cov["proof_failure"] = ctx.proof_failure
    have_model = ok_extract and getattr(ctx, "driver_ok", False)

    rc, so, se = ctx.harness("c14", ["-tier", ctx.tier, "-seed", ctx.seed, "-instcorpus", os.path.join(vf.VERIF, "corpus", "C14", "installs.txt")])
    if rc != 0:
        raise RuntimeError("harness failed: " + se[-2000:])
    rows = [l.split("\t") for l in so.split("\n") if l]
    kinds = Counter(r[0] for r in rows)
    sas = [r for r in rows if r[0] == "sa"]
    calcs = [r for r in rows if r[0] == "calc"]
    gates = [r for r in rows if r[0] == "gate"]
    bads = [r for r in rows if r[0] == "bad"]
    maxint = [r for r in rows if r[0] == "maxint"]
    insts = [r for r in rows if r[0] == "inst"]

    # ---- model side: one driver run over everything
    lines = ["maxint"]
    lines += ["sa %s %s" % (r[1], r[2]) for r in sas]
    lines += ["saspec %s %s" % (r[1], r[2]) for r in sas]
    lines += [_calc_line(r) for r in calcs]
    lines += [_calc_line(r) for r in gates]
    lines += ["inst %s %s %s" % (r[2], r[3], r[4]) for r in insts]
    if have_model:
        model = ctx.driver("c14", lines)
        if len(model) != len(lines):
            raise RuntimeError("driver returned %d lines for %d inputs" % (len(model), len(lines)))
    else:
        model = [None] * len(lines)
    k = 0
    m_maxint = model[k]; k += 1
    m_sa = model[k:k + len(sas)]; k += len(sas)
    m_saspec = model[k:k + len(sas)]; k += len(sas)
    m_calc = model[k:k + len(calcs)]; k += len(calcs)
    m_gcalc = model[k:k + len(gates)]; k += len(gates)
    m_inst = model[k:k + len(insts)]; k += len(insts)

    branch = Counter()
    nontriv = set()
    ndiv = 0

    def sa_spec_py(a, b):
        # the right-hand side of safeAdd_spec, evaluated independently (used when the Lean side cannot be built)
        return 1 if a < 0 and b < 0 else min(MAXINT, max(a, 0) + max(b, 0))

    # ---- maxInt
    if maxint:
        if maxint[0][1] != str(MAXINT) or (m_maxint is not None and m_maxint != maxint[0][1]):
            ndiv += 1
            ctx.violation({"kind": "correspondence", "what": "maxInt", "impl": maxint[0][1], "model": m_maxint,
                           "shape": {"part": "maxInt"},
                           "replay": "complexity.maxInt = %s, expected %d" % (maxint[0][1], MAXINT)},
                          no_failing_input=(maxint[0][1] == str(MAXINT)))

    # ---- safeAdd: implementation vs regenerated definition vs Spec
    sa_reported = 0
    for r, m, sp in zip(sas, m_sa, m_saspec):
        a, b, impl = int(r[1]), int(r[2]), r[3]
        cls = ("neg" if a < 0 else "pos") + "/" + ("neg" if b < 0 else "pos")
        if a >= 0 and b >= 0 and a + b > MAXINT:
            cls += "+overflow"
        branch["safeAdd:" + cls] += 1
        nontriv.add("sa%s,%s" % (r[1], r[2]))
        spec = sp if sp not in (None, "bad-op") else str(sa_spec_py(a, b))
        if (m is not None and m != impl) or impl != spec:
            ndiv += 1
            if sa_reported < 6:
                sa_reported += 1
                failing = impl != spec
                ctx.violation({"kind": "correspondence", "case_kind": "safeAdd", "a": r[1], "b": r[2], "impl": impl,
                               "model_regenerated": m, "spec": spec,
                               "shape": {"part": "safeAdd", "class": cls},
                               "replay": "complexity.safeAdd(%s, %s) returned %s; the definition (saturating add ignoring negative operands) gives %s" % (r[1], r[2], impl, spec)},
                              no_failing_input=not failing)

    # ---- the walker: Calculate vs Lean walker vs Lean Spec vs Go reference
    calc_reported = 0
    for r, m in zip(calcs, m_calc):
        impl, oracle, tags = r[5], r[6], r[7]
        for t in tags.split(","):
            branch[t] += 1
        if tags != "plain":
            nontriv.add(r[2] + "|" + r[3] + "|" + r[4])
        mw, ms = (m.split(" ") + [None])[:2] if m not in (None, "bad-op") else (None, None)
        if m == "bad-op":
            raise RuntimeError("driver could not parse case: " + _calc_line(r)[:400])
        spec = ms if ms is not None else oracle
        if impl != spec or (mw is not None and mw != impl) or impl != oracle:
            ndiv += 1
            if calc_reported < 6:
                calc_reported += 1
                failing = impl != spec
                ctx.violation({"kind": "correspondence", "case_kind": "Calculate", "query": r[8], "customs": r[2], "vars": r[3],
                               "impl": impl, "model_walker": mw, "spec": ms, "go_reference": oracle, "tags": tags, "driver_line": _calc_line(r),
                               "shape": {"part": "walker", "tags": tags},
                               "replay": "complexity.Calculate on `%s` with custom costs {%s} and variables {%s} returned %s; the documented definition gives %s" % (r[8], r[2], r[3], impl, spec)},
                              no_failing_input=not failing)

    # ---- the gate: executor and HTTP handler vs the gate model on the Spec complexity
    gate_lines = []
    gate_specs = []
    for r, m in zip(gates, m_gcalc):
        if m in (None, "bad-op"):
            spec = None
        else:
            spec = m.split(" ")[1]
        gate_specs.append(spec)
        gate_lines.append("gate %s %s" % (spec if spec is not None else r[8], r[5]))
    if have_model:
        m_gate = ctx.driver("c14", gate_lines) if gate_lines else []
    else:
        m_gate = [None] * len(gates)
    gate_reported = 0
    for r, spec, mg in zip(gates, gate_specs, m_gate):
        limit, execs, code, stc, stl, hexecs, hcode, resolvers = r[5], r[6], r[7], r[8], r[9], r[10], r[11], r[13]
        gexecs, gcode = (r[15], r[16]) if len(r) > 16 else ("na", "na")
        c = int(spec) if spec is not None else None
        if c is None:
            # no model: fall back on the stats the implementation itself recorded
            c = int(stc) if stc != "-" else None
        if c is None:
            continue
        lim = int(limit)
        over = c > lim
        cls = "over-limit" if over else ("at-limit" if c == lim else "below-limit")
        if lim in (MAXINT, -MAXINT - 1) or lim < 0:
            cls += "+extreme-limit"
        branch["gate:" + cls] += 1
        nontriv.add("g" + r[2] + "|" + r[3] + "|" + r[4] + "|" + limit)
        want_exec, want_code = ("0", "COMPLEXITY_LIMIT_EXCEEDED") if over else ("1", "-")
        if mg is not None and mg != want_exec + " " + want_code:
            raise RuntimeError("gate model disagrees with its own specification: %r vs %r" % (mg, (want_exec, want_code)))
        bad = []
        if execs != want_exec or hexecs != want_exec:
            bad.append("exec-calls")
        if code != want_code or hcode != want_code:
            bad.append("error-code")
        if gexecs != "na" and (gexecs != want_exec or gcode != want_code):
            bad.append("get-transport")
        if over and resolvers != "0":
            bad.append("resolver-ran")
        if stc != str(c) and spec is not None:
            bad.append("stats-complexity")
        if stl != limit:
            bad.append("stats-limit")
        if bad:
            ndiv += 1
            if gate_reported < 6:
                gate_reported += 1
                # Spec of the property: over the limit => nothing runs and rejected; at/below => not rejected for complexity
                failing = ("get-transport" in bad) or (over and (execs != "0" or hexecs != "0" or resolvers != "0" or code != "COMPLEXITY_LIMIT_EXCEEDED" or hcode != "COMPLEXITY_LIMIT_EXCEEDED")) or \
                          ((not over) and ("COMPLEXITY_LIMIT_EXCEEDED" in (code, hcode) or execs != "1" or hexecs != "1")) or \
                          ("stats-complexity" in bad) or ("stats-limit" in bad)
                ctx.violation({"kind": "correspondence", "case_kind": "gate", "query": r[14], "customs": r[2], "vars": r[3], "limit": limit,
                               "complexity_by_definition": c, "class": cls, "differs": bad,
                               "impl": {"executor": {"exec_calls": execs, "code": code, "stats_complexity": stc, "stats_limit": stl, "resolver_calls": resolvers},
                                        "http": {"exec_calls": hexecs, "code": hcode, "status": r[12]},
                                        "http_get": {"exec_calls": gexecs, "code": gcode}},
                               "expected": {"exec_calls": want_exec, "code": want_code},
                               "shape": {"part": "gate", "class": cls.split("+")[0], "differs": ",".join(bad)},
                               "replay": "operation `%s` (custom costs {%s}, variables {%s}) has complexity %d; with FixedComplexityLimit(%s) the server called Exec %s time(s) (HTTP: %s) and answered code %s (HTTP: %s); expected Exec x%s, code %s" % (
                                   r[14], r[2], r[3], c, limit, execs, hexecs, code, hcode, want_exec, want_code)},
                              no_failing_input=not failing)

    # ---- HOW the limit is installed: real extension types for every subset of the hook interfaces, in any order,
    # vs the server the regenerated processExtensions / CreateOperationContext describe vs the contract (Spec.serve)
    inst_reported = Counter()
    for r, m in zip(insts, m_inst):
        fams, cfg, c_sent, c_alt, under = r[1], r[2], int(r[3]), int(r[4]), r[5]
        impl = "%s %s %s %s" % (r[6], r[7], r[8], r[9])
        http = "%s %s %s" % (r[11], r[12], r[13])
        if m == "bad-op":
            raise RuntimeError("driver could not parse case: inst %s %s %s" % (cfg, c_sent, c_alt))
        if m is not None:
            t = m.split(" ")
            mm, spec = " ".join(t[:4]), " ".join(t[4:8])
            if spec != _inst_spec_py(cfg, c_sent, c_alt):
                raise RuntimeError("Lean Spec.serve and the check's own reading of the contract disagree on %s: %r vs %r" % (cfg, spec, _inst_spec_py(cfg, c_sent, c_alt)))
        else:
            mm, spec = None, _inst_spec_py(cfg, c_sent, c_alt)
        st = spec.split(" ")
        exts = _inst_parse(cfg)
        carriers = [(f, h) for f, (h, p, c) in zip(fams.split(";"), exts) if "C" in h and c.startswith("l")]
        for f, h in carriers:
            extra = "".join(x for x in h if x != "C")
            suffix = ""
            if "P" in extra:
                suffix = "+param" + ("+interceptors" if len(extra) > 1 else "")
            elif extra:
                suffix = "+interceptors"
            branch["inst:carrier:" + {"k": "stock", "e": "embedding", "w": "delegating"}[f] + suffix] += 1
        branch["inst:limits:%d" % min(len(carriers), 3)] += 1
        branch["inst:extensions:%d" % len(exts)] += 1
        if any("P" in h and p == "r" for h, p, c in exts):
            branch["inst:document-rewritten"] += 1
        outcome = "executed" if st[0] == "1" else ("over-limit" if st[1] == "COMPLEXITY_LIMIT_EXCEEDED" else "refused-by-other-mutator")
        branch["inst:" + outcome] += 1
        nontriv.add("i%s|%s|%s|%s|%s" % (fams, cfg, r[15], r[16], r[17]))
        http_spec = "%s %s %s" % (st[0], st[1], st[3])
        bad = []
        if impl != spec:
            bad.append("executor")
        if http != http_spec:
            bad.append("http")
        if st[0] == "0" and r[10] != "0":
            bad.append("resolver-ran")
        if mm is not None and mm != impl:
            bad.append("model")
        if bad:
            ndiv += 1
            failing = bad != ["model"]
            kind = "failing" if failing else "model-only"
            if inst_reported[kind] < 4:
                inst_reported[kind] += 1
                multi = any(len(h) > 1 for f, h in carriers)
                ctx.violation({"kind": "correspondence", "case_kind": "installed limit", "families": fams, "cfg": cfg, "query": r[17], "query_substituted_by_rewrite": r[18],
                               "customs": r[15], "vars": r[16], "complexity_sent": c_sent, "complexity_alt": c_alt, "limit_under_test": under, "differs": bad,
                               "impl": {"executor": {"exec_calls": r[6], "code": r[7], "stats": r[8], "mutator_calls": r[9], "resolver_calls": r[10]},
                                        "http": {"exec_calls": r[11], "code": r[12], "mutator_calls": r[13]}, "interceptor_calls_O/R/T/F": r[14]},
                               "model_regenerated": mm, "spec": spec, "driver_line": "inst %s %s %s" % (cfg, c_sent, c_alt),
                               "shape": {"part": "install", "outcome": outcome, "differs": ",".join(bad), "carrier_implements_more_hooks": multi},
                               "replay": "%s; operation `%s` (custom costs {%s}, variables {%s}) has complexity %d%s: the server called Exec %s time(s) (HTTP: %s), code %s (HTTP: %s), recorded complexity/limit %s, mutator hooks called [%s]; the contract gives Exec x%s, code %s, %s, hooks [%s]" % (
                                   _inst_describe(fams, cfg), r[17], r[15], r[16], c_sent,
                                   (" (a parameter mutator substitutes `%s`, complexity %d)" % (r[18], c_alt)) if any("P" in h and p == "r" for h, p, c in exts) else "",
                                   r[6], r[11], r[7], r[12], r[8], r[9], st[0], st[1], st[2], st[3])},
                              no_failing_input=not failing)

    # ---- malformed stream: must be stopped before the gate; Exec never runs; never blamed on complexity
    for r in bads:
        valid, limit, execs, code, hexecs, hcode = r[1], r[2], r[3], r[4], r[5], r[6]
        branch["malformed:" + (code if valid == "invalid" else "still-valid")] += 1
        if valid != "invalid":
            continue
        if execs != "0" or hexecs != "0" or code == "-" or hcode == "-" or code.startswith("panic") or "COMPLEXITY" in code:
            ndiv += 1
            ctx.violation({"kind": "correspondence", "case_kind": "malformed", "query": r[7], "limit": limit,
                           "impl": {"exec_calls": execs, "code": code, "http_exec_calls": hexecs, "http_code": hcode},
                           "shape": {"part": "malformed"},
                           "replay": "invalid operation `%s` reached Exec %s time(s) / answered %s" % (r[7], execs, code)})

    # ---- metamorphic Spec: a selection added at the top level never lowers the complexity (monotone_add_selection_top)
    monos = [r for r in rows if r[0] == "mono"]
    mono_reported = 0
    for r in monos:
        branch["mono:" + ("equal" if r[2] == r[3] else "increased")] += 1
        try:
            dec = int(r[2]) > int(r[3])
        except ValueError:
            dec = True
        if dec:
            ndiv += 1
            if mono_reported < 4:
                mono_reported += 1
                ctx.violation({"kind": "spec", "case_kind": "monotone", "customs": r[1], "before": r[2], "after": r[3],
                               "query_before": r[4], "query_after": r[5], "shape": {"part": "monotone-top"},
                               "replay": "adding a top-level selection lowered the complexity from %s to %s: `%s` -> `%s` with custom costs {%s}" % (r[2], r[3], r[4], r[5], r[1])})
    # ---- the Lean witness (monotone_add_selection_witness) replayed on the implementation: 9 then 8, as the definition says
    for r in [r for r in rows if r[0] == "witness"]:
        branch["witness:nonmonotone-custom"] += 1
        if (r[2], r[3]) != ("9", "8"):
            ndiv += 1
            ctx.violation({"kind": "correspondence", "case_kind": "witness", "impl": [r[2], r[3]], "expected": ["9", "8"],
                           "shape": {"part": "witness"},
                           "replay": "Calculate on `%s` / `%s` with {%s} returned %s / %s; the definition (and the Lean witness) gives 9 / 8" % (r[4], r[5], r[1], r[2], r[3])},
                          no_failing_input=False)

    # ---- the GENERATED Complexity() switch: projects generated now from /repo's templates, really executed
    gstats = run_generated(ctx, have_model, branch, nontriv)
    ndiv += gstats["divergences"]

    # ---- a proof that no longer checks: look for a failing input, else say so
    if ok_extract and not proved:
        if not any(not nf for _, nf in ctx.violations):
            found = False
            if have_model:
                for r, m, sp in zip(sas, m_sa, m_saspec):
                    if m is not None and sp is not None and m != sp:
                        ctx.violation({"kind": "proof", "failing": ctx.proof_failure, "shape": {"part": "safeAdd"},
                                       "replay": "regenerated safeAdd(%s, %s) = %s but the definition gives %s; the implementation returns %s" % (r[1], r[2], m, sp, r[3])})
                        found = True
                        break
            if not found:
                ctx.violation({"kind": "proof", "failing": ctx.proof_failure}, no_failing_input=True)

    def pick(xs, i):
        return xs[i] if len(xs) > i else None

    ctx.cov.update({
        "evaluations": len(sas) + len(calcs) + len(gates) + len(bads) + len(monos) + len(insts) + 1 + gstats["evaluations"],
        "generated_servers": gstats,
        "distinct_nontrivial": len(nontriv),
        "rule": "safeAdd: exhaustive 20x20 boundary grid (min, min+1, +-max/2, -1..3, 2^31, 2^32, max/2-1..max/2+2, max-2..max) + seeded pairs around the overflow boundary; "
                "Calculate: 22 directed operations x 18+8 directed custom tables (+ custom pinned to children's cost -1/0/+1) + seeded random operations over 2 probe schemas + seeded random schemas "
                "(type and field names spelled with leading lower case / capitals / underscores / digits / initialisms; fragments nested and reused, inline fragments with/without type condition, interfaces incl. one without implementors, unions, aliases, Int arguments literal/null/variable/absent with defaults, "
                "@skip/@include, __schema/__type/__typename, mutations) x random custom tables; gate: every directed case at limit c-1/c/c+1 and random cases at c-1/c/c+1 + extreme limits, "
                "through executor.New, handler.New+transport.POST and handler.New+transport.GET (operationName given / omitted, multi-operation documents); "
                "INSTALLATION: the limit carried by the stock extension, by types embedding *ComplexityLimit and by types delegating to it, for every subset of the six hook interfaces (95 real types), "
                "1..5 extensions in any Use order incl. Around* conveniences, two limits, refusing parameter/context mutators before and after the limit, a parameter mutator that rewrites the document, "
                "directed configurations of corpus/C14/installs.txt x 5 operations + seeded configurations x random operations, each at limit c-1/c/c+1 (+ extreme), on executor.New and handler.New+POST, every mutator call logged; seeded random schemas; metamorphic pairs (one selection added at the top level); malformed: mutated operations. Non-trivial = distinct case reaching a branch beyond default costs "
                "(custom used/ignored/negative/equal, saturation, interface, fragment, variable, __Schema skip), every safeAdd pair and every gate case; "
                "generated servers: directed projects of corpus/C14/genprojects.txt + seeded random projects (2..4 hand-written models, groups of 1..3 schema fields bound to one Go struct field / method through "
                "@goField(name:), fieldName configuration or names equal up to case/underscore, members shuffled so the by-name member is first/middle/last, forced resolvers next to a shared name, scalar/object-typed/method-with-arguments groups; "
                "NAMES: every type (objects, interface, union, renamed query/mutation roots) and every field respelled per project: leading lower case / capital, snake_case, ALL CAPS, digits, initialisms, trailing underscore, "
                "spellings that collide after Go mangling = one shared entry; every random project has a hand-written and a generated model whose type name starts lower-case; directed project d3; "
                "ROOTS: every random project has a Query, a Mutation and a Subscription root (renamed / respelled, in any order; d1 and d3 all three, d2 Query + Subscription), custom functions on fields of each root, "
                "operations of each kind (a subscription = one root field, direct / through an inline fragment / through a fragment on the root; its resolver returns a channel; over HTTP through transport.SSE), "
                "one operation per field of every root x {constant 1000, 3*child+7, first Int argument x child, no entry} at c-1/c/c+1), "
                "each generated in both layouts (generated!.gotpl single file; root_.gotpl follow-schema + function syntax): Complexity() asked directly for every (type, field) incl. interfaces/unions/__Type/unknown names, "
                "every field of every hand-written model x one table per shared entry, corpus operations x corpus tables, seeded random operations x random ComplexityRoot tables, the gate at c-1/c/c+1 with counting resolvers",
        "input_distribution": dict(branch),
        "kinds": dict(kinds),
        "correspondence_divergences": ndiv,
        "samples": [x for x in [pick(sas, 150), pick(calcs, 40), pick(calcs, len(calcs) // 2), pick(gates, 7), pick(insts, 100), pick(bads, 0)] if x],
        "model_available": bool(have_model),
    })


def run_generated(ctx, have_model, branch, nontriv):
    """The generated `executableSchema.Complexity` switch in the tie: gqlgen projects whose schema fields are bound
    many-to-one to Go fields are generated NOW with /repo's templates, built and executed (go/harness/c14/genproj.go,
    genrun.go.txt). Implementation = the generated code; Model = Model/ComplexitySwitch.lean over the regenerated
    UniqueFields; Spec = the declared binding (Spec.entryOf / Spec.boundCustom, and the harness's own expansion fed to
    the math/big reference)."""
    st = {"projects": 0, "evaluations": 0, "divergences": 0, "switch_calls": 0, "shared_entry_calls": 0, "calculate": 0, "gate": 0,
          "shared_entries": 0, "entries": 0}
    root = os.path.join(vf.GO, "genout", "c14")
    shutil.rmtree(root, ignore_errors=True)
    os.makedirs(root)
    corpus = os.path.join(vf.VERIF, "corpus", "C14", "genprojects.txt")
    rc, so, se = ctx.harness("c14", ["-mode", "genproj", "-out", root, "-corpus", corpus, "-tier", ctx.tier, "-seed", ctx.seed])
    if rc != 0:
        raise RuntimeError("harness genproj failed: " + se[-2000:])
    exp = {}
    order = []
    for l in so.split("\n"):
        if not l:
            continue
        r = l.split("\t")
        if r[0] == "gproj":
            exp[r[1]] = {"objs": r[2], "rows": []}
            order.append(r[1])
        elif r[0] in ("gcx", "gcalc", "ggate"):
            exp[r[1]]["rows"].append(r)
    gen_bin = os.path.join(vf.CACHE, "gen")
    ctx.go_build("./gen", gen_bin)
    env = vf.go_env()

    def build_run(p):
        d = os.path.join(root, p)
        rc, so, se = vf.sh([gen_bin, "-dir", d, "-nomain"], cwd=vf.GO, env=env, timeout=900)
        if rc != 0:
            return p, "generate", (so + se)[-3000:]
        rc, so, se = vf.sh(["go", "build", "-o", os.path.join(d, "run.bin"), "./genout/c14/%s/run" % p], cwd=vf.GO, env=env, timeout=900)
        if rc != 0:
            return p, "build", (so + se)[-3000:]
        rc, so, se = vf.sh([os.path.join(d, "run.bin"), os.path.join(d, "cases.tsv")], cwd=d, env=env, timeout=900)
        if rc != 0:
            return p, "run", (so + se)[-3000:]
        return p, "ok", so

    outs = {}
    with ThreadPoolExecutor(max_workers=8) as ex:
        for p, stage, o in ex.map(build_run, order):
            outs[p] = (stage, o)

    def files(p):
        d = os.path.join(root, p)
        res = {}
        for f in ("schema.graphql", "gqlgen.yml", "hand.go"):
            try:
                res[f] = open(os.path.join(d, f)).read()
            except OSError:
                pass
        return res

    def where(p):
        return "generated server %s (go/genout/c14/%s: schema.graphql + gqlgen.yml + hand.go, generated now by api.Generate from /repo, layout %s)" % (
            p, p, "follow-schema (root_.gotpl)" if p.endswith("f") else "single-file (generated!.gotpl)")

    # ---- model side, one driver run; each layout is asked of the STRING switch of its own template flavour
    # (labels, tag, guards and selectors regenerated from generated!.gotpl / root_.gotpl: Gen/ComplexityLabels.lean)
    lines, idx = [], {}

    def ask(line):
        if line not in idx:
            idx[line] = len(lines)
            lines.append(line)
        return idx[line]

    jobs = []
    for p in order:
        stage, o = outs[p]
        if stage != "ok":
            continue
        for r in exp[p]["rows"]:
            if r[0] == "gcx":
                jobs.append((p, r, ask("gencxl %s %s %s %s" % (p[-1], exp[p]["objs"], r[3], r[4]))))
            elif r[0] == "gcalc":
                jobs.append((p, r, ask("gencalcl %s %s %s %s %s %s" % (p[-1], r[4], r[5], r[3], r[7], r[8]))))
            else:
                jobs.append((p, r, None))
    model = ctx.driver("c14", lines) if (have_model and lines) else None
    if model is not None and len(model) != len(lines):
        raise RuntimeError("driver returned %d lines for %d generated-server inputs" % (len(model), len(lines)))

    reported = Counter()

    def report(what, obj, failing):
        st["divergences"] += 1
        if reported[what] < 4:
            reported[what] += 1
            ctx.violation(obj, no_failing_input=not failing)

    for p in order:
        stage, o = outs[p]
        st["projects"] += 1
        if stage != "ok":
            report("build", {"kind": "generation", "project": p, "stage": stage, "output": o[-3000:], "input": files(p),
                             "shape": {"part": "generated-switch", "what": "build", "stage": stage},
                             "replay": "%s: the project does not %s any more: %s" % (where(p), stage, o.strip().split("\n")[-1][:300] if o.strip() else "")}, False)
    got = {}
    for p in order:
        stage, o = outs[p]
        if stage != "ok":
            continue
        g = {"root": None}
        for l in o.split("\n"):
            r = l.split("\t")
            if r[0] == "root":
                g["root"] = sorted(x for x in r[1].split(" ") if x)
            elif r[0] in ("cx", "calc", "gate"):
                g[r[1]] = r
        got[p] = g
        # the entries of the generated ComplexityRoot are the declared Go fields, one per group
        declared = {}
        for r in exp[p]["rows"]:
            if r[0] == "gcx" and r[5] != "-":
                declared.setdefault(r[5], []).append(r[3] + "." + r[4])
        st["entries"] += len(declared)
        st["shared_entries"] += sum(1 for v in declared.values() if len(v) > 1)
        if g["root"] != sorted(declared):
            report("root", {"kind": "correspondence", "case_kind": "ComplexityRoot", "project": p, "impl": g["root"], "declared": sorted(declared), "input": files(p),
                            "shape": {"part": "generated-switch", "what": "root"},
                            "replay": "%s: the generated ComplexityRoot has entries %s; the declared binding has %s" % (
                                where(p), sorted(set(g["root"] or []) - set(declared)), sorted(set(declared) - set(g["root"] or [])))}, False)

    last_spec = {}
    for p, r, li in jobs:
        g = got[p].get(r[2])
        m = model[li] if (model is not None and li is not None) else None
        if m == "bad-op":
            raise RuntimeError("driver could not parse generated-server case: " + lines[li][:400])
        st["evaluations"] += 1
        if g is None:
            report("missing", {"kind": "correspondence", "project": p, "case": r[:3], "shape": {"part": "generated-switch", "what": "missing"},
                               "replay": "%s: the runner printed nothing for case %s" % (where(p), r[2])}, False)
            continue
        if r[0] == "gcx":
            t, f, want = r[3], r[4], r[5]
            impl, nilok = g[2], g[3]
            mm, ms = (m.split(" ") + [None])[:2] if m is not None else (None, None)
            st["switch_calls"] += 1
            shared = want != "-" and sum(1 for x in exp[p]["rows"] if x[0] == "gcx" and x[5] == want) > 1
            if shared:
                st["shared_entry_calls"] += 1
            branch["gen:switch:" + ("shared-entry" if shared else ("own-entry" if want != "-" else "no-entry"))] += 1
            if want != "-":
                # the NAMES dimension: how the schema spells the type and the field whose clause is asked for
                branch["gen:type-name:" + _name_class(t)] += 1
                branch["gen:field-name:" + _name_class(f)] += 1
            nontriv.add("gx%s|%s|%s" % (p, t, f))
            if impl != want or nilok != "0" or (ms is not None and ms != want) or (mm is not None and mm != impl):
                failing = impl != want or nilok != "0"
                report("dispatch", {"kind": "correspondence", "case_kind": "generated Complexity()", "project": p, "type": t, "field": f,
                                    "impl_entry_called": impl, "impl_ok_with_nil_root": nilok, "declared_entry": want, "model_switch": mm, "spec_binding": ms, "input": files(p),
                                    "shape": {"part": "generated-switch", "what": "dispatch", "shared": shared},
                                    "replay": "%s: executableSchema.Complexity(ctx, %r, %r, 7, args) with every ComplexityRoot function set called %s; the field is bound to %s" % (
                                        where(p), t, f, impl if impl != "-" else "no function (returned 0,false: default cost)", want if want != "-" else "no entry")},
                       failing)
        elif r[0] == "gcalc":
            sch, objs, ents, cus, vs, doc, oracle, tags, query = r[3:12]
            impl = g[2]
            mw, ms = (m.split(" ") + [None])[:2] if m is not None else (None, None)
            spec = ms if ms is not None else oracle
            last_spec[p] = spec
            st["calculate"] += 1
            kind = _op_kind(query)
            branch["gen:root:" + kind] += 1
            # the ROOT dimension: is a function configured for a field of the root the operation runs on?
            root_types = [o.split(":")[0] for o in objs.split(";") if "+Root" in o.split(":")[1]]
            if any(k.split(".")[0] in root_types for k in ([] if ents == "-" else ents.split(";"))):
                branch["gen:root:" + kind + ":custom-cost-on-a-root-field"] += 1
            for t in tags.split(","):
                branch["gen:" + t] += 1
            nontriv.add("gc%s|%s|%s|%s" % (p, ents, vs, doc))
            if impl != spec or impl != oracle or (mw is not None and mw != impl):
                failing = impl != spec or impl != oracle
                report("calculate", {"kind": "correspondence", "case_kind": "Calculate on a generated server", "project": p, "query": query, "complexity_root": ents,
                                     "customs_by_schema_field": cus, "vars": vs, "impl": impl, "model_walker_over_switch": mw, "spec": ms, "go_reference": oracle, "tags": tags,
                                     "driver_line": lines[li] if li is not None else None, "input": files(p),
                                     "shape": {"part": "generated-switch", "what": "calculate"},
                                     "replay": "%s: complexity.Calculate on `%s` with ComplexityRoot {%s} and variables {%s} returned %s; the documented definition (each field costs what the function of its Go field says: {%s}) gives %s" % (
                                         where(p), query, ents, vs, impl, cus, spec)}, failing)
        else:
            sch, objs, ents, cus, vs, doc, limit, oracle, query = r[3:12]
            calls, code, stc, stl, hcalls, hcode, hstatus = g[2:9]
            c = int(last_spec.get(p) or oracle)
            if last_spec.get(p) is None or str(last_spec.get(p)) != oracle:
                c = int(oracle)
            lim = int(limit)
            over = c > lim
            st["gate"] += 1
            branch["gen:gate:" + ("over-limit" if over else ("at-limit" if c == lim else "below-limit"))] += 1
            kind = _op_kind(query)
            branch["gen:gate:%s:%s" % (kind, "over-limit" if over else "within-limit")] += 1
            nontriv.add("gg%s|%s|%s|%s|%s" % (p, ents, vs, doc, limit))
            bad = []
            if over:
                if calls != "0" or hcalls != "0":
                    bad.append("resolver-ran")
                if code != "COMPLEXITY_LIMIT_EXCEEDED" or hcode != "COMPLEXITY_LIMIT_EXCEEDED":
                    bad.append("not-rejected")
            else:
                if "COMPLEXITY_LIMIT_EXCEEDED" in (code, hcode):
                    bad.append("rejected")
                if code.startswith("panic"):
                    bad.append("panic")
            if stc != str(c):
                bad.append("stats-complexity")
            if stl != limit:
                bad.append("stats-limit")
            if bad:
                # an over-limit operation that ran is THE failing input of the property: reported in its own right, not crowded
                # out by the within-limit rows (wrong recorded complexity) that come first in the stream
                report("gate:ran-over-limit" if (over and "resolver-ran" in bad) else "gate", {"kind": "correspondence", "case_kind": "gate on a generated server", "project": p, "query": query, "complexity_root": ents, "customs_by_schema_field": cus,
                                "vars": vs, "limit": limit, "complexity_by_definition": c, "differs": bad,
                                "impl": {"executor": {"resolver_calls": calls, "code": code, "stats_complexity": stc, "stats_limit": stl},
                                         "http": {"resolver_calls": hcalls, "code": hcode, "status": hstatus}}, "input": files(p),
                                "operation_kind": kind, "http_transport": "SSE (POST, Accept: text/event-stream)" if kind == "subscription" else "POST",
                                "shape": {"part": "generated-switch", "what": "gate", "class": "over-limit" if over else "within-limit", "differs": ",".join(bad)},
                                "replay": "%s: operation `%s` with ComplexityRoot {%s} and variables {%s} has complexity %d; with FixedComplexityLimit(%s) the generated server ran %s resolver(s) (HTTP%s: %s), code %s (HTTP: %s), recorded complexity %s; expected %s" % (
                                    where(p), query, ents, vs, c, limit, calls, " SSE" if kind == "subscription" else "", hcalls, code, hcode, stc,
                                    "no resolver and COMPLEXITY_LIMIT_EXCEEDED" if over else "no complexity rejection")}, True)
    return st
