import Driver.Util
import GqlgenVerif.Model.Order
import GqlgenVerif.Model.Naming
/-! Line-protocol driver for C18: the order model on the harness's cases.

  order <decl>|<decl>…   the package-level identifiers of the model file in the order the generator must write them
                         (interfaces, models, enums each sorted by name; enum = type, constants, All… var), as
                         predicted from a schema summary given in ANY order (same decl syntax as driver_c17 `emit`)
  sort <hex>,<hex>…      `sort.Slice(…, Name <)` on names
-/
open GqlgenVerif GqlgenVerif.Naming
namespace Driver.C18

def ofHex (h : String) : Option Name := unhex h
def toHex (n : Name) : String := hex (bytesOf (String.ofList (n.map Char.ofNat)))

def hexList (s : String) : Option (List Name) :=
  if s = "" then some [] else (s.splitOn ",").mapM ofHex

def parseField (s : String) : Option FieldDecl :=
  match s.splitOn "/" with
  | [] => none
  | n :: args => do pure { name := ← ofHex n, args := ← args.mapM ofHex }

def parseDecl (s : String) : Option TypeDecl :=
  match s.splitOn ":" with
  | [k, n, impls, fields, values] => do
    let kind ← (match k with | "i" => some Kind.iface | "m" => some Kind.model | "e" => some Kind.enum | "r" => some Kind.root | _ => none)
    let fs ← if fields = "" then some [] else (fields.splitOn ",").mapM parseField
    pure { kind := kind, name := ← ofHex n, impls := ← hexList impls, fields := fs, values := ← hexList values }
  | _ => none

def step (line : String) : String :=
  match line.splitOn " " with
  | ["order", ds] =>
    match (ds.splitOn "|").mapM parseDecl with
    | some ts => ",".intercalate ((inScope Scope.pkg (emittedModels ts).1).map toHex)
    | none => "bad-op"
  | ["sort", l] =>
    match hexList l with
    | some ns => ",".intercalate ((Order.sortByKey id ns).map toHex)
    | none => "bad-op"
  | _ => "bad-op"

end Driver.C18

def main : IO Unit := do
  Driver.loop (← IO.getStdin) (← IO.getStdout) Driver.C18.step
