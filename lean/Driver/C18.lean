import Driver.Util
/-! Line-protocol driver for C18 (not built yet). -/
namespace Driver.C18
def step (_line : String) : String := "bad-op"
end Driver.C18

def main : IO Unit := do
  Driver.loop (← IO.getStdin) (← IO.getStdout) Driver.C18.step
