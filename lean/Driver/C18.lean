import GqlgenVerif.Props.C18Start
import GqlgenVerif.Props.C18Names
import Driver.Util
import GqlgenVerif.Model.Order
import GqlgenVerif.Model.Naming
import GqlgenVerif.Model.CyclePass
import GqlgenVerif.Model.Imports
import GqlgenVerif.Gen.ResolverImports
import GqlgenVerif.Model.Regenerate
import GqlgenVerif.Gen.GenerateSteps
import GqlgenVerif.Model.PerSchema
import GqlgenVerif.Gen.PerSchemaSteps
import GqlgenVerif.Model.ExtraFields
import GqlgenVerif.Model.RenderOrder
import GqlgenVerif.Gen.RenderOrder
import GqlgenVerif.Model.IndexDefs
import GqlgenVerif.Gen.IndexDefs
/-! Line-protocol driver for C18: the order model on the harness's cases.

  order <decl>|<decl>…   the package-level identifiers of the model file in the order the generator must write them
                         (interfaces, models, enums each sorted by name; enum = type, constants, All… var), as
                         predicted from a schema summary given in ANY order (same decl syntax as driver_c17 `emit`)
  sort <hex>,<hex>…      `sort.Slice(…, Name <)` on names
  cyc <model>|<model>…   modelgen's pointer decisions (`struct_fields_always_pointers: false`) for the generated structs
                         given in ANY order: model = Name:field/Target/v,field/Target/o… (v = struct value field, plain
                         ASCII names); answer Name:field=p|v|-,…;… sorted by name (p = value turned into a pointer,
                         v = stays a value, - = was no value field); `cycraw` = the pass WITHOUT the sort
  regen <own> <path=name;…> <path;…>   import aliases: first rendering (lookups in the given order from an empty table),
                         then re-generation over that output ((*File).Imports as regenerated in Gen/ResolverImports
                         re-reserves the file's imports, sorted by path) and the same lookups: `first=a,b second=a,b`
  gen2 <types,…> <hand,…> <0|1>       two runs of api.Generate (steps in the order regenerated in Gen/GenerateSteps) on the
                         tree model of Model/Regenerate.lean: schema types that need a Go type, types declared by
                         hand-written files of the model package (`-` = none), model package autobound; answer
                         `first=ok|fail models=a,b|- exec=0|1 second=ok|fail models=… exec=…`
  pins <pass>=<file>@<src>,…;<pass>=… <dir>@<src>,…|- <file>,…   generatePerSchema on the model of Model/PerSchema.lean:
                         per pass (addObjects, addInputs, addInterfaces, addReferencedTypes) its elements in DELIVERY order
                         (output file @ schema source); the passes run in the order regenerated in Gen/PerSchemaSteps;
                         directives with arguments (name @ source); answer `covered=0|1 <file>=<pinned src|->:<dir>,…;…`
                         (which source each queried output file is pinned to and the dir_<name>_args functions it gets)
  xf <name>/<type>,…|- <type>,…|-   getExtraFields: named extra fields in the order the map delivered them, embedded ones;
                         answer: the struct's extra fields in order, `name` or `~type`
  roots <name>,…|-       templates.Render: the template names in the order t.Templates() DELIVERED them (plain ASCII); the root
                         filter and the comparator are the regenerated ones (Gen/RenderOrder); answer: the roots in execution order
  idx <name>/<obj>/<x|n|p|s>,… <lookup>,…   binder indexDefs + FindObject on the entries of TypesInfo.Defs in DELIVERY order
                         (x = nil object, n = no parent scope, p = package scope, s = nested scope; obj = a number), guards and
                         first-wins as regenerated in Gen/IndexDefs; answer `<lookup>=<obj|->,…`
-/
open GqlgenVerif GqlgenVerif.Naming
namespace Driver.C18

def ofHex (h : String) : Option Name := unhex h
def toHex (n : Name) : String := hex (bytesOf (String.ofList (n.map Char.ofNat)))

def hexList (s : String) : Option (List Name) :=
  if s = "" then some [] else (s.splitOn ",").mapM ofHex

def parseField (s : String) : Option FieldDecl :=
  match s.splitOn "/" with
  | [] => none
  | n :: args => do pure { name := ← ofHex n, args := ← args.mapM ofHex }

def parseDecl (s : String) : Option TypeDecl :=
  match s.splitOn ":" with
  | [k, n, impls, fields, values] => do
    let kind ← (match k with | "i" => some Kind.iface | "m" => some Kind.model | "e" => some Kind.enum | "r" => some Kind.root | _ => none)
    let fs ← if fields = "" then some [] else (fields.splitOn ",").mapM parseField
    pure { kind := kind, name := ← ofHex n, impls := ← hexList impls, fields := fs, values := ← hexList values }
  | _ => none

def asciiName (s : String) : List Nat := s.toList.map Char.toNat

def parseCField (s : String) : Option CyclePass.CField :=
  match s.splitOn "/" with
  | [n, t, k] => some { name := asciiName n, target := asciiName t, val := k == "v" }
  | _ => none

def parseCModel (s : String) : Option CyclePass.CModel :=
  match s.splitOn ":" with
  | [n, fs] => do
    let fields ← if fs = "" then some [] else (fs.splitOn ",").mapM parseCField
    pure { name := asciiName n, fields := fields }
  | _ => none

def showCyc (input output : List CyclePass.CModel) : String :=
  ";".intercalate (output.map fun m =>
    Driver.ascii m.name ++ ":" ++ ",".intercalate (m.fields.map fun f =>
      let was := (input.find? (·.name == m.name)).bind (fun a => (a.fields.find? (·.name == f.name)).map (·.val))
      Driver.ascii f.name ++ "=" ++ (if was != some true then "-" else if f.val then "v" else "p")))

def regen (own : String) (names : List (String × String)) (ps : List String) : String :=
  let nameOf := fun p => ((names.find? (·.1 == p)).map (·.2)).getD p
  let first := Imports.lookups nameOf own [] ps
  let file := first.1.mergeSort (fun a b => !(b.path < a.path))
  let second := Imports.lookups nameOf own (Imports.reReserve nameOf own Gen.ResolverImports.reserveAlias [] file) ps
  "first=" ++ ",".intercalate first.2 ++ " second=" ++ ",".intercalate second.2

def showRun (r : Regenerate.Tree × Bool) : String :=
  (if r.2 then "ok" else "fail") ++ " models=" ++ (match r.1.modelsFile with | some l => ",".intercalate l | none => "-")
    ++ " exec=" ++ (if r.1.execFile then "1" else "0")

def names (s : String) : List String := if s = "-" || s = "" then [] else s.splitOn ","

def parseElems (s : String) : List PerSchema.Elem :=
  (names s).filterMap fun x => match x.splitOn "@" with | [f, src] => some ⟨f, src⟩ | _ => none

def pinsOp (data dirs files : String) : String :=
  let passData : List (String × List PerSchema.Elem) := (data.splitOn ";").filterMap fun s =>
    match s.splitOn "=" with | [n, els] => some (n, parseElems els) | _ => none
  let run : PerSchema.Run := Gen.PerSchemaSteps.passes.map fun p =>
    (p.kind, ((passData.find? (·.1 == p.name)).map (·.2)).getD [])
  let b := PerSchema.pins (PerSchema.delivered run)
  let ds : List PerSchema.ArgDirective := (names dirs).filterMap fun x =>
    match x.splitOn "@" with | [n, src] => some ⟨n, src⟩ | _ => none
  "covered=" ++ (if PerSchema.coveredB (PerSchema.slicePart run) (PerSchema.mapPart run) then "1" else "0") ++ " "
    ++ ";".intercalate ((names files).map fun f =>
        f ++ "=" ++ (b f).getD "-" ++ ":" ++ ",".intercalate (PerSchema.argFuncs ds b f))

def xfOp (named embedded : String) : String :=
  let ns : List ExtraFields.XField := (names named).filterMap fun x =>
    match x.splitOn "/" with | n :: t => some ⟨asciiName n, asciiName ("/".intercalate t)⟩ | _ => none
  let es : List ExtraFields.XField := (names embedded).map fun t => ⟨[], asciiName t⟩
  ",".intercalate ((ExtraFields.extraFields ns es).map fun f =>
    if f.name.isEmpty then "~" ++ Driver.ascii f.typ else Driver.ascii f.name)

def rootsOp (ns : String) : String :=
  let imp := RenderOrder.hasSuffix (asciiName Gen.RenderOrder.importantSuffix)
  let delivered := (names ns).map asciiName
  let roots := delivered.filter (RenderOrder.isRoot (asciiName Gen.RenderOrder.skipSuffix) (asciiName Gen.RenderOrder.rootSuffix))
  ",".intercalate ((RenderOrder.renderOrder Gen.RenderOrder.comparator imp roots).map Driver.ascii)

def idxOp (defs lookups : String) : String :=
  let ds : List IndexDefs.Def := (names defs).filterMap fun x =>
    match x.splitOn "/" with
    | [n, o, k] => some ⟨n, o.toNat!, k == "x", if k == "p" then .pkg else if k == "s" then .nested else .none⟩
    | _ => none
  let idx := IndexDefs.indexDefs Gen.IndexDefs.skips Gen.IndexDefs.firstWins ds
  ",".intercalate ((names lookups).map fun t =>
    t ++ "=" ++ (match IndexDefs.findObject idx t with | some o => toString o | none => "-"))

/-- `reg k1=n1;k2=n2;...`: requests to the name registry in this order (key = GraphQL name, n = templates.ToGo of it);
answers of the requests, in order (Model/NameRegistry.lean) -/
def regOp (pairs : String) : String :=
  let reqs : List (String × String) := (pairs.splitOn ";").filterMap fun x =>
    match x.splitOn "=" with | [k, n] => some (k, n) | _ => none
  let norm : String → String := fun k => ((reqs.find? (·.1 == k)).map (·.2)).getD k
  let (_, outs) := reqs.foldl (fun (acc : NameRegistry.Reg × List String) kn =>
    let (r, g) := NameRegistry.request norm acc.1 kn.1
    (r, acc.2 ++ [g])) ([], [])
  ";".intercalate outs

/-- `wd <start> <cfgDir>`: what every regenerated read of the working directory sees (Model/StartDir.lean over
Gen/WorkDirReads.lean): `file:line:phase=dir` -/
def wdOp (start cfgDir : String) : String :=
  ";".intercalate (Gen.WorkDirReads.reads.map fun r =>
    r.file ++ ":" ++ toString r.line ++ ":" ++
      (match r.phase with | .init => "init" | .search => "search" | .generate => "generate") ++ "=" ++ ((StartDir.seen Gen.WorkDirReads.steps r ⟨start, cfgDir⟩).getD "?"))

def step (line : String) : String :=
  match line.splitOn " " with
  | ["reg", pairs] => regOp pairs
  | ["wd", start, cfgDir] => wdOp start cfgDir
  | ["roots", ns] => rootsOp ns
  | ["idx", defs, lookups] => idxOp defs lookups
  | ["pins", data, dirs, files] => pinsOp data dirs files
  | ["xf", named, embedded] => xfOp named embedded
  | ["gen2", ts, hand, ab] =>
    let p : Regenerate.Project := ⟨names ts, names hand, ab == "1"⟩
    let r1 := Regenerate.run Gen.GenerateSteps.steps p Regenerate.clean
    let r2 := Regenerate.run Gen.GenerateSteps.steps p r1.1
    "first=" ++ showRun r1 ++ " second=" ++ showRun r2
  | ["cyc", ms] =>
    match (ms.splitOn "|").mapM parseCModel with
    | some l => showCyc l (CyclePass.modelPointers l)
    | none => "bad-op"
  | ["cycraw", ms] =>
    match (ms.splitOn "|").mapM parseCModel with
    | some l => showCyc l (CyclePass.cyclePass l)
    | none => "bad-op"
  | ["regen", own, names, ps] =>
    let ns := (names.splitOn ";").filterMap fun s => match s.splitOn "=" with | [a, b] => some (a, b) | _ => none
    regen own ns (ps.splitOn ";")
  | ["order", ds] =>
    match (ds.splitOn "|").mapM parseDecl with
    | some ts => ",".intercalate ((inScope Scope.pkg (emittedModels ts).1).map toHex)
    | none => "bad-op"
  | ["sort", l] =>
    match hexList l with
    | some ns => ",".intercalate ((Order.sortByKey id ns).map toHex)
    | none => "bad-op"
  | _ => "bad-op"

end Driver.C18

def main : IO Unit := do
  Driver.loop (← IO.getStdin) (← IO.getStdout) Driver.C18.step
