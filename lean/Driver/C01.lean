import Driver.Util
/-! Line-protocol driver for C01 (not built yet). -/
namespace Driver.C01
def step (_line : String) : String := "bad-op"
end Driver.C01

def main : IO Unit := do
  Driver.loop (← IO.getStdin) (← IO.getStdout) Driver.C01.step
