import Driver.Util
/-! Line-protocol driver for C06 (not built yet). -/
namespace Driver.C06
def step (_line : String) : String := "bad-op"
end Driver.C06

def main : IO Unit := do
  Driver.loop (← IO.getStdin) (← IO.getStdout) Driver.C06.step
