import Driver.ExecRun
/-! Driver for C06: the shared execution-model driver (`Driver/ExecRun.lean`). -/
def main : IO Unit := Driver.ExecRun.main
