import Driver.Util
/-! Line-protocol driver for C05 (not built yet). -/
namespace Driver.C05
def step (_line : String) : String := "bad-op"
end Driver.C05

def main : IO Unit := do
  Driver.loop (← IO.getStdin) (← IO.getStdout) Driver.C05.step
