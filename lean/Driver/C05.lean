import Driver.Util
import GqlgenVerif.Model.SyncProg
import GqlgenVerif.Gen.SyncFacts
/-! Line-protocol driver for C05.

`sync` : which of the regenerated synchronisation skeletons (`Gen/SyncFacts.lean`) violate their invariant:
`ok` or a `;`-separated list of `lock <function> <mutex>` (some path leaves the mutex held / locks it twice) and
`chan <function> <channel> cap=<n>` (a bare send can find the buffer full). Names the function when
`Props/C05Sync` stops closing. -/
namespace Driver.C05
open GqlgenVerif.SyncProg GqlgenVerif.Gen.SyncFacts

def syncReport : String :=
  let l := lockProgs.filterMap (fun r => if balanced r.2.2 then none else some s!"lock {r.1} {r.2.1}")
  let c := chanProgs.filterMap (fun r =>
    if neverBlocks r.2.2.1 r.2.2.2 then none else some s!"chan {r.1} {r.2.1} cap={r.2.2.1}")
  if l.isEmpty && c.isEmpty then "ok" else "; ".intercalate (l ++ c)

def step (line : String) : String :=
  if line.startsWith "sync" then syncReport else "bad-op"
end Driver.C05

def main : IO Unit := do
  Driver.loop (← IO.getStdin) (← IO.getStdout) Driver.C05.step
