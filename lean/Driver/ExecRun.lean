import Driver.Util
import Driver.ExecIO
import GqlgenVerif.Model.ExecSpec
/-! Shared driver body for the execution properties (C01, C04, C06): first line = schema JSON, every
    further line = one harness result (document, coerced variables, invocation log). Prints the model's
    response for the same oracle together with the Spec's verdict. -/
open Lean GqlgenVerif Driver.ExecIO
namespace Driver.ExecRun

def fuel : Nat := 100000

def runCase (s : Schema) (line : String) : String :=
  match Json.parse line with
  | .error e => "bad-json " ++ e
  | .ok j =>
    match j.getObjVal? "doc" with
    | .error _ => "no-doc"
    | .ok dj =>
      let d := doc dj
      let vs := match j.getObjVal? "variables" with | .ok v => vars v | _ => []
      let rootName := if d.opKind == .mutation then s.mutation else s.query
      match s.type? rootName with
      | none => "no-root"
      | some root =>
        let o := oracle (arr j "log")
        match planFields s (implCollector s d.frags vs) fuel root d.sels with
        | none => "out-of-fuel"
        | some fields0 =>
          -- a field interceptor is installed for this case: one more wrapper around every field
          let around := (j.getObjValAs? Bool "around").toOption.getD false
          let fields := if around then fieldsAround fields0 else fields0
          let ods := opDirs dj
          let (out, st) := Impl.execOp o rootName fields ods
          -- the Spec end to end: §6.3.2 collection + §6.4 completion, on the same oracle
          let specVerdict :=
            match planFields s (specCollector s d.frags vs) fuel root d.sels with
            | none => "spec-out-of-fuel"
            | some sfields0 =>
              let sfields := if around then fieldsAround sfields0 else sfields0
              let (sout, sst) := Spec.execOp o rootName sfields ods
              if render sout != render out then "data"
              else if errStrs sst.errs != errStrs st.errs then "errors"
              else if sortStrs (sst.invs.map fun (p, h) => p ++ " " ++ h) !=
                  sortStrs (st.invs.map fun (p, h) => p ++ " " ++ h) then "invocations"
              else "agree"
          let res := Json.mkObj [
            ("data", Json.str (render out)),
            ("errors", Json.arr ((errStrs st.errs).map Json.str).toArray),
            ("invs", Json.arr ((sortStrs (st.invs.map fun (p, h) => p ++ " " ++ h)).map Json.str).toArray),
            ("recovers", Json.num st.recovers),
            ("unlogged", Json.arr (st.unlogged.map Json.str).toArray),
            ("wf", Json.bool (fieldsWfb fields)),
            ("implementorsOK", Json.bool (s.types.all fun ty => ty.kind != Kind.object ||
              s.types.all fun tc => ty.implementors.contains tc.name == Spec.applies s ty tc.name)),
            ("dupsUnrelated", Json.bool (fieldsDupsUnrelated s fields)),
            ("spec", Json.str specVerdict)]
          res.compress

partial def loop (h : IO.FS.Stream) (out : IO.FS.Stream) (s : Schema) : IO Unit := do
  let line ← h.getLine
  if line.isEmpty then return ()
  out.putStrLn (runCase s line.trimRight)
  loop h out s

end Driver.ExecRun


def Driver.ExecRun.main : IO Unit := do
  let stdin ← IO.getStdin
  let stdout ← IO.getStdout
  let first ← stdin.getLine
  match Lean.Json.parse first with
  | .error e => IO.eprintln ("bad schema: " ++ e)
  | .ok j => Driver.ExecRun.loop stdin stdout (Driver.ExecIO.schema j)
