import Lean.Data.Json
import GqlgenVerif.Model.Exec
import GqlgenVerif.Model.FieldDirs
/-! JSON decoding of the harness's schema / document / invocation-log lines into the Exec model's
    types, and rendering of model results. Shared by the C01/C04/C06/C13 drivers. -/
open Lean GqlgenVerif
namespace Driver.ExecIO

def str (j : Json) (k : String) : String := (j.getObjValAs? String k).toOption.getD ""
def boolD (j : Json) (k : String) (d : Bool) : Bool := (j.getObjValAs? Bool k).toOption.getD d
def arr (j : Json) (k : String) : List Json :=
  match j.getObjVal? k with
  | .ok (.arr a) => a.toList
  | _ => []
def strs (j : Json) (k : String) : List String := (arr j k).filterMap fun x => x.getStr?.toOption

partial def tref (j : Json) : TRef :=
  match j.getObjVal? "elem" with
  | .ok e => if e.isNull then .named (str j "name") (boolD j "nn" false) else .list (tref e) (boolD j "nn" false)
  | _ => .named (str j "name") (boolD j "nn" false)

def kind (s : String) : Kind :=
  match s with
  | "OBJECT" => .object | "INTERFACE" => .interface | "UNION" => .union
  | "ENUM" => .enum | "INPUT_OBJECT" => .input | _ => .scalar

def schema (j : Json) : Schema :=
  -- the directives the schema declares (name, locations) and the ones written on each type's definition
  let defs : List DirDef := (arr j "directives").map fun d =>
    { name := str d "name", locs := strs d "locs", skipRuntime := boolD d "skipRuntime" false }
  let typeDirs (n : String) : List String :=
    match (arr j "types").find? (fun t => str t "name" == n) with
    | some t => strs t "dirs"
    | none => []
  { query := str j "query", mutation := str j "mutation",
    types := (arr j "types").map fun t =>
      { name := str t "name", kind := kind (str t "kind"),
        fields := (arr t "fields").map fun f =>
          let ty := match f.getObjVal? "type" with | .ok ty => tref ty | _ => .named "?" false
          -- the field's chain: `Model/FieldDirs.implDirectives` (inherited from the returned type's definition, then own)
          { name := str f "name", dirs := implDirectives defs (typeDirs ty.base) (strs f "dirs"), plain := boolD f "plain" false,
            type := ty },
        interfaces := strs t "interfaces", possible := strs t "possible",
        implementors := strs t "implementors" } }

def argVal (j : Json) : Option ArgVal :=
  if j.isNull then none else
  let v := str j "var"
  if v != "" then some (.var v) else some (.lit (str j "lit"))

def dir (j : Json) : Dir :=
  { name := str j "name",
    ifArg := match j.getObjVal? "if" with | .ok a => argVal a | _ => none,
    label := match j.getObjVal? "label" with | .ok a => argVal a | _ => none }

partial def sel (j : Json) : Sel :=
  let ds := (arr j "dirs").map dir
  match str j "k" with
  | "field" =>
    let name := str j "name"
    let alias := str j "alias"
    .field (if alias == "" then name else alias) name (str j "objDef") ds ((arr j "sels").map sel)
  | "inline" => .inline (str j "typeCond") ds ((arr j "sels").map sel)
  | _ => .spread (str j "name") ds

def doc (j : Json) : Doc :=
  { opKind := match str j "opKind" with | "mutation" => .mutation | "subscription" => .subscription | _ => .query,
    sels := (arr j "sels").map sel,
    frags := (arr j "frags").map fun f =>
      { name := str f "name", typeCond := str f "typeCond", sels := (arr f "sels").map sel } }

/-- the operation's own directives (document order), without the built-in ones -/
def opDirs (j : Json) : List String :=
  ((arr j "opDirs").filterMap fun d => match d with | .str n => some n | _ => none).filter
    fun n => n != "skip" && n != "include" && n != "defer"

def vars (j : Json) : Vars :=
  match j with
  | .obj kvs => kvs.toList.map fun (k, v) =>
      (k, match v with | .bool b => VarVal.bool b | .str s => VarVal.str s | _ => VarVal.other)
  | _ => []

partial def vOf (j : Json) : V :=
  match str j "k" with
  | "leaf" => .leaf (str j "text")
  | "obj" => .obj (str j "type")
  | "list" => .list ((arr j "l").map vOf)
  | _ => .null

/-- (object path, plain field values) of every object inside a logged resolver value -/
partial def plainObjs (path : String) (j : Json) : List (String × List (String × V)) :=
  match str j "k" with
  | "obj" =>
    let fs := match j.getObjVal? "fields" with
      | .ok (.obj kvs) => kvs.toList.map fun (k, v) => (k, vOf v)
      | _ => []
    [(path, fs)]
  | "list" =>
    let rec go (i : Nat) (xs : List Json) : List (String × List (String × V)) :=
      match xs with
      | [] => []
      | x :: rest => plainObjs (if path == "" then toString i else path ++ "/" ++ toString i) x ++ go (i + 1) rest
    go 0 (arr j "l")
  | _ => []

/-- the oracle the implementation's invocation log defines -/
def oracle (log : List Json) : Oracle :=
  let objs : List (String × List (String × V)) := (log.filter fun i => str i "hook" == "resolver").flatMap fun i =>
    match i.getObjVal? "val" with
    | .ok v => plainObjs (str i "path") v
    | _ => []
  let res := log.filter fun i => str i "hook" == "resolver"
  let dirs := log.filter fun i => (str i "hook").startsWith "directive:"
  { res := fun path =>
      let p := pathStr path
      match res.find? (fun i => str i "path" == p) with
      | none => .missing
      | some i =>
        match str i "kind" with
        | "error" | "errval" => .err (str i "msg")
        | "panic" => .panic (str i "msg")
        | _ => match i.getObjVal? "val" with | .ok v => .val (vOf v) | _ => .val .null
    dir := fun path name =>
      let p := pathStr path
      match dirs.find? (fun i => str i "path" == p && str i "hook" == "directive:" ++ name) with
      | none => .missing
      | some i =>
        match str i "kind" with
        | "error" => .err (str i "msg")
        | "panic" => .panic (str i "msg")
        | "block" => .block
        | _ => .pass
    plain := fun objPath name =>
      match objs.find? (fun e => e.1 == pathStr objPath) with
      | none => .missing
      | some (_, fs) =>
        match fs.find? (fun kv => kv.1 == name) with
        | some (_, v) => .val v
        | none => .missing }

partial def render : Out → String
  | .null => "null"
  | .leaf t => t
  | .obj fs => "{" ++ ",".intercalate (fs.map fun (k, v) => "\"" ++ k ++ "\":" ++ render v) ++ "}"
  | .list xs => "[" ++ ",".intercalate (xs.map render) ++ "]"

def sortStrs (l : List String) : List String := (l.toArray.qsort (· < ·)).toList

def errStrs (es : List Err) : List String := sortStrs (es.map fun e => pathStr e.path ++ " :: " ++ e.msg)

end Driver.ExecIO
