import Driver.Util
import GqlgenVerif.Model.ApqOp
/-!
Line-protocol driver for C15 (stateful: `tab` lines fill the text table the later lines refer to).

  tab <id> <hex text> <sha> <valid 0/1> [<ops>]  → ok     ops = names of the text's operations in source order,
                                                          comma-separated, `_` = anonymous (default: one anonymous)
  run <cache> <req> <req> …                      → <obs> <obs> …\t<final contents>
  chk <cache> <reqs>\t<obs …>\t<contents>        → ok | violates:<what> | unparsable:<token>

The model is instantiated with Text := Nat (the text id; the empty query is `none`), Hash := String,
H := the table id ↦ real SHA-256 hex digest computed by the harness. Token formats: see
go/harness/c15/main.go. The request's `operationName` is the part of the shape behind `^`; Name := String
(`""` anonymous), Body := Nat (index of the operation in the text's own list); the document cache of the model
is a map (`+q`), an LRU (`+q<N>`) or absent. `x:<t>.<k>` = operation k of text t was executed (`.k` is omitted
for texts with at most one operation).
-/
namespace Driver.C15
open GqlgenVerif.Apq GqlgenVerif.ApqOp

def dropS (s : String) (n : Nat) : String := String.ofList (s.toList.drop n)

structure Entry where
  id : Nat
  sha : String
  valid : Bool
  ops : List String := [""]

abbrev Tab := List Entry

/-- the id the EMPTY text gets where it shows up as a VALUE of the persisted-query cache (`Add(h, "")`, a lookup
answered `""`, final contents `h>-`). No request can carry it as its text (an empty query is `none`, the hash-only
branch), so no history ever sends it together with a hash: the Spec rejects every trace in which it is registered,
returned or run. Texts outside the table (`?<hex>`) get `1000000 + length`, as in `parseText`. -/
def emptyId : Nat := 999999

/-- SHA-256 of the empty string -/
def emptySha : String := "e3b0c44298fc1c149afbf4c8996fb92427ae41e4649b934ca495991b7852b855"

def hashOf (tb : Tab) (t : Nat) : String :=
  match tb.find? (·.id == t) with
  | some e => e.sha
  | none => if t == emptyId then emptySha else "?unknown-text-" ++ toString t

def validOf (tb : Tab) (t : Nat) : Bool :=
  match tb.find? (·.id == t) with
  | some e => e.valid
  | none => false

def opsOf (tb : Tab) (t : Nat) : List String :=
  match tb.find? (·.id == t) with
  | some e => e.ops
  | none => []

def enumFrom : Nat → List String → List (String × Nat)
  | _, [] => []
  | i, n :: r => (n, i) :: enumFrom (i + 1) r

/-- gqlparser on a text of the table: rejected, or its operations (name, index) -/
def parseOf (tb : Tab) (t : Nat) : Option (Doc String Nat) :=
  if validOf tb t then some (enumFrom 0 (opsOf tb t)) else none

def selOf (tb : Tab) : Nat → String → Option (String × Nat) := selectOf (parseOf tb) ""

def alias (tb : Tab) (h : String) : String :=
  match tb.find? (·.sha == h) with
  | some e => "#" ++ toString e.id
  | none => "=" ++ (if h.isEmpty then "" else Driver.hex (Driver.bytesOf h))

def parseHash (tb : Tab) (s : String) : Option String :=
  if s.startsWith "#" then (dropS s 1).toNat?.map (hashOf tb)
  else if s.startsWith "=" then
    let r := dropS s 1
    if r.isEmpty then some "" else (Driver.unhex r).map Driver.ascii
  else none

def parseText (s : String) : Option (Option Nat) :=
  if s == "-" then some none
  else if s.startsWith "?" then some (some (1000000 + s.length))   -- a text outside the table
  else s.toNat?.map some

/-- a VALUE held / returned / stored by the persisted-query cache as the harness prints it: a text id, `-` (the empty
text) or `?<hex>` (a text outside the table). Total on everything `tid` of the harness can print, so that a trace
in which the cache holds something no request sent is JUDGED by the Spec instead of being unparsable. -/
def parseVal (s : String) : Option Nat :=
  if s == "-" then some emptyId
  else if s.startsWith "?" then some (1000000 + s.length)
  else s.toNat?

def parseInt (s : String) : Option Int :=
  if s.startsWith "-" then (dropS s 1).toNat?.map (fun n => -(n : Int)) else s.toNat?.map (fun n => (n : Int))

/-- the `operationName` of a request token: the part of the shape between `^` and the first `@` / `~` -/
def opNameOf (shape : String) : String :=
  match shape.splitOn "^" with
  | [_, r] => ((r.splitOn "@").headD "").splitOn "~" |>.headD ""
  | _ => ""

def parseReq (tb : Tab) (tok : String) : Option (OReq Nat String String) :=
  match tok.splitOn "/" with
  | [q, e, shape] =>
    match parseText q with
    | none => none
    | some q =>
      let n := opNameOf shape
      if e == "a" then some ⟨⟨q, .absent⟩, n⟩
      else if e == "m" then some ⟨⟨q, .malformed⟩, n⟩
      else match e.splitOn "," with
        | [v, h] =>
          match parseInt v, parseHash tb h with
          | some v, some h => some ⟨⟨q, .decoded v h⟩, n⟩
          | _, _ => none
        | _ => none
  | _ => none

def parseReqs (tb : Tab) (s : String) : Option (List (OReq Nat String String)) :=
  if s == "-" then some [] else (s.splitOn " ").mapM (parseReq tb)

def showText : Option Nat → String
  | none => "-"
  | some t => toString t

def showOut : Outcome Nat → String
  | .run q => "run:" ++ showText q
  | .invalidExt => "inv"
  | .badVersion => "ver"
  | .notFound => "nf"
  | .mismatch => "mm"

def showOp (tb : Tab) : Op Nat String → String
  | .get h none => "G" ++ alias tb h ++ ":miss"
  | .get h (some t) => "G" ++ alias tb h ++ ":" ++ toString t
  | .add h t => "A" ++ alias tb h ++ ":" ++ toString t

def showOps (tb : Tab) (ops : List (Op Nat String)) : String :=
  if ops.isEmpty then "-" else ",".intercalate (ops.map (showOp tb))

def showExec (tb : Tab) : Option (Nat × (String × Nat)) → String
  | none => "-"
  | some (t, (_, k)) => if (opsOf tb t).length > 1 then toString t ++ "." ++ toString k else toString t

def showRes {σ δ : Type} (tb : Tab) (x : OStepRes σ δ Nat String String Nat) : String :=
  showOut x.apq.out ++ "|x:" ++ showExec tb x.exec ++ "|" ++ showOps tb x.apq.ops

/-- candidate keys the harness probes at the end: table hashes in order, then the literal hashes of the
history in order of first appearance -/
def candidates (tb : Tab) (rs : List (OReq Nat String String)) : List String :=
  let lits := rs.filterMap (fun r => match r.req.ext with | .decoded _ h => some h | _ => none)
  (tb.map (·.sha) ++ lits).eraseDups

def showContents (tb : Tab) (view : String → Option Nat) (keys : List String) : String :=
  let l := keys.filterMap (fun k => (view k).map (fun t => alias tb k ++ ">" ++ toString t))
  if l.isEmpty then "-" else " ".intercalate l

def lastState {σ δ : Type} (s0 : σ) : List (OStepRes σ δ Nat String String Nat) → σ
  | [] => s0
  | [x] => x.apq.state
  | _ :: r => lastState s0 r

def traceQ {σ δ : Type} (tb : Tab) (C : CacheImpl σ Nat String) (view : σ → String → Option Nat) (s0 : σ)
    (Q : CacheImpl δ (Doc String Nat) Nat) (q0 : δ) (rs : List (OReq Nat String String)) : String :=
  let xs := runAllOp (hashOf tb) C (parseOf tb) "" Q s0 q0 rs
  let obs := if xs.isEmpty then "-" else " ".intercalate (xs.map (showRes tb))
  obs ++ "\t" ++ showContents tb (view (lastState s0 xs)) (candidates tb rs)

/-- the parsed-document cache of a cache kind: `+q` a map, `+q<N>` an LRU of N documents, else none -/
def qKind (kind : String) : String :=
  match ((kind.splitOn "@").headD "").splitOn "+" with
  | [_, q] => q
  | _ => ""

def trace {σ : Type} (tb : Tab) (kind0 : String) (C : CacheImpl σ Nat String) (view : σ → String → Option Nat) (s0 : σ)
    (rs : List (OReq Nat String String)) : String :=
  let q := qKind kind0
  if q == "q" then traceQ tb C view s0 (mapCache : CacheImpl (MapState (Doc String Nat) Nat) (Doc String Nat) Nat) mapEmpty rs
  else if q.startsWith "q" then
    match (dropS q 1).toNat? with
    | some n => traceQ tb C view s0 (lruCache : CacheImpl (Lru (Doc String Nat) Nat) (Doc String Nat) Nat) (lruEmpty n) rs
    | none => "bad-cache"
  else traceQ tb C view s0 (noCache : CacheImpl Unit (Doc String Nat) Nat) () rs

/-- cache kind grammar `<map|no|lruN>[+q][@http]`: `+q` (a parsed-document cache is configured) and `@http`
(the history is carried over HTTP) do not exist in the model — the cache behind APQ is the prefix -/
def baseKind (kind : String) : String :=
  match ((kind.splitOn "@").headD "").splitOn "+" with
  | b :: _ => b
  | [] => ""

/-- a request token `!/b/<fault>`: a body the transport cannot decode; it never reaches the extension -/
def isFault (tok : String) : Bool := tok.startsWith "!/"

def faultObs : String := "bad|x:-|-"

def runCache (tb : Tab) (kind0 : String) (rs : List (OReq Nat String String)) : String :=
  let kind := baseKind kind0
  if kind == "map" then trace tb kind0 mapCache mapView mapEmpty rs
  else if kind == "no" then trace tb kind0 noCache noView () rs
  else if kind.startsWith "lru" then
    match (dropS kind 3).toNat? with
    | some n => trace tb kind0 lruCache lruView (lruEmpty n) rs
    | none => "bad-cache"
  else "bad-cache"

/-- put the fixed observation of a fault back at its position -/
def weave : List String → List String → List String
  | [], _ => []
  | t :: ts, os =>
    if isFault t then faultObs :: weave ts os
    else match os with
      | o :: os' => o :: weave ts os'
      | [] => "?" :: weave ts []

/-- positions (in the full history) of the requests that reach the extension, and whether every fault was
observed as `bad`, executing nothing and touching no cache; `some i` = the first fault that was not -/
def splitFaults : Nat → List String → List String → (List Nat × List String × List String × Option Nat)
  | _, [], _ => ([], [], [], none)
  | i, t :: ts, os =>
    match os with
    | [] => ([], [], [], some i)
    | o :: os' =>
      let (ix, rt, ro, bad) := splitFaults (i + 1) ts os'
      if isFault t then
        (ix, rt, ro, if o == faultObs then bad else some i)
      else (i :: ix, t :: rt, o :: ro, bad)

/-! ### spec evaluation on an observed trace -/

def parseOut (s : String) : Option (Outcome Nat) :=
  if s == "inv" then some .invalidExt
  else if s == "ver" then some .badVersion
  else if s == "nf" then some .notFound
  else if s == "mm" then some .mismatch
  else if s.startsWith "run:" then (parseText (dropS s 4)).map .run
  else none

def parseOp (tb : Tab) (s : String) : Option (Op Nat String) :=
  let body := dropS s 1
  match body.splitOn ":" with
  | [h, v] =>
    match parseHash tb h with
    | none => none
    | some h =>
      if s.startsWith "G" then
        if v == "miss" then some (.get h none) else (parseVal v).map (fun t => .get h (some t))
      else if s.startsWith "A" then (parseVal v).map (fun t => .add h t)
      else none
  | _ => none

/-- `-` | `<t>` (operation 0) | `<t>.<k>` | `?…` (something outside the table) -/
def parseExec (tb : Tab) (s : String) : Option (Option (Nat × (String × Nat))) :=
  if s == "-" then some none
  else match s.splitOn "." with
    | [t] => (parseText t).bind (fun t => t.map (fun t => some (t, ((opsOf tb t).getD 0 "?", 0))))
    | [t, k] =>
      match t.toNat?, k.toNat? with
      | some t, some k => some (some (t, ((opsOf tb t).getD k "?", k)))
      | _, _ => none
    | _ => none

def parseObs (tb : Tab) (tok : String) : Except String (OObs Nat String String Nat) :=
  match tok.splitOn "|" with
  | [c, x, ops] =>
    match parseOut c, (if x.startsWith "x:" then parseExec tb (dropS x 2) else none),
          (if ops == "-" then some [] else (ops.splitOn ",").mapM (parseOp tb)) with
    | some o, some e, some ops => .ok ⟨o, e, ops⟩
    | _, _, _ => .error tok
  | _ => .error tok

def parseContents (tb : Tab) (s : String) : Except String (List (String × Nat)) :=
  if s == "-" then .ok [] else
  (s.splitOn " ").mapM (fun p =>
    match p.splitOn ">" with
    | [h, t] =>
      match parseHash tb h, parseVal t with
      | some h, some t => .ok (h, t)
      | _, _ => .error p
    | _ => .error p)

/-- first failing position of the trace spec, for the replay -/
def firstBad (sel : Nat → String → Option (String × Nat)) (H : Nat → String) : Nat → List (Nat × String) →
    List (OReq Nat String String) → List (OObs Nat String String Nat) → Option Nat
  | _, _, [], [] => none
  | i, sent, r :: rs, o :: os =>
    if specReq H sent r.req o.base && execReq sel r o then firstBad sel H (i + 1) (sent ++ sentOf r.req) rs os else some i
  | i, _, _, _ => some i

def chk (tb : Tab) (rest : String) : String :=
  match rest.splitOn "\t" with
  | [head, obs, cont] =>
    match head.splitOn " " with
    | _kind :: toks0 =>
      let toks0 := if toks0 == ["-"] then [] else toks0
      let obs0 := if obs == "-" then [] else obs.splitOn " "
      if toks0.length != obs0.length then "violates:length" else
      let (ix, toks, obsl, badFault) := splitFaults 0 toks0 obs0
      match parseReqs tb (if toks.isEmpty then "-" else " ".intercalate toks) with
      | none => "unparsable:reqs"
      | some rs =>
        let os := obsl.mapM (parseObs tb)
        match os, parseContents tb cont with
        | .error t, _ => "unparsable:" ++ t
        | _, .error t => "unparsable:" ++ t
        | .ok os, .ok cs =>
          let H := hashOf tb
          match badFault with
          | some i => "violates:request-" ++ toString i
          | none =>
          if specOkOp (selOf tb) H rs os cs then "ok"
          else match firstBad (selOf tb) H 0 [] rs os with
            | some i => "violates:request-" ++ toString (ix.getD i i)
            | none => "violates:final-contents"
    | [] => "unparsable:head"
  | _ => "unparsable:fields"

def stepLine (tb : Tab) (line : String) : Tab × String :=
  if line.startsWith "tab " then
    match line.splitOn " " with
    | [_, id, _hex, sha, v] =>
      match id.toNat? with
      | some id => (tb ++ [⟨id, sha, v == "1", [""]⟩], "ok")
      | none => (tb, "bad-tab")
    | [_, id, _hex, sha, v, ops] =>
      match id.toNat? with
      | some id =>
        let names := if ops == "-" then [] else (ops.splitOn ",").map (fun n => if n == "_" then "" else n)
        (tb ++ [⟨id, sha, v == "1", names⟩], "ok")
      | none => (tb, "bad-tab")
    | _ => (tb, "bad-tab")
  else if line.startsWith "run " then
    match (dropS line 4).splitOn " " with
    | kind :: toks0 =>
      let toks0 := if toks0 == ["-"] then [] else toks0
      let toks := toks0.filter (fun t => !isFault t)
      match parseReqs tb (if toks.isEmpty then "-" else " ".intercalate toks) with
      | some rs =>
        if toks.length == toks0.length then (tb, runCache tb kind rs)
        else
          -- the model runs on the requests that reach the extension; a fault is answered `bad` and is a no-op
          match (runCache tb kind rs).splitOn "\t" with
          | [obs, cont] =>
            let os := if obs == "-" then [] else obs.splitOn " "
            (tb, " ".intercalate (weave toks0 os) ++ "\t" ++ cont)
          | _ => (tb, "bad-run")
      | none => (tb, "bad-reqs")
    | [] => (tb, "bad-run")
  else if line.startsWith "chk " then (tb, chk tb (dropS line 4))
  else (tb, "bad-op")

partial def loop (h out : IO.FS.Stream) (tb : Tab) : IO Unit := do
  let line ← h.getLine
  if line.isEmpty then return ()
  let l := if line.back == '\n' then String.ofList line.toList.dropLast else line
  let (tb', o) := stepLine tb l
  out.putStrLn o
  loop h out tb'

end Driver.C15

def main : IO Unit := do
  Driver.C15.loop (← IO.getStdin) (← IO.getStdout) []
