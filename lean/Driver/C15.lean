import Driver.Util
/-! Line-protocol driver for C15 (not built yet). -/
namespace Driver.C15
def step (_line : String) : String := "bad-op"
end Driver.C15

def main : IO Unit := do
  Driver.loop (← IO.getStdin) (← IO.getStdout) Driver.C15.step
