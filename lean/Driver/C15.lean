import Driver.Util
import GqlgenVerif.Model.Apq
/-!
Line-protocol driver for C15 (stateful: `tab` lines fill the text table the later lines refer to).

  tab <id> <hex text> <sha> <valid 0/1>          → ok
  run <cache> <req> <req> …                      → <obs> <obs> …\t<final contents>
  chk <cache> <reqs>\t<obs …>\t<contents>        → ok | violates:<what> | unparsable:<token>

The model is instantiated with Text := Nat (the text id; the empty query is `none`), Hash := String,
H := the table id ↦ real SHA-256 hex digest computed by the harness. Token formats: see
go/harness/c15/main.go.
-/
namespace Driver.C15
open GqlgenVerif.Apq

def dropS (s : String) (n : Nat) : String := String.ofList (s.toList.drop n)

structure Entry where
  id : Nat
  sha : String
  valid : Bool

abbrev Tab := List Entry

def hashOf (tb : Tab) (t : Nat) : String :=
  match tb.find? (·.id == t) with
  | some e => e.sha
  | none => "?unknown-text-" ++ toString t

def validOf (tb : Tab) (t : Nat) : Bool :=
  match tb.find? (·.id == t) with
  | some e => e.valid
  | none => false

def alias (tb : Tab) (h : String) : String :=
  match tb.find? (·.sha == h) with
  | some e => "#" ++ toString e.id
  | none => "=" ++ (if h.isEmpty then "" else Driver.hex (Driver.bytesOf h))

def parseHash (tb : Tab) (s : String) : Option String :=
  if s.startsWith "#" then (dropS s 1).toNat?.map (hashOf tb)
  else if s.startsWith "=" then
    let r := dropS s 1
    if r.isEmpty then some "" else (Driver.unhex r).map Driver.ascii
  else none

def parseText (s : String) : Option (Option Nat) :=
  if s == "-" then some none
  else if s.startsWith "?" then some (some (1000000 + s.length))   -- a text outside the table
  else s.toNat?.map some

def parseInt (s : String) : Option Int :=
  if s.startsWith "-" then (dropS s 1).toNat?.map (fun n => -(n : Int)) else s.toNat?.map (fun n => (n : Int))

def parseReq (tb : Tab) (tok : String) : Option (Req Nat String) :=
  match tok.splitOn "/" with
  | [q, e, _] =>
    match parseText q with
    | none => none
    | some q =>
      if e == "a" then some ⟨q, .absent⟩
      else if e == "m" then some ⟨q, .malformed⟩
      else match e.splitOn "," with
        | [v, h] =>
          match parseInt v, parseHash tb h with
          | some v, some h => some ⟨q, .decoded v h⟩
          | _, _ => none
        | _ => none
  | _ => none

def parseReqs (tb : Tab) (s : String) : Option (List (Req Nat String)) :=
  if s == "-" then some [] else (s.splitOn " ").mapM (parseReq tb)

def showText : Option Nat → String
  | none => "-"
  | some t => toString t

def showOut : Outcome Nat → String
  | .run q => "run:" ++ showText q
  | .invalidExt => "inv"
  | .badVersion => "ver"
  | .notFound => "nf"
  | .mismatch => "mm"

def showOp (tb : Tab) : Op Nat String → String
  | .get h none => "G" ++ alias tb h ++ ":miss"
  | .get h (some t) => "G" ++ alias tb h ++ ":" ++ toString t
  | .add h t => "A" ++ alias tb h ++ ":" ++ toString t

def showOps (tb : Tab) (ops : List (Op Nat String)) : String :=
  if ops.isEmpty then "-" else ",".intercalate (ops.map (showOp tb))

def showRes {σ : Type} (tb : Tab) (x : StepRes σ Nat String) : String :=
  showOut x.out ++ "|x:" ++ showText (executed (validOf tb) x.out) ++ "|" ++ showOps tb x.ops

/-- candidate keys the harness probes at the end: table hashes in order, then the literal hashes of the
history in order of first appearance -/
def candidates (tb : Tab) (rs : List (Req Nat String)) : List String :=
  let lits := rs.filterMap (fun r => match r.ext with | .decoded _ h => some h | _ => none)
  (tb.map (·.sha) ++ lits).eraseDups

def showContents (tb : Tab) (view : String → Option Nat) (keys : List String) : String :=
  let l := keys.filterMap (fun k => (view k).map (fun t => alias tb k ++ ">" ++ toString t))
  if l.isEmpty then "-" else " ".intercalate l

def trace {σ : Type} (tb : Tab) (C : CacheImpl σ Nat String) (view : σ → String → Option Nat) (s0 : σ)
    (rs : List (Req Nat String)) : String :=
  let (s, xs) := runAll (hashOf tb) C s0 rs
  let obs := if xs.isEmpty then "-" else " ".intercalate (xs.map (showRes tb))
  obs ++ "\t" ++ showContents tb (view s) (candidates tb rs)

/-- cache kind grammar `<map|no|lruN>[+q][@http]`: `+q` (a parsed-document cache is configured) and `@http`
(the history is carried over HTTP) do not exist in the model — the cache behind APQ is the prefix -/
def baseKind (kind : String) : String :=
  match ((kind.splitOn "@").headD "").splitOn "+" with
  | b :: _ => b
  | [] => ""

/-- a request token `!/b/<fault>`: a body the transport cannot decode; it never reaches the extension -/
def isFault (tok : String) : Bool := tok.startsWith "!/"

def faultObs : String := "bad|x:-|-"

def runCache (tb : Tab) (kind0 : String) (rs : List (Req Nat String)) : String :=
  let kind := baseKind kind0
  if kind == "map" then trace tb mapCache mapView mapEmpty rs
  else if kind == "no" then trace tb noCache noView () rs
  else if kind.startsWith "lru" then
    match (dropS kind 3).toNat? with
    | some n => trace tb lruCache lruView (lruEmpty n) rs
    | none => "bad-cache"
  else "bad-cache"

/-- put the fixed observation of a fault back at its position -/
def weave : List String → List String → List String
  | [], _ => []
  | t :: ts, os =>
    if isFault t then faultObs :: weave ts os
    else match os with
      | o :: os' => o :: weave ts os'
      | [] => "?" :: weave ts []

/-- positions (in the full history) of the requests that reach the extension, and whether every fault was
observed as `bad`, executing nothing and touching no cache; `some i` = the first fault that was not -/
def splitFaults : Nat → List String → List String → (List Nat × List String × List String × Option Nat)
  | _, [], _ => ([], [], [], none)
  | i, t :: ts, os =>
    match os with
    | [] => ([], [], [], some i)
    | o :: os' =>
      let (ix, rt, ro, bad) := splitFaults (i + 1) ts os'
      if isFault t then
        (ix, rt, ro, if o == faultObs then bad else some i)
      else (i :: ix, t :: rt, o :: ro, bad)

/-! ### spec evaluation on an observed trace -/

def parseOut (s : String) : Option (Outcome Nat) :=
  if s == "inv" then some .invalidExt
  else if s == "ver" then some .badVersion
  else if s == "nf" then some .notFound
  else if s == "mm" then some .mismatch
  else if s.startsWith "run:" then (parseText (dropS s 4)).map .run
  else none

def parseOp (tb : Tab) (s : String) : Option (Op Nat String) :=
  let body := dropS s 1
  match body.splitOn ":" with
  | [h, v] =>
    match parseHash tb h with
    | none => none
    | some h =>
      if s.startsWith "G" then
        if v == "miss" then some (.get h none) else (parseText v).bind (fun t => t.map (fun t => .get h (some t)))
      else if s.startsWith "A" then (parseText v).bind (fun t => t.map (fun t => .add h t))
      else none
  | _ => none

def parseObs (tb : Tab) (tok : String) : Except String (Obs Nat String) :=
  match tok.splitOn "|" with
  | [c, x, ops] =>
    match parseOut c, (if x.startsWith "x:" then parseText (dropS x 2) else none),
          (if ops == "-" then some [] else (ops.splitOn ",").mapM (parseOp tb)) with
    | some o, some e, some ops => .ok ⟨o, e, ops⟩
    | _, _, _ => .error tok
  | _ => .error tok

def parseContents (tb : Tab) (s : String) : Except String (List (String × Nat)) :=
  if s == "-" then .ok [] else
  (s.splitOn " ").mapM (fun p =>
    match p.splitOn ">" with
    | [h, t] =>
      match parseHash tb h, t.toNat? with
      | some h, some t => .ok (h, t)
      | _, _ => .error p
    | _ => .error p)

/-- first failing position of the trace spec, for the replay -/
def firstBad (H : Nat → String) : Nat → List (Nat × String) → List (Req Nat String) → List (Obs Nat String) → Option Nat
  | _, _, [], [] => none
  | i, sent, r :: rs, o :: os => if specReq H sent r o then firstBad H (i + 1) (sent ++ sentOf r) rs os else some i
  | i, _, _, _ => some i

def chk (tb : Tab) (rest : String) : String :=
  match rest.splitOn "\t" with
  | [head, obs, cont] =>
    match head.splitOn " " with
    | _kind :: toks0 =>
      let toks0 := if toks0 == ["-"] then [] else toks0
      let obs0 := if obs == "-" then [] else obs.splitOn " "
      if toks0.length != obs0.length then "violates:length" else
      let (ix, toks, obsl, badFault) := splitFaults 0 toks0 obs0
      match parseReqs tb (if toks.isEmpty then "-" else " ".intercalate toks) with
      | none => "unparsable:reqs"
      | some rs =>
        let os := obsl.mapM (parseObs tb)
        match os, parseContents tb cont with
        | .error t, _ => "unparsable:" ++ t
        | _, .error t => "unparsable:" ++ t
        | .ok os, .ok cs =>
          let H := hashOf tb
          match badFault with
          | some i => "violates:request-" ++ toString i
          | none =>
          if specOk H rs os cs then "ok"
          else match firstBad H 0 [] rs os with
            | some i => "violates:request-" ++ toString (ix.getD i i)
            | none => "violates:final-contents"
    | [] => "unparsable:head"
  | _ => "unparsable:fields"

def stepLine (tb : Tab) (line : String) : Tab × String :=
  if line.startsWith "tab " then
    match line.splitOn " " with
    | [_, id, _hex, sha, v] =>
      match id.toNat? with
      | some id => (tb ++ [⟨id, sha, v == "1"⟩], "ok")
      | none => (tb, "bad-tab")
    | _ => (tb, "bad-tab")
  else if line.startsWith "run " then
    match (dropS line 4).splitOn " " with
    | kind :: toks0 =>
      let toks0 := if toks0 == ["-"] then [] else toks0
      let toks := toks0.filter (fun t => !isFault t)
      match parseReqs tb (if toks.isEmpty then "-" else " ".intercalate toks) with
      | some rs =>
        if toks.length == toks0.length then (tb, runCache tb kind rs)
        else
          -- the model runs on the requests that reach the extension; a fault is answered `bad` and is a no-op
          match (runCache tb kind rs).splitOn "\t" with
          | [obs, cont] =>
            let os := if obs == "-" then [] else obs.splitOn " "
            (tb, " ".intercalate (weave toks0 os) ++ "\t" ++ cont)
          | _ => (tb, "bad-run")
      | none => (tb, "bad-reqs")
    | [] => (tb, "bad-run")
  else if line.startsWith "chk " then (tb, chk tb (dropS line 4))
  else (tb, "bad-op")

partial def loop (h out : IO.FS.Stream) (tb : Tab) : IO Unit := do
  let line ← h.getLine
  if line.isEmpty then return ()
  let l := if line.back == '\n' then String.ofList line.toList.dropLast else line
  let (tb', o) := stepLine tb l
  out.putStrLn o
  loop h out tb'

end Driver.C15

def main : IO Unit := do
  Driver.C15.loop (← IO.getStdin) (← IO.getStdout) []
