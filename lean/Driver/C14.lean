import Driver.Util
/-! Line-protocol driver for C14 (not built yet). -/
namespace Driver.C14
def step (_line : String) : String := "bad-op"
end Driver.C14

def main : IO Unit := do
  Driver.loop (← IO.getStdin) (← IO.getStdout) Driver.C14.step
