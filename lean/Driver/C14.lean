import Driver.Util
import GqlgenVerif.Model.Complexity
import GqlgenVerif.Model.ComplexitySwitch
import GqlgenVerif.Gen.ComplexityLabels
import GqlgenVerif.Gen.ExtInstall
/-! Line-protocol driver for C14: the complexity walker, its Spec, safeAdd and the gate.

```
calc <schema> <customs> <vars> <doc>   ->  <walker result> <Spec result>
sa <a> <b>                             ->  safeAdd a b   (regenerated definition)
saspec <a> <b>                         ->  the right-hand side of safeAdd_spec
maxint                                 ->  maxInt (regenerated definition)
gate <complexity> <limit>              ->  <execCalls> <code|->
gencx <objs> <Type> <field>            ->  <entry the modelled switch dispatches to | -> <entry by the documented binding | ->
gencalc <objs> <entries> <schema> <vars> <doc>
                                       ->  <walker over the modelled generated switch> <Spec over the documented binding>
gencxl <s|f> <objs> <Type> <field>     ->  the same as gencx, the switch being the STRING switch of that template flavour
gencalcl <s|f> <objs> <entries> <schema> <vars> <doc>      (s = generated!.gotpl, f = root_.gotpl; labels, tag, guards and
                                           selectors as regenerated into `Gen/ComplexityLabels.lean`)
```
inst <cfg> <cSent> <cAlt>              ->  <execCalls> <code|-> <stats c/l|-> <mutator calls|->   twice: the server as the
                                           regenerated `Gen/ExtInstall.lean` (processExtensions, CreateOperationContext) says, then the
                                           contract `ExtInstall.Spec.serve`
```
cfg = the extensions in `Use` order, `;`-separated: `<hooks>:<pact>:<cact>`; hooks = letters of P C O R T F (the hook interfaces
the type implements; T = RootFieldInterceptor); pact = p | r | f<code>; cact = p | f<code> | l<limit>.
```
objs = `Name:reserved[+Attr…]:field>key>reserved|…;…` (what `codegen.Data.Objects` holds; key = the Go field name, normalised;
reserved = 0 | 1; Attr = the other boolean attributes of the object a template guard can read: `Root`, `Stream`); entries = the `ComplexityRoot` table `Type.key=<expr>;…`. The switch model groups the fields with the
`uniqueFields` **regenerated** from `codegen/complexity.go` (`Gen/UniqueFields.lean`).
schema  = `Name:k:Impl|Impl;…` (k = o i u x); customs = `Type.field=c:<n>|l:<a>:<b>|a:<arg>:<b>;…`;
vars = `name=<argv>;…` (argv = i<n> | n | o); doc = comma-separated prefix tokens
`f,parent,name,ret,nargs,(arg,src,dflt)*,nsels,…` (src = - | L<argv> | V<var>; dflt = - | <argv>),
`s,frag,nsels,…`, `i,cond,nsels,…`. `-` is the empty list.
-/
open GqlgenVerif GqlgenVerif.Complexity
namespace Driver.C14

def items (s : String) (sep : String) : List String := if s = "-" ∨ s = "" then [] else s.splitOn sep

def parseKind : String → Kind
  | "o" => .object | "i" => .interface | "u" => .union | _ => .other

def parseSchema (s : String) : Schema :=
  let ents := (items s ";").filterMap fun e =>
    match e.splitOn ":" with
    | [n, k, impls] => some (n, parseKind k, items impls "|")
    | _ => none
  { kind := fun n => match ents.lookup n with | some (k, _) => k | none => .other
    possible := fun n => match ents.lookup n with | some (_, p) => p | none => [] }

def parseArgV (s : String) : Option ArgV :=
  if s = "n" then some .null else if s = "o" then some .other
  else if s.front = 'i' then ((s.drop 1).toString.toInt?).map .int else none

def parseExpr (s : String) : Option Expr :=
  match s.splitOn ":" with
  | ["c", n] => n.toInt?.map .const
  | ["l", a, b] => do pure (.lin (← a.toInt?) (← b.toInt?))
  | ["a", n, b] => do pure (.arg n (← b.toInt?))
  | _ => none

def parseCustoms (s : String) : Option (List ((String × String) × Expr)) :=
  (items s ";").mapM fun e =>
    match e.splitOn "=" with
    | [k, x] =>
      match k.splitOn ".", parseExpr x with
      | [t, f], some ex => some ((t, f), ex)
      | _, _ => none
    | _ => none

def parseVars (s : String) : Option Vars :=
  (items s ";").mapM fun e =>
    match e.splitOn "=" with
    | [k, v] => (parseArgV v).map fun x => (k, x)
    | _ => none

def parseSrc (s : String) : Option ArgSrc :=
  if s = "-" then some .absent
  else if s.front = 'L' then (parseArgV (s.drop 1).toString).map .lit
  else if s.front = 'V' then some (.var (s.drop 1).toString)
  else none

def parseDflt (s : String) : Option (Option ArgV) :=
  if s = "-" then some none else (parseArgV s).map some

partial def parseArgs : Nat → List String → Option (List Arg × List String)
  | 0, toks => some ([], toks)
  | n + 1, name :: src :: d :: rest => do
    let s ← parseSrc src
    let df ← parseDflt d
    let (as, r) ← parseArgs n rest
    pure (⟨name, s, df⟩ :: as, r)
  | _, _ => none

mutual
partial def parseSel : List String → Option (Sel × List String)
  | "f" :: parent :: name :: ret :: na :: rest => do
    let (as, r1) ← parseArgs (← na.toNat?) rest
    match r1 with
    | ns :: r2 =>
      let (ss, r3) ← parseSels (← ns.toNat?) r2
      pure (.field parent name ret as ss, r3)
    | [] => none
  | "s" :: frag :: ns :: rest => do
    let (ss, r) ← parseSels (← ns.toNat?) rest
    pure (.spread frag ss, r)
  | "i" :: cond :: ns :: rest => do
    let (ss, r) ← parseSels (← ns.toNat?) rest
    pure (.inline cond ss, r)
  | _ => none
partial def parseSels : Nat → List String → Option (List Sel × List String)
  | 0, toks => some ([], toks)
  | n + 1, toks => do
    let (s, r) ← parseSel toks
    let (ss, r') ← parseSels n r
    pure (s :: ss, r')
end

/-- the top level is `nsels,…` -/
def parseDoc (s : String) : Option (List Sel) :=
  match items s "," with
  | ns :: rest =>
    match ns.toNat? with
    | some n =>
      match parseSels n rest with
      | some (ss, []) => some ss
      | _ => none
    | none => none
  | [] => none

def parseObjs (s : String) : Option (List ComplexitySwitch.GObject) :=
  (items s ";").mapM fun o =>
    match o.splitOn ":" with
    | [n, r, fs] => do
      let fields ← (items fs "|").mapM fun f =>
        match f.splitOn ">" with
        | [fn, k, fr] => some ({ name := fn, goName := k, reserved := fr == "1" } : FieldMap.GField)
        | _ => none
      -- `reserved[+Attr…]`: `0+Root+Stream` = not reserved, `$object.Root` and `$object.Stream` hold
      let rs := r.splitOn "+"
      pure { name := n, reserved := rs.head? == some "1", fields := fields, attrs := rs.drop 1 }
    | _ => none

def rootOf (tbl : List ((String × String) × Expr)) : ComplexitySwitch.ComplexityRoot :=
  fun o k => (tbl.lookup (o, k)).map fun e => e.eval

def showEntry : Option (String × String) → String
  | some (o, k) => s!"{o}.{k}"
  | none => "-"

def flavourOf : String → Option ComplexityLabel.Flavour
  | "s" => some Gen.ComplexityLabels.single
  | "f" => some Gen.ComplexityLabels.follow
  | _ => none

/-- a Go selector `ComplexityRoot.<Struct>.<entry>` shown by the schema type whose struct it is -/
def schemaTypeOf (os : List ComplexitySwitch.GObject) (s : String) : String :=
  match os.find? fun o => ComplexityLabel.ucFirst o.name == s with
  | some o => o.name
  | none => s

def showGoEntry (os : List ComplexitySwitch.GObject) : Option (String × String) → String
  | some (s, k) => s!"{schemaTypeOf os s}.{k}"
  | none => "-"

/-- the user's ComplexityRoot value as Go addresses it, from the table keyed by schema type -/
def goRootOf (os : List ComplexitySwitch.GObject) (tbl : List ((String × String) × Expr)) : ComplexityLabel.GoRoot :=
  fun s k => (tbl.lookup (schemaTypeOf os s, k)).map fun e => e.eval

def parseHooks (s : String) : Option (List ExtInstall.Hook) :=
  s.toList.mapM fun c =>
    match c with
    | 'P' => some .param | 'C' => some .ctx | 'O' => some .op | 'R' => some .resp | 'T' => some .rootField | 'F' => some .field
    | _ => none

def parsePAct (s : String) : Option ExtInstall.PAct :=
  if s = "p" then some .pass else if s = "r" then some .rewrite
  else if s.front = 'f' then some (.fail (s.drop 1).toString) else none

def parseCAct (s : String) : Option ExtInstall.CAct :=
  if s = "p" then some .pass
  else if s.front = 'f' then some (.fail (s.drop 1).toString)
  else if s.front = 'l' then ((s.drop 1).toString.toInt?).map .limit else none

def parseCfg (s : String) : Option (List ExtInstall.Ext) :=
  (items s ";").mapM fun e =>
    match e.splitOn ":" with
    | [h, p, c] => do pure { hooks := (← parseHooks h), p := (← parsePAct p), c := (← parseCAct c) }
    | _ => none

def showHook : ExtInstall.Hook → String
  | .param => "P" | .ctx => "C" | .op => "O" | .resp => "R" | .rootField => "T" | .field => "F"

def showResult (r : ExtInstall.Result) : String :=
  let st := match r.stats with | some (c, l) => s!"{c}/{l}" | none => "-"
  let calls := if r.calls.isEmpty then "-" else ",".intercalate (r.calls.map fun c => s!"{showHook c.1}{c.2}")
  s!"{r.execCalls} {r.rejected.getD "-"} {st} {calls}"

def step (line : String) : String :=
  match line.splitOn " " with
  | ["inst", cfg, a, b] =>
    match parseCfg cfg, a.toInt?, b.toInt? with
    | some exts, some a, some b =>
      s!"{showResult (ExtInstall.serveCfg Gen.ExtInstall.program exts ⟨a, b⟩)} {showResult (ExtInstall.Spec.serve exts ⟨a, b⟩)}"
    | _, _, _ => "bad-op"
  | ["gencxl", fl, objs, t, f] =>
    match flavourOf fl, parseObjs objs with
    | some fl, some os => s!"{showGoEntry os (ComplexityLabel.dispatchBy fl os t f)} {showEntry (ComplexitySwitch.Spec.entryOf os t f)}"
    | _, _ => "bad-op"
  | ["gencalcl", fl, objs, ents, sch, vs, doc] =>
    match flavourOf fl, parseObjs objs, parseCustoms ents, parseVars vs, parseDoc doc with
    | some fl, some os, some tbl, some vars, some op =>
      let S := parseSchema sch
      s!"{calculate S (ComplexityLabel.switchCustomBy fl os (goRootOf os tbl)) vars op} {Spec.complexity S (ComplexitySwitch.Spec.boundCustom os (rootOf tbl)) vars op}"
    | _, _, _, _, _ => "bad-op"
  | ["gencx", objs, t, f] =>
    match parseObjs objs with
    | some os => s!"{showEntry (ComplexitySwitch.dispatch os t f)} {showEntry (ComplexitySwitch.Spec.entryOf os t f)}"
    | none => "bad-op"
  | ["gencalc", objs, ents, sch, vs, doc] =>
    match parseObjs objs, parseCustoms ents, parseVars vs, parseDoc doc with
    | some os, some tbl, some vars, some op =>
      let S := parseSchema sch
      let root := rootOf tbl
      s!"{calculate S (ComplexitySwitch.switchCustom os root) vars op} {Spec.complexity S (ComplexitySwitch.Spec.boundCustom os root) vars op}"
    | _, _, _, _ => "bad-op"
  | ["calc", sch, cus, vs, doc] =>
    match parseCustoms cus, parseVars vs, parseDoc doc with
    | some tbl, some vars, some op =>
      let S := parseSchema sch
      let cf := tableCustom tbl
      s!"{calculate S cf vars op} {Spec.complexity S cf vars op}"
    | _, _, _ => "bad-op"
  | ["sa", a, b] =>
    match a.toInt?, b.toInt? with
    | some a, some b => toString (Gen.SafeAdd.safeAdd a b)
    | _, _ => "bad-op"
  | ["saspec", a, b] =>
    match a.toInt?, b.toInt? with
    | some a, some b => toString (if a < 0 ∧ b < 0 then 1 else min Gen.SafeAdd.maxInt (max a 0 + max b 0))
    | _, _ => "bad-op"
  | ["maxint"] => toString Gen.SafeAdd.maxInt
  | ["gate", c, l] =>
    match c.toInt?, l.toInt? with
    | some c, some l =>
      let r := serve [(gate c l).2]
      s!"{r.execCalls} {r.rejected.getD "-"}"
    | _, _ => "bad-op"
  | _ => "bad-op"

end Driver.C14

def main : IO Unit := do
  Driver.loop (← IO.getStdin) (← IO.getStdout) Driver.C14.step
