import Driver.Util
/-! Line-protocol driver for C13 (not built yet). -/
namespace Driver.C13
def step (_line : String) : String := "bad-op"
end Driver.C13

def main : IO Unit := do
  Driver.loop (← IO.getStdin) (← IO.getStdout) Driver.C13.step
