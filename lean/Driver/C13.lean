import Driver.Util
import Driver.ExecIO
import GqlgenVerif.Model.Defer
/-! Driver for C13: first line = schema JSON; every further line = one harness result of an operation
    with @defer. Prints the model's initial payload and the set of deferred-group payloads. -/
open Lean GqlgenVerif Driver.ExecIO
namespace Driver.C13

def payloadJson (p : D.Payload) : Json :=
  Json.mkObj [("path", Json.str (pathStr p.path)), ("label", Json.str p.label),
    ("data", Json.str (render p.data)),
    ("errors", Json.arr ((errStrs p.st.errs).map Json.str).toArray)]

def runCase (s : Schema) (line : String) : String :=
  match Json.parse line with
  | .error e => "bad-json " ++ e
  | .ok j =>
    match j.getObjVal? "doc" with
    | .error _ => "no-doc"
    | .ok dj =>
      let d := doc dj
      let vs := match j.getObjVal? "variables" with | .ok v => vars v | _ => []
      let isQuery := d.opKind == .query
      let rootName := if d.opKind == .mutation then s.mutation else s.query
      match s.type? rootName with
      | none => "no-root"
      | some root =>
        let o := oracle (arr j "log")
        match planFields s (implCollector s d.frags vs isQuery) 100000 root d.sels with
        | none => "out-of-fuel"
        | some fields =>
          let (init, groups) := D.execDeferred o rootName fields
          let allSt := groups.foldl (fun a g => a.append g.st) init.st
          (Json.mkObj [
            ("initial", payloadJson init),
            ("groups", Json.arr (groups.map payloadJson).toArray),
            ("invs", Json.arr ((sortStrs (allSt.invs.map fun (p, h) => p ++ " " ++ h)).map Json.str).toArray),
            ("recovers", Json.num allSt.recovers),
            ("unlogged", Json.arr (allSt.unlogged.map Json.str).toArray)]).compress

partial def loop (h : IO.FS.Stream) (out : IO.FS.Stream) (s : Schema) : IO Unit := do
  let line ← h.getLine
  if line.isEmpty then return ()
  out.putStrLn (runCase s line.trimRight)
  loop h out s

end Driver.C13

def main : IO Unit := do
  let stdin ← IO.getStdin
  let stdout ← IO.getStdout
  let first ← stdin.getLine
  match Json.parse first with
  | .error e => IO.eprintln ("bad schema: " ++ e)
  | .ok j => Driver.C13.loop stdin stdout (schema j)
