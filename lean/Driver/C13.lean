import Driver.Util
import Driver.ExecIO
import GqlgenVerif.Model.Defer
import GqlgenVerif.Model.DeferSpec
/-! Driver for C13: first line = schema JSON; every further line = one harness result of an operation
    with @defer. Prints the model's initial payload and the set of deferred-group payloads. -/
open Lean GqlgenVerif Driver.ExecIO
namespace Driver.C13

def payloadJson (p : D.Payload) : Json :=
  Json.mkObj [("path", Json.str (pathStr p.path)), ("label", Json.str p.label),
    ("data", Json.str (render p.data)),
    ("errors", Json.arr ((errStrs p.st.errs).map Json.str).toArray)]

/-- `a/b/0` → path (response keys are GraphQL names, so a numeric segment is a list index) -/
def pathOf (t : String) : Path :=
  if t == "" then [] else
    (t.splitOn "/").map fun seg => match seg.toNat? with | some n => Seg.idx n | none => Seg.key seg

/-- order-preserving tree encoding written by the check: null | {"l": text} | {"a": [...]} | {"o": [[k, v], ...]} -/
partial def treeOf (j : Json) : Out :=
  match j with
  | .null => .null
  | _ =>
    match j.getObjVal? "l" with
    | .ok (.str t) => .leaf t
    | _ =>
      match j.getObjVal? "a" with
      | .ok (.arr xs) => .list (xs.toList.map treeOf)
      | _ =>
        match j.getObjVal? "o" with
        | .ok (.arr kvs) => .obj (kvs.toList.map fun kv =>
            match kv with
            | .arr #[.str k, v] => (k, treeOf v)
            | _ => ("?", .null))
        | _ => .null

def errsOf (j : Json) : List (String × String) :=
  (arr j "errors").map fun e => match e with
    | .arr #[.str p, .str m] => (p, m)
    | _ => ("?", "?")

def wpOf (j : Json) : DeferSpec.WP :=
  let t := match j.getObjVal? "tree" with | .ok v => treeOf v | _ => .null
  { path := pathOf (str j "path"), label := str j "label",
    data := match t with | .obj fs => some fs | _ => none,
    root := t, errs := errsOf j,
    hasNext := match j.getObjVal? "hasNext" with | .ok (.bool b) => some b | _ => none }

/-- what a JSON decoder makes of an object with a repeated key (F01's shape): first position, last value -/
partial def dedupKeys : Out → Out
  | .obj fs => .obj (DeferSpec.setKeys [] (fs.map fun (k, v) => (k, dedupKeys v)))
  | .list xs => .list (xs.map dedupKeys)
  | o => o

/-- the defer model's own payloads as a client would receive them (model order, hasNext as the response
    function sets it) -/
def modelWire (init : D.Payload) (groups : List D.Payload) : List DeferSpec.WP :=
  let n := groups.length
  let mk (p : D.Payload) (i : Nat) : DeferSpec.WP :=
    { path := p.path, label := p.label, data := match dedupKeys p.data with | .obj fs => some fs | _ => none,
      root := dedupKeys p.data,
      errs := p.st.errs.map fun e => (pathStr e.path, e.msg),
      hasNext := if n == 0 then none else some (decide (i < n)) }
  mk init 0 :: (groups.zipIdx.map fun (g, i) => mk g (i + 1))

def runCase (s : Schema) (line : String) : String :=
  match Json.parse line with
  | .error e => "bad-json " ++ e
  | .ok j =>
    match j.getObjVal? "doc" with
    | .error _ => "no-doc"
    | .ok dj =>
      let d := doc dj
      let vs := match j.getObjVal? "variables" with | .ok v => vars v | _ => []
      let isQuery := d.opKind == .query
      let rootName := if d.opKind == .mutation then s.mutation else s.query
      match s.type? rootName with
      | none => "no-root"
      | some root =>
        let o := oracle (arr j "log")
        match planFields s (implCollector s d.frags vs isQuery) 100000 root d.sels with
        | none => "out-of-fuel"
        | some fields0 =>
          let around := (j.getObjValAs? Bool "around").toOption.getD false
          let fields := if around then fieldsAround fields0 else fields0
          let (init, groups) := D.execDeferred o rootName fields
          let allSt := groups.foldl (fun a g => a.append g.st) init.st
          -- the C13 statement itself (Model/DeferSpec.lean) on the implementation's payloads in arrival order
          let clauses : List String := match j.getObjVal? "wire", j.getObjVal? "plainWire" with
            | .ok (.arr ws), .ok pw =>
              let pt := match pw.getObjVal? "tree" with | .ok v => treeOf v | _ => .null
              DeferSpec.check (ws.toList.map wpOf) pt (errsOf pw)
            | _, _ => ["no-wire"]
          -- ... and on the model's own payloads against the implementation's plain run
          let modelClauses : List String := match j.getObjVal? "plainWire" with
            | .ok pw =>
              let pt := match pw.getObjVal? "tree" with | .ok v => treeOf v | _ => .null
              DeferSpec.check (modelWire init groups) pt (errsOf pw)
            | _ => ["no-wire"]
          (Json.mkObj [
            ("clauses", Json.arr (clauses.map Json.str).toArray),
            ("modelClauses", Json.arr (modelClauses.map Json.str).toArray),
            ("initial", payloadJson init),
            ("groups", Json.arr (groups.map payloadJson).toArray),
            ("invs", Json.arr ((sortStrs (allSt.invs.map fun (p, h) => p ++ " " ++ h)).map Json.str).toArray),
            ("recovers", Json.num allSt.recovers),
            ("unlogged", Json.arr (allSt.unlogged.map Json.str).toArray)]).compress

partial def loop (h : IO.FS.Stream) (out : IO.FS.Stream) (s : Schema) : IO Unit := do
  let line ← h.getLine
  if line.isEmpty then return ()
  out.putStrLn (runCase s line.trimRight)
  loop h out s

end Driver.C13

def main : IO Unit := do
  let stdin ← IO.getStdin
  let stdout ← IO.getStdout
  let first ← stdin.getLine
  match Json.parse first with
  | .error e => IO.eprintln ("bad schema: " ++ e)
  | .ok j => Driver.C13.loop stdin stdout (schema j)
