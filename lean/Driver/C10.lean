import Driver.Util
/-! Line-protocol driver for C10 (not built yet). -/
namespace Driver.C10
def step (_line : String) : String := "bad-op"
end Driver.C10

def main : IO Unit := do
  Driver.loop (← IO.getStdin) (← IO.getStdout) Driver.C10.step
