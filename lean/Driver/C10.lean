import Driver.Util
import GqlgenVerif.Model.Upload
import GqlgenVerif.Gen.AddUploadGuards
import GqlgenVerif.Gen.DecodeSites
import GqlgenVerif.Model.WsClose
import GqlgenVerif.Gen.WsCloseReasons
import GqlgenVerif.Model.ReqHist
import GqlgenVerif.Gen.ParseGate
import GqlgenVerif.Model.ReadSeeker
import GqlgenVerif.Gen.ReaderFacts
/-! Line-protocol driver for C10: runs the `Upload` model (with the guards / decode sites regenerated
from /repo) on the cases printed by `go/harness/c10`. -/
open GqlgenVerif GqlgenVerif.Upload
namespace Driver.C10

def guards : Guards := Gen.AddUploadGuards.guards

def bytesToString (bs : List Nat) : String :=
  let ba : ByteArray := ⟨(bs.map (fun b => UInt8.ofNat b)).toArray⟩
  match String.fromUTF8? ba with
  | some s => s
  | none => String.ofList (bs.map Char.ofNat)

def unhexStr (h : String) : Option String := (unhex h).map bytesToString
def unhexKey (h : String) : Option Key := (unhexStr h).map String.toList

def hex4 (n : Nat) : String :=
  String.ofList [nib (n / 4096 % 16), nib (n / 256 % 16), nib (n / 16 % 16), nib (n % 16)]

def jsonQuote (s : List Char) : String :=
  "\"" ++ String.join (s.map fun c =>
    if c = '"' then "\\\"" else if c = '\\' then "\\\\"
    else if c.toNat < 32 then "\\u" ++ hex4 c.toNat else String.singleton c) ++ "\""

/-- prefix tokens: n t f N i<text> s<hex> u<id> a<k> o<k> (k<hex> node)* -/
partial def parseNode : List String → Option (UV × List String)
  | [] => none
  | tok :: rest =>
    let body := (tok.drop 1).toString
    match tok.front with
    | 'n' => some (.null, rest)
    | 'N' => some (.nilmap, rest)
    | 't' => some (.leaf "true".toList, rest)
    | 'f' => some (.leaf "false".toList, rest)
    | 'i' => some (.leaf body.toList, rest)
    | 's' => (unhexStr body).map fun s => (.leaf (jsonQuote s.toList).toList, rest)
    | 'u' => body.toNat?.map fun i => (.upload i, rest)
    | 'a' => do
      let n ← body.toNat?
      let rec goA (k : Nat) (toks : List String) (acc : List UV) : Option (List UV × List String) :=
        if k = 0 then some (acc.reverse, toks) else
        match parseNode toks with
        | some (v, r) => goA (k - 1) r (v :: acc)
        | none => none
      let (xs, r) ← goA n rest []
      pure (.arr xs, r)
    | 'o' => do
      let n ← body.toNat?
      let rec go (k : Nat) (toks : List String) (acc : List (Key × UV)) : Option (List (Key × UV) × List String) :=
        if k = 0 then some (acc.reverse, toks) else
        match toks with
        | kt :: r1 =>
          match unhexKey (kt.drop 1).toString, parseNode r1 with
          | some key, some (v, r) => go (k - 1) r ((key, v) :: acc)
          | _, _ => none
        | [] => none
      let (kvs, r) ← go n rest []
      pure (.obj kvs, r)
    | _ => none

def parseTree (s : String) : Option UV :=
  match parseNode (s.splitOn ",") with
  | some (v, []) => some v
  | _ => none

partial def render (u : Nat → String) : UV → String
  | .null => "null"
  | .nilmap => "null"
  | .leaf t => String.ofList t
  | .upload i => u i
  | .arr xs => "[" ++ ",".intercalate (xs.map (render u)) ++ "]"
  | .obj kvs => "{" ++ ",".intercalate (kvs.map fun (k, v) => jsonQuote k ++ ":" ++ render u v) ++ "}"

def auErr : AuErr → String
  | .noPrefix => "prefix" | .nilPtr => "nilptr" | .badPath => "badpath"

def panicName : Panic → String
  | .typeAssert => "type-assert" | .indexRange => "index-range" | .nilMapWrite => "nil-map-write"

def auRun (g : Guards) : UV → List (List Char) → Nat → String
  | v, [], _ => "ok " ++ render (fun i => "{\"$u\":" ++ toString i ++ "}") v
  | v, p :: ps, i =>
    match addUpload g v p (.upload i) with
    | .ok v' => auRun g v' ps (i + 1)
    | .err e => s!"err {i} {auErr e}"
    | .panic k => s!"panic {i} {panicName k}"

def exitName : Exit → String
  | .tooLarge => "too-large" | .badMultipart => "bad-multipart" | .firstNotOps => "first-not-ops"
  | .opsDecode => "ops-decode" | .secondNotMap => "second-not-map" | .mapDecode => "map-decode"
  | .partError => "part-error" | .emptyPaths => "empty-paths" | .readFile => "read-file"
  | .createTemp => "create-temp" | .copyTemp => "copy-temp" | .closeTemp => "close-temp"
  | .openTemp => "open-temp" | .addUpload e => "au-" ++ auErr e | .panicked _ => "recovered-panic"
  | .missingKey => "missing-key" | .exec => "exec"

def parseFault : String → Option Fault
  | "n" => some .none | "x" => some .next | "r" => some .read | _ => none

def parsePart (s : String) : Option Part :=
  match s.splitOn ":" with
  | [n, f, c, h, z, fl] => do
    pure ⟨← unhexKey n, ← unhexKey f, ← unhexKey c, ← h.toNat?, ← z.toNat?, ← parseFault fl⟩
  | _ => none

def parseParts (s : String) : Option (List Part) :=
  if s = "-" then some [] else (s.splitOn ";").mapM parsePart

def parseMap (s : String) : Option MapClass :=
  if s = "E" || s = "-" then some .err else
  if s = "M" then some (.ok []) else
  let body := (s.drop 1).toString
  (body.splitOn "&").mapM (fun (e : String) =>
    match e.splitOn "=" with
    | [k, ps] => do
      let key ← unhexKey k
      let paths ← if ps = "" then some [] else (ps.splitOn "|").mapM unhexKey
      pure (key, paths)
    | _ => none) |>.map MapClass.ok

def parseOps (s : String) : Option OpsClass :=
  if s = "E" || s = "-" then some .err else
  if s = "VN" then some (.ok .nilmap) else
  (parseTree (s.drop 1).toString).map OpsClass.ok

def mpRun (fields : List String) : String :=
  match fields with
  | [mu, mm, cl, dl, tl, fault, ct, _q, ops, mp, sd, parts, term] =>
    let r : Option String := do
      let cfg : Cfg := ⟨← mu.toInt?, ← mm.toInt?⟩
      let fs : FsPlan := ⟨fun _ => fault == "C", fun _ => false, fun _ => false⟩
      let req : Req := {
        cfg := cfg, contentLength := ← cl.toInt?, dlen := ← dl.toNat?, tail := ← tl.toNat?,
        boundaryOk := ct == "ok", fs := fs, ops := ← parseOps ops, map := ← parseMap mp,
        opsSelfDelim := sd.startsWith "1", mapSelfDelim := sd.endsWith "1",
        parts := ← parseParts parts, term := if term == "eof" then .eof else .err }
      let res := run guards req
      let rs := res.during.readers.reverse
      let kind (i : Nat) : String :=
        match rs.find? (·.id == i) with
        | some r => s!"\{\"part\":{r.part},\"kind\":\"{if r.file.isSome then "f" else "m"}\"}"
        | none => "\"?\""
      let tree := if res.exit == .exec then render (fun i => "{\"$u\":" ++ kind i ++ "}") res.during.vars else "-"
      let status := match res.exit.status with | some s => toString s | none => "-"
      pure s!"{exitName res.exit} {status} during={res.during.live.length} tmp={res.final.live.length} openh={res.final.openH.length} mem={res.during.mem} disk={res.during.disk} off={res.during.off} readers={rs.length} tree={tree}"
    r.getD "bad-op"
  | _ => "bad-op"

def classOf : String → Option BodyClass
  | "null" => some .null | "ok" => some .ok | "err" => some .err | "plain" => some .plain | _ => none

def siteOf (name : String) : Option Site :=
  match Gen.DecodeSites.sites.find? (·.name == name) with
  | some s => some s
  | none => if name == "graphql" || name == "get" then some ⟨name, .value⟩ else none

def envRun (name cls : String) : String :=
  match siteOf name, classOf cls with
  | some s, some c =>
    match envelope s c with
    | .clientError => s!"client-error {errStatus name}"
    | .exec => "exec"
    | .panic => "panic"
  | _, _ => "any"

/-! ### close frames (rows `wl`, `cf`) -/
open GqlgenVerif.WsClose in
/-- the close site that answers a start/subscribe whose id is still active: the one site of `run`
whose reason echoes client bytes -/
def dupSite : Option CloseSite :=
  Gen.WsCloseReasons.sites.find? fun st => st.fn == "run" && (match st.reason with | .echo _ _ .client _ => true | _ => false)

open GqlgenVerif.WsClose in
def showWire (site : CloseSite) (s : Bytes) (w : Wire) : String :=
  let spec := if specOk site s w then "ok" else "FAIL"
  match w with
  | .close c r => s!"close:{c} {hex r} spec={spec}"
  | .dropped => s!"dropped - spec={spec}"
  | .panic => s!"panic - spec={spec}"

open GqlgenVerif.WsClose in
/-- model: what the client sees after the second start/subscribe under the id `s` -/
def wlRun (scen hs : String) : String :=
  if scen != "dup" && scen != "dupq" then "any" else
  match dupSite, unhex hs with
  | some site, some s => showWire site s (wire site s)
  | _, _ => "bad-op"

open GqlgenVerif.WsClose in
/-- Spec evaluated on what the implementation sent: `wlspec <hex id> <close code | dropped> <hex reason>` -/
def wlSpec (hs obs hr : String) : String :=
  match dupSite, unhex hs, unhex hr with
  | some site, some s, some r =>
    let w : Wire := match obs.toNat? with
      | some c => .close c r
      | none => .dropped
    if specOk site s w then "ok" else "FAIL"
  | _, _, _ => "bad-op"

open GqlgenVerif.WsClose in
/-- `wcsite <code> <hex reason>`: is this close one the transport has once a connection is initialised
(a regenerated site of `run` / `closeOnCancel`: literal reason, or prefix ++ client string ++ suffix)? -/
def wcSite (code hr : String) : String :=
  match code.toNat?, unhex hr with
  | some c, some r =>
    let hit := Gen.WsCloseReasons.sites.filter fun s =>
      (s.fn == "run" || s.fn == "closeOnCancel") && s.code == c &&
      (match s.reason with
       | .lit t => t == r
       | .echo pre suf _ _ => pre.length + suf.length ≤ r.length && r.take pre.length == pre && r.drop (r.length - suf.length) == suf)
    match hit with
    | s :: _ => "site:" ++ s.fn
    | [] => "none"
  | _, _ => "bad-op"

open GqlgenVerif.WsClose in
/-- gorilla's rule for a close frame with a reason of `n` bytes -/
def cfRun (n : Nat) : String :=
  match frame 4000 (List.replicate n 0x72) with
  | .close _ r => s!"close:4000 {r.length}"
  | _ => "dropped"

open GqlgenVerif.ReqHist in
/-- request history: `hs <cap> <apq 0|1> <class of document 0,1,2,… as p|n|i|v> <steps: x | <doc>/<-|inv|ver|h<doc>>>` -/
def hsRun (g : Gate) (cap apq tbl steps : String) : String :=
  let clsOf : String → QClass := fun c => if c == "p" then .parseErr else if c == "n" then .noOp else if c == "i" then .invalid else .valid
  let table : List QClass := if tbl == "-" then [] else (tbl.splitOn ",").map clsOf
  let cls : Nat → QClass := fun q => table.getD q .noOp
  let stepOf : String → Option Step := fun t =>
    if t == "x" then some .unreached else
    match t.splitOn "/" with
    | [q, a] =>
      match q.toNat? with
      | none => none
      | some qn =>
        if a == "-" then some (.op qn .none)
        else if a == "inv" then some (.op qn .invalid)
        else if a == "ver" then some (.op qn .version)
        else if a.startsWith "h" then (a.drop 1).toNat?.map fun h => .op qn (.hash h)
        else none
    | _ => none
  let cn : QClass → String := fun c => match c with | .parseErr => "parseErr" | .noOp => "noOp" | .invalid => "invalid" | .valid => "valid"
  let outName : Out → String := fun o => match o with
    | .parseError => "parse-error" | .noOperation => "no-operation" | .validationError => "validation-error"
    | .run c => "run:" ++ cn c
    | .apqNotFound => "apq-notfound" | .apqMismatch => "apq-mismatch" | .apqVersion => "apq-version" | .apqInvalid => "apq-invalid"
    | .notReached => "x"
  match cap.toNat?, (steps.splitOn ";").mapM stepOf with
  | some c, some xs => ";".intercalate ((runAll g c (apq == "1") cls St.init xs).map outName)
  | _, _ => "bad-op"

/-! ### `rs`: what user code does with the readers of an upload (Model/ReadSeeker) -/
section ReadSeekerOps
open GqlgenVerif.ReadSeeker

def rsInt (s : String) : Option Int :=
  if s.startsWith "-" then (s.drop 1).toNat?.map fun n => -(n : Int) else s.toNat?.map fun n => (n : Int)

/-- `<k>r<n>` | `<k>s<whence>:<off>` -/
def rsOp (t : String) : Option (Nat × Op) :=
  let ds := t.toList.takeWhile Char.isDigit
  let rest := t.toList.drop ds.length
  match (String.ofList ds).toNat?, rest with
  | some k, 'r' :: n => (String.ofList n).toNat?.map fun n => (k, .read n)
  | some k, 's' :: a =>
    match (String.ofList a).splitOn ":" with
    | [w, o] => match rsInt w, rsInt o with
      | some w, some o => some (k, .seek w o)
      | _, _ => none
    | _ => none
  | _, _ => none

def rsReader (t : String) : Option (Kind × List Nat) :=
  match t.splitOn ":" with
  | ["m", h] => (unhex h).map fun d => (Kind.mem, d)
  | ["f", h] => (unhex h).map fun d => (Kind.file, d)
  | _ => none

def rsShow : ReadSeeker.Res → String
  | .data bs e => "d" ++ hex bs ++ (if e then ":e" else ":n")
  | .at a => "a" ++ toString a
  | .refused => "x"
  | .panic => "P"

def rsRun (readers script : String) : String :=
  match (readers.splitOn ";").mapM rsReader, (script.splitOn ",").mapM rsOp with
  | some rs, some ops =>
    if ops.any (fun o => o.1 ≥ rs.length) then "bad-op" else
    let F := Gen.ReaderFacts.facts
    let get := fun (k : Nat) => rs.getD k (Kind.mem, [])
    let impl := fun (k : Nat) (p : Int) (o : Op) =>
      match get k with
      | (.mem, d) => stepImpl F d p o
      | (.file, d) => stepSpec .file d p o
    let spec := fun (k : Nat) (p : Int) (o : Op) => stepSpec (get k).1 (get k).2 p o
    let mem := fun (k : Nat) (p : Int) (o : Op) => stepSpec .mem (get k).2 p o
    let init := fun (k : Nat) => match get k with | (.mem, _) => F.initPos | _ => 0
    let sh := fun (l : List (Nat × ReadSeeker.Res)) => ",".intercalate (l.map fun x => rsShow x.2)
    "impl=" ++ sh (runMulti impl init ops) ++ " spec=" ++ sh (runMulti spec (fun _ => 0) ops)
      ++ " mem=" ++ sh (runMulti mem (fun _ => 0) ops) ++ " perPath=" ++ toString F.perPath
  | _, _ => "bad-op"

end ReadSeekerOps

/-- one line in, one line out -/
def step (line : String) : String :=
  match line.splitOn " " with
  | ["au", t, ps] =>
    match parseTree t, (ps.splitOn ";").mapM unhexKey with
    | some v, some paths => auRun guards v paths 0
    | _, _ => "bad-op"
  | ["auorig", t, ps] =>       -- the code before the repair (history / mutation search)
    match parseTree t, (ps.splitOn ";").mapM unhexKey with
    | some v, some paths => auRun Guards.none v paths 0
    | _, _ => "bad-op"
  | "mp" :: fields => mpRun fields
  | ["tr", name, cls] => if name == "form" then "any" else envRun name cls
  | ["ws", _proto, phase, cls] => if cls == "-" || phase != "post" then "any" else envRun "ws" cls
  | ["wl", _proto, scen, hs] => wlRun scen hs
  | ["wlspec", hs, obs, hr] => wlSpec hs obs hr
  | ["cf", n] => match n.toNat? with
    | some k => cfRun k
    | none => "bad-op"
  | ["hs", cap, apq, tbl, steps] => hsRun Gen.ParseGate.gate cap apq tbl steps
  | ["hsall", cap, apq, tbl, steps] => hsRun GqlgenVerif.ReqHist.Gate.all cap apq tbl steps   -- the complete gate (search for a failing input when the regenerated one is not)
  | ["rs", readers, script] => rsRun readers script
  | "wc" :: _ => "any"
  | "xc" :: _ => "any"
  | ["wcsite", code, hr] => wcSite code hr
  | ["gate"] => reprStr Gen.ParseGate.gate
  | ["guards"] => reprStr guards
  | _ => "bad-op"

end Driver.C10

def main : IO Unit := do
  Driver.loop (← IO.getStdin) (← IO.getStdout) Driver.C10.step
