import Driver.Util
/-! Line-protocol driver for C09 (not built yet). -/
namespace Driver.C09
def step (_line : String) : String := "bad-op"
end Driver.C09

def main : IO Unit := do
  Driver.loop (← IO.getStdin) (← IO.getStdout) Driver.C09.step
