import Driver.Util
import GqlgenVerif.Model.HttpHist
open GqlgenVerif GqlgenVerif.Http GqlgenVerif.HttpHist GqlgenVerif.Gen.HttpStatus
/-! Line protocol driver for C09.

    c   <srv> <method> <up> <rct> <accept> <dec> <param> <doc> <opName> <vars> <exec>   → `<status> <ct> <body> <exec>`
        param = `0` | `nocode` | `<code>` (APQ refuses) | `ctx:nocode` | `ctx:<code>` (an OperationContextMutator refuses)
        doc   = `P` (syntax error) | `PL` (plain parser error: token limit) | `I` | `V<ops>`
    chk <the same 11 tokens> <status> <ct> <body> <exec>                                 → `ok` | violated clauses
    st  <codes>                                                                          → `<statusFor> <statusForGraphQLResponse>`
    ct  <explicit> <accept>                                                              → `<determineCT> <Spec.negotiate>`
    guard                                                                                → kinds GET.Do lets through
    seq <srv>|<world>|<event>|<event>…                                                   → `<resp>|<resp>…` (history model)
        world  = `id=P` | `id=I<ops>` | `id=V<ops>` joined by `,` (what gqlparser makes of query text `id`; 0 = "")
        event  = the 11 tokens of `c` (doc / param / opName are ignored) + `<query id> <~ | =operationName> <~ | hash id>`
    pq                                                                                   → parseQuery's steps as regenerated
-/
namespace Driver.C09

def unslash (s : String) : String := s.replace "%" "/"

def parseMethod : String → Option Method
  | "GET" => some .get | "POST" => some .post | "HEAD" => some .head | "OPTIONS" => some .options
  | "OTHER" => some .other | _ => none

def parseRct : String → Option ReqCT
  | "json" => some .json | "graphql" => some .graphql | "urlencoded" => some .urlencoded
  | "multipart" => some .multipart | "other" => some .other | "invalid" => some .invalid | _ => none

def parseKind : String → Option TKind
  | "O" => some .options | "G" => some .get | "P" => some .post | "Q" => some .graphql
  | "U" => some .urlenc | "M" => some .multipart | _ => none

def optStr (s : String) : Option String := if s = "~" then none else some (unslash s)

def parseTransport (s : String) : Option Transport :=
  match s.splitOn "/" with
  | [k, ct, o] => (parseKind k).map fun k => { kind := k, hdrs := { ct := optStr ct, others := o = "1" } }
  | _ => none

def parseSrv (s : String) : Option (List Transport) :=
  if s = "-" then some [] else (s.splitOn ",").mapM parseTransport

def parseAccept (s : String) : Option (List (Option String)) :=
  if s = "~" then none else some ((s.splitOn ",").map fun p => if p = "!" then none else some (unslash p))

def parseDec : String → Option (Option DecFail)
  | "~" => some none
  | "getQuery" => some (some .getQuery) | "getVars" => some (some .getVars) | "getExt" => some (some .getExt)
  | "postJson" => some (some .postJson) | "gqlEscape" => some (some .gqlEscape)
  | "ueJson" => some (some .ueJson) | "ueEscape" => some (some .ueEscape)
  | "mpTooLarge" => some (some .mpTooLarge)
  | s => if s.startsWith "mp" then some (some .mpForm) else none

def parseOpKind : String → Option AstOp
  | "q" => some .astQuery | "m" => some .astMutation | "s" => some .astSubscription | _ => none

def parseOp (s : String) : Option Op :=
  match s.splitOn "." with
  | [k, n] => (parseOpKind k).map fun k => { kind := k, name := n }
  | _ => none

def parseDoc (s : String) : Option Doc :=
  if s = "P" || s = "PL" then some .parseErr      -- PL: the parser failed with a plain error (token limit)
  else if s = "I" then some .invalid
  else if s = "V" then some (.ops [])
  else if s.startsWith "V" then ((s.drop 1).toString.splitOn ":").mapM parseOp |>.map Doc.ops
  else none

def parseCode (s : String) : Option (Option String) :=
  if s = "nocode" then some none else some (some s)

/-- `0` | `nocode` | `<code>`: a parameter mutator (APQ) refuses; `ctx:nocode` | `ctx:<code>`: an operation-context
    mutator refuses -/
def parseParam (s : String) : Option (Option String) :=
  if s = "0" || s.startsWith "ctx:" then none else parseCode s

def parseCtx (s : String) : Option (Option String) :=
  if s.startsWith "ctx:" then parseCode (s.drop 4).toString else none

def parseReq (t : List String) : Option (List Transport × Req) :=
  match t with
  | [srv, m, up, rct, acc, dec, param, doc, opn, vars, ex] => do
    let srv ← parseSrv srv
    let m ← parseMethod m
    let rct ← parseRct rct
    let dec ← parseDec dec
    let d ← parseDoc doc
    pure (srv, { method := m, upgrade := up = "1", rct := rct, accept := parseAccept acc, dec := dec,
                 paramErr := parseParam param, doc := d, opName := if opn = "~" then "" else opn,
                 varsOk := vars = "1", execErr := ex = "err", parsePlain := doc = "PL", ctxErr := parseCtx param })
  | _ => none

def showOp (o : Op) : String :=
  (match o.kind with | .astQuery => "q" | .astMutation => "m" | .astSubscription => "s") ++ "." ++ o.name

def showBody : Body → String
  | .empty => "empty" | .errors => "errors" | .data => "data" | .bad => "bad"

def showResp (o : Resp) : String :=
  s!"{o.status} {o.ctype.getD "none"} {showBody o.body} {match o.executed with | some op => showOp op | none => "-"}"

def parseBody : String → Body
  | "empty" => .empty | "errors" => .errors | "data" => .data | _ => .bad

def parseResp (t : List String) : Option Resp :=
  match t with
  | [st, ct, body, ex] => do
    let st ← st.toNat?
    let ex ← if ex = "-" then some none else (parseOp ex).map some
    pure { status := st, ctype := if ct = "none" then none else some ct, body := parseBody body, executed := ex }
  | _ => none

def parseWorldEntry (s : String) : Option (Nat × Option (List Op) × Bool) :=
  match s.splitOn "=" with
  | [id, d] => do
    let id ← id.toNat?
    if d = "P" || d = "PL" then pure (id, none, false)
    else
      let valid := d.startsWith "V"
      let rest := (d.drop 1).toString
      let ops ← if rest = "" then some [] else (rest.splitOn ":").mapM parseOp
      pure (id, some ops, valid)
  | _ => none

def parseWorld (s : String) : Option World :=
  if s = "-" then some { parses := fun _ => none, valid := fun _ => false } else do
    let es ← (s.splitOn ",").mapM parseWorldEntry
    pure { parses := fun q => ((es.find? (·.1 = q)).map (·.2.1)).join,
           valid := fun q => ((es.find? (·.1 = q)).map (·.2.2)).getD false }

def parseEv (s : String) : Option (List Transport × Ev) :=
  let t := s.splitOn " "
  match parseReq (t.take 11), t.drop 11 with
  | some (srv, r), [q, opn, h] => do
    let q ← q.toNat?
    let h ← if h = "~" then some none else h.toNat?.map some
    pure (srv, { req := { r := r, query := q, opNameSent := if opn = "~" then none else some (opn.drop 1).toString, apqHash := h },
                 keep := fun _ => true })
  | _, _ => none

def showStep : GqlgenVerif.Gen.HttpHistory.PQStep → String
  | .getHit => "getHit" | .parse => "parse" | .retParseErr => "retParseErr" | .retNoOp => "retNoOp"
  | .validate => "validate" | .retInvalid => "retInvalid" | .add => "add" | .retOk => "retOk"

def seqStep (line : String) : String :=
  match line.splitOn "|" with
  | srv :: world :: evs =>
    match parseSrv srv, parseWorld world, evs.mapM parseEv with
    | some srv, some w, some evs => "|".intercalate ((run w srv St.init (evs.map (·.2))).map showResp)
    | _, _, _ => "bad-op"
  | _ => "bad-op"

def step (line : String) : String :=
  if line.startsWith "seq " then seqStep (line.drop 4).toString else
  match line.splitOn " " with
  | ["pq"] => " ".intercalate (GqlgenVerif.Gen.HttpHistory.parseQueryProg.map showStep)
  | "c" :: rest =>
    match parseReq rest with
    | some (srv, r) => showResp (serve srv r)
    | none => "bad-op"
  | "chk" :: rest =>
    match parseReq (rest.take 11), parseResp (rest.drop 11) with
    | some (srv, r), some o =>
      match Spec.violations srv r o with
      | [] => "ok"
      | vs => "violates:" ++ ",".intercalate vs
    | _, _ => "bad-op"
  | ["st", codes] =>
    let cs : List (Option String) :=
      if codes = "-" then [] else (codes.splitOn ",").map fun c => if c = "~" then none else some c
    s!"{statusFor (getErrorKind cs)} {statusForGraphQLResponse (getErrorKind cs)}"
  | ["ct", e, acc] =>
    s!"{determineCT (optStr e) (parseAccept acc)} {Spec.negotiate (optStr e) (parseAccept acc)}"
  | ["guard"] =>
    " ".intercalate (([AstOp.astQuery, .astMutation, .astSubscription].filter fun k => !getRefuses k).map
      fun k => showOp { kind := k, name := "" })
  | _ => "bad-op"

end Driver.C09

def main : IO Unit := do
  Driver.loop (← IO.getStdin) (← IO.getStdout) Driver.C09.step
