import Driver.Util
/-! Line-protocol driver for C20 (not built yet). -/
namespace Driver.C20
def step (_line : String) : String := "bad-op"
end Driver.C20

def main : IO Unit := do
  Driver.loop (← IO.getStdin) (← IO.getStdout) Driver.C20.step
