import Lean.Data.Json
import GqlgenVerif.Model.Entities
/-!
Line-protocol driver for C20. Lines:

* `cfg <json>`   — the entity table printed by `go/harness/c20 -mode config` (kept until the next `cfg`); answers `ok`
* `case <json>`  — one case (`reps`, `plan`) of `go/harness/c20 -mode cases`; answers one JSON object with
  `impl` (what the model of the generated code predicts: data, errors, entity-resolver calls), `spec` (every
  representation resolved directly, by itself) and `groups` (facts about the batch groups used to classify
  a deviation between the two).

The user code of a case (`User`) is the mirror of the plan-driven stubs in `go/harness/c20/rt/rt.go`.
-/
open Lean GqlgenVerif.Entities

namespace Driver.C20

def str (j : Json) (k : String) : String := (j.getObjValAs? String k).toOption.getD ""
def boolD (j : Json) (k : String) : Bool := (j.getObjValAs? Bool k).toOption.getD false
def arr (j : Json) (k : String) : List Json :=
  match j.getObjVal? k with
  | .ok (.arr a) => a.toList
  | _ => []
def strs (j : Json) (k : String) : List String := (arr j k).filterMap fun x => x.getStr?.toOption

def ktype (s : String) : KType :=
  match s with
  | "ID!" => .id | "String!" => .string | "Int!" => .int
  | "ID" => .optId | "Int" => .optInt | _ => .optString

structure KeyAux where
  goField : String

structure EntAux where
  name : String
  fields : List String
  reqFields : List String
  requires : List (List String)
  /-- response field showing the call an element was resolved by (`tag`, or a key-only entity's first ID/String field) -/
  carrier : String := ""

structure Aux where
  cfg : Cfg
  noptr : Bool
  /-- resolver name ↦ (Go name, Go names of the input struct fields) -/
  res : List (String × String × List String)
  ents : List EntAux

def keyField (j : Json) : KeyField :=
  { path := strs j "path", ty := ktype (str j "type"), defName := str j "defName" }

def decodeCfg (j : Json) : Aux :=
  let ents := arr j "entities"
  { cfg :=
      { entities := ents.map fun e =>
          { name := str e "name", multi := boolD e "multi",
            resolvers := (arr e "resolvers").map fun r => { name := str r "name", keys := (arr r "keys").map keyField },
            requires := (arr e "requires").map keyField },
        explicitRequires := boolD j "explicit", computedRequires := boolD j "computed" },
    noptr := boolD j "noptr",
    res := ents.flatMap fun e => (arr e "resolvers").map fun r =>
      (str r "name", str r "goName", (arr r "keys").map fun k => str k "goField"),
    ents := ents.map fun e =>
      { name := str e "name", fields := strs e "fields", reqFields := strs e "reqFields",
        requires := (arr e "requires").map fun k => strs k "path", carrier := str e "carrier" } }

partial def jv (j : Json) : JV :=
  match j with
  | .null => .null
  | .str s => .str s
  | .bool b => .bool b
  | .num n => .num n.mantissa
  | .arr a => .arr (a.toList.map jv)
  | .obj m => .obj (m.toList.map fun (k, v) => (k, jv v))

def repOf (j : Json) : Rep :=
  match jv j with
  | .obj fs => fs
  | _ => []

/-! canonical renderings (mirror of rt.RenderKey / rt.RenderJSON) -/

def quote (s : String) : String :=
  "\"" ++ String.join (s.toList.map fun c => if c == '"' || c == '\\' then "\\" ++ c.toString else c.toString) ++ "\""

def renderKV : KV → String
  | .str s => quote s
  | .int n => toString n
  | .nil => "nil"

def insertSorted (x : String × JV) : List (String × JV) → List (String × JV)
  | [] => [x]
  | y :: ys => if x.1 < y.1 then x :: y :: ys else y :: insertSorted x ys

partial def renderJV : JV → String
  | .null => "null"
  | .str s => quote s
  | .num n => toString n
  | .bool b => toString b
  | .arr xs => "[" ++ ",".intercalate (xs.map renderJV) ++ "]"
  | .obj fs =>
    let sorted := fs.foldr insertSorted []
    "{" ++ ",".intercalate (sorted.map fun (k, v) => k ++ ":" ++ renderJV v) ++ "}"

/-! the plan -/

structure Oc where
  kind : String := ""
  msg : String := ""
  op : String := ""

abbrev Plan := List (String × Oc)

def decodePlan (j : Json) : Plan :=
  match j.getObjVal? "plan" with
  | .ok (.obj m) => m.toList.map fun (k, v) => (k, { kind := str v "kind", msg := str v "msg", op := str v "op" })
  | _ => []

def planLookup (p : Plan) (keys : List String) : Oc :=
  match keys.findSome? fun k => p.lookup k with
  | some o => o
  | none => {}

def popFault (rep : Rep) : String × String :=
  match rep.lookup "_pop" with
  | some (.str v) =>
    match v.splitOn ":" with
    | k :: rest@(_ :: _) => (k, ":".intercalate rest)
    | _ => ("", "")
  | _ => ("", "")

def goNameOf (a : Aux) (name : String) : String := ((a.res.lookup name).map (·.1)).getD name
def goFieldsOf (a : Aux) (name : String) : List String := ((a.res.lookup name).map (·.2)).getD []

def singleCall (a : Aux) (name : String) (args : List KV) : String :=
  goNameOf a name ++ "(" ++ ",".intercalate (args.map renderKV) ++ ")"

def renderInput (a : Aux) (name : String) (args : List KV) : String :=
  "{" ++ ",".intercalate ((goFieldsOf a name).zipWith (fun f v => f ++ ":" ++ renderKV v) args) ++ "}"

def multiCall (a : Aux) (name : String) (argss : List (List KV)) : String :=
  goNameOf a name ++ "([" ++ ",".intercalate (argss.map (renderInput a name)) ++ "])"

def applyOp (op : String) (extra : String) (es : List (Option String)) : List (Option String) :=
  if op.startsWith "drop:" then
    let p := (op.drop 5).toNat!
    if es.isEmpty then es else
    let p := p % es.length
    es.take p ++ es.drop (p + 1)
  else if op == "extra" then es ++ [some extra]
  else if op == "rev" then es.reverse
  else if op == "empty" then []
  else es

def userOf (a : Aux) (p : Plan) : User :=
  { single := fun name args =>
      let o := planLookup p (args.map renderKV)
      match o.kind with
      | "error" => .err o.msg
      | "panic" => .panic o.msg
      | "nil" => if a.noptr then .value (singleCall a name args) else .nil
      | _ => .value (singleCall a name args),
    multi := fun name argss =>
      let ocs := argss.map fun args => planLookup p (args.map renderKV)
      let es := (argss.zip ocs).map fun (args, o) =>
        if o.kind == "nil" then none else some (goNameOf a name ++ "(" ++ renderInput a name args ++ ")")
      match ocs.find? fun o => o.kind == "error" || o.kind == "panic" with
      | some o => if o.kind == "panic" then .panic o.msg else .err o.msg
      | none =>
        let op := ((ocs.find? fun o => o.op != "").map (·.op)).getD ""
        .values (applyOp op (goNameOf a name ++ "(extra)") es),
    populate := fun _ ent rep =>
      match popFault rep with
      | ("error", m) => .err m
      | ("panic", m) => .panic m
      | _ => if ent.isNil then .ok ent else .ok { ent with echo := some (renderJV (.obj rep)) } }

/-! entity-resolver calls the generated code is expected to make (replays the model's own steps) -/

def taskCalls (a : Aux) : Task → List String
  | .single ty _ rep =>
    match a.cfg.find ty with
    | none => []
    | some e =>
      if e.resolvers.isEmpty || e.multi then [] else
      match selectResolver e rep with
      | .error _ => []
      | .ok r =>
        match keyArgs rep (fun _ _ m => m) r.keys 0 with
        | .error _ => []
        | .ok args => [singleCall a r.name args]
  | .multi ty reps =>
    match a.cfg.find ty, reps with
    | some e, (_, rep0) :: _ =>
      match selectResolver e rep0 with
      | .error _ => []
      | .ok r =>
        match typedReps r reps with
        | .error _ => []
        | .ok argss => [multiCall a r.name argss]
    | _, _ => []

/-! rendering a result as the response the probe query selects -/

def kvJson : KV → Json
  | .str s => .str s
  | .int n => .num (JsonNumber.fromInt n)
  | .nil => .null

def dedup (l : List String) : List String := l.foldl (fun acc x => if acc.contains x then acc else acc ++ [x]) []

/-- (object or null, field errors) of element `i` -/
def elemJson (a : Aux) (reps : List Rep) (i : Nat) (c : Option Ent) : Json × List (String × String) :=
  match c with
  | none => (.null, [])
  | some e =>
    if e.isNil then (.null, []) else
    match a.ents.find? fun x => x.name == e.ty with
    | none => (.null, [])
    | some ea =>
      let rep := reps.getD i []
      let base : List (String × Json) := [("__typename", .str e.ty)]
      let tag := if ea.fields.contains "tag" then [("tag", Json.str e.tag)]
        else if ea.carrier != "" then [(ea.carrier, Json.str e.tag)] else []
      let echo := if ea.fields.contains "reqEcho" then
        [("reqEcho", match e.echo with | some s => Json.str s | none => .null)] else []
      let look (p : List String) : Json := match e.req.lookup p with | some v => kvJson v | none => .null
      let flat := (ea.requires.filter fun p => p.length == 1).map fun p => (p.headD "", look p)
      let heads := dedup ((ea.requires.filter fun p => p.length == 2).map fun p => p.headD "")
      let nested := heads.map fun h =>
        (h, Json.mkObj ((ea.requires.filter fun p => p.length == 2 && p.headD "" == h).map fun p =>
          (p.getD 1 "", look p)))
      let comp : List ((String × Json) × List (String × String)) := ea.reqFields.map fun f =>
        if a.cfg.computedRequires then
          match popFault rep with
          | ("error", m) => ((f, Json.null), [(s!"_entities/{i}/{f}", m)])
          | ("panic", m) => ((f, Json.null), [(s!"_entities/{i}/{f}", "panic: " ++ m)])
          | _ => ((f, Json.str (f ++ "(" ++ e.tag ++ "|" ++ renderJV (.obj rep) ++ ")")), [])
        else ((f, Json.null), [])
      (Json.mkObj (base ++ tag ++ echo ++ flat ++ nested ++ comp.map (·.1)), comp.flatMap (·.2))

def stJson (a : Aux) (reps : List Rep) (s : St) (calls : List String) : Json :=
  let els := (s.list.zipIdx).map fun (c, i) => elemJson a reps i c
  let errs := s.errs.map (fun m => ("_entities", m)) ++ els.flatMap (·.2)
  Json.mkObj [("data", Json.arr (els.map (·.1)).toArray),
    ("errors", Json.arr (errs.map fun (p, m) => Json.arr #[.str p, .str m]).toArray),
    ("calls", Json.arr (calls.map Json.str).toArray)]

/-- facts about the batch groups of a case, to classify deviations of the generated code from the Spec -/
def groupFacts (a : Aux) (u : User) (reps : List Rep) : Json :=
  let gs := (groupsOf reps).filter fun g => a.cfg.isMulti g.1
  Json.arr (gs.map fun (ty, rs) =>
    let e := (a.cfg.find ty).getD default
    let sel (rep : Rep) : String := match selectResolver e rep with | .ok r => r.name | .error _ => "!"
    let first := match rs with | (_, r) :: _ => sel r | [] => "!"
    let mixed := rs.any fun (_, r) => sel r != first
    let lenMismatch := match selectResolver e ((rs.headD (0, [])).2) with
      | .ok r => match typedReps r rs with
        | .ok argss => match u.multi r.name argss with
          | .values es => es.length != rs.length
          | _ => false
        | _ => false
      | _ => false
    -- same length but not the entities of the inputs in order: the user broke the batch contract undetectably
    let reordered := match selectResolver e ((rs.headD (0, [])).2) with
      | .ok r => match typedReps r rs with
        | .ok argss => match u.multi r.name argss with
          | .values es => es.length == rs.length &&
              es != argss.map fun a => match u.multi r.name [a] with | .values [x] => x | _ => none
          | _ => false
        | _ => false
      | _ => false
    -- the user's batch resolver itself failed (error / panic): by design the failure of the whole group
    let userFault := match selectResolver e ((rs.headD (0, [])).2) with
      | .ok r => match typedReps r rs with
        | .ok argss => match u.multi r.name argss with
          | .values _ => false
          | _ => true
        | _ => false
      | _ => false
    let eff := resolveMany a.cfg u ty rs
    Json.mkObj [("type", .str ty), ("indices", Json.arr (rs.map fun x => Json.num (JsonNumber.fromNat x.1)).toArray),
      ("mixedKeys", .bool mixed), ("lenMismatch", .bool lenMismatch), ("reordered", .bool reordered), ("userFault", .bool userFault), ("failed", .bool eff.2.isSome)]).toArray

def runCase (a : Aux) (j : Json) : String :=
  let reps := (arr j "reps").map repOf
  let u := userOf a (decodePlan j)
  let ts := tasks a.cfg reps
  let impl := entities a.cfg u reps
  -- a second, adversarial completion order must give the same result (sanity check of the model run itself)
  let impl' := runOrder a.cfg u reps ts.reverse
  let sp := spec a.cfg u reps
  let calls := ts.flatMap (taskCalls a)
  (Json.mkObj [("id", .str (str j "id")),
    ("impl", stJson a reps impl calls),
    ("spec", stJson a reps sp []),
    ("specElemErrors", Json.arr (reps.map fun r =>
        Json.arr ((specElem a.cfg u r).2.map Json.str).toArray).toArray),
    ("orderIndependent", .bool (impl.list == impl'.list)),
    ("groups", groupFacts a u reps)]).compress

end Driver.C20

partial def loop (h out : IO.FS.Stream) (st : IO.Ref (Option Driver.C20.Aux)) : IO Unit := do
  let line ← h.getLine
  if line.isEmpty then return ()
  let l := if line.back == '\n' then (line.dropEnd 1).toString else line
  if l.startsWith "cfg " then
    match Json.parse (l.drop 4).toString with
    | .ok j => st.set (some (Driver.C20.decodeCfg j)); out.putStrLn "ok"
    | .error e => out.putStrLn ("bad-cfg " ++ e)
  else if l.startsWith "case " then
    match (← st.get), Json.parse (l.drop 5).toString with
    | some a, .ok j => out.putStrLn (Driver.C20.runCase a j)
    | none, _ => out.putStrLn "no-cfg"
    | _, .error e => out.putStrLn ("bad-case " ++ e)
  else out.putStrLn "bad-op"
  loop h out st

def main : IO Unit := do
  let st ← IO.mkRef (none : Option Driver.C20.Aux)
  loop (← IO.getStdin) (← IO.getStdout) st
