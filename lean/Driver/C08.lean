import Driver.Util
import GqlgenVerif.Model.JsonString
import GqlgenVerif.Model.GoInt
import GqlgenVerif.Model.JsonFrame
import GqlgenVerif.Gen.IntCasts
open GqlgenVerif
namespace Driver.C08

def showExcept : Except String Int → String
  | .ok v => s!"ok {v}"
  | .error e => s!"err {e}"

/-- prefix-notation tree: n t f s<hex> i<int> a<k>,… o<k>,k<hex>,<node>,… -/
partial def parseNode : List String → Option (JV × List String)
  | [] => none
  | tok :: rest =>
    let body := (tok.drop 1).toString
    match tok.front with
    | 'n' => some (.null, rest)
    | 't' => some (.tru, rest)
    | 'f' => some (.fls, rest)
    | 's' => (unhex body).map fun b => (.str b, rest)
    | 'i' => body.toInt?.map fun i => (.int i, rest)
    | 'a' => do
      let n ← body.toNat?
      let rec goA (k : Nat) (toks : List String) (acc : List JV) : Option (List JV × List String) :=
        if k = 0 then some (acc.reverse, toks) else
        match parseNode toks with
        | some (v, r) => goA (k - 1) r (v :: acc)
        | none => none
      let (xs, r) ← goA n rest []
      pure (.arr xs, r)
    | 'o' => do
      let n ← body.toNat?
      let rec go (k : Nat) (toks : List String) (acc : List (Bytes × JV)) : Option (List (Bytes × JV) × List String) :=
        if k = 0 then some (acc.reverse, toks) else
        match toks with
        | kt :: r1 =>
          match unhex (kt.drop 1).toString, parseNode r1 with
          | some key, some (v, r) => go (k - 1) r ((key, v) :: acc)
          | _, _ => none
        | [] => none
      let (kvs, r) ← go n rest []
      pure (.obj kvs, r)
    | _ => none

/-- one line in, one line out -/
def step (line : String) : String :=
  match line.splitOn " " with
  | ["q", h] =>
    match unhex h with
    | some s => s!"{hex (writeQuoted s)} {if validUtf8 s then 1 else 0} {hex (sanitize s)}"
    | none => "bad-op"
  | ["chk", hin, hout] =>      -- Spec on the implementation's own output
    match unhex hin, unhex hout with
    | some s, some o =>
      if !validUtf8 o then "violates:not-utf8"
      else if decodeString o != some (sanitize s) then "violates:decode"
      else "ok"
    | _, _ => "bad-op"
  | ["i", n] =>
    match n.toInt? with
    | some i => ascii (Go.intDec i)
    | none => "bad-op"
  | ["chki", n, hout] =>
    match n.toInt?, unhex hout with
    | some i, some o => if Go.parseJsonInt o == some i then "ok" else "violates:int"
    | _, _ => "bad-op"
  | ["chkid", n, hout] =>
    match n.toInt?, unhex hout with
    | some i, some o =>
      if (decodeString o).bind Go.parseJsonInt == some i then "ok" else "violates:intid"
    | _, _ => "bad-op"
  | ["fr", t] =>
    match parseNode (t.splitOn ",") with
    | some (v, []) => hex (render v)
    | _ => "bad-op"
  | ["cast", arm, n] =>
    match n.toInt? with
    | some v =>
      match Gen.IntCasts.run arm v with
      | some r => showExcept r
      | none => "no-arm"
    | none => "bad-op"
  | _ => "bad-op"

end Driver.C08

def main : IO Unit := do
  Driver.loop (← IO.getStdin) (← IO.getStdout) Driver.C08.step
