import Driver.Util
import Std.Data.HashSet
import GqlgenVerif.Model.Ws
import GqlgenVerif.Model.WsSpec
/-!
Line-protocol driver for C11.

One input line = one output line of `go/harness/c11` (tab separated):
`<proto> <cfg> <steps…> \t F <frames…> \t S <snapshot> … \t Z <final snapshot>`.

Output: `member` when the observed frames / snapshots are producible by `Ws.fire` for that script
(a depth-first search over the interleavings of the model's internal steps between the scripted
environment actions, with the observed frame sequence as the pruning oracle), otherwise
`nonmember item=<furthest script item reached> frames=<most frames matched>`; followed by
` spec=<ok | violates:<what>>`, the property evaluated directly on what the implementation showed.
-/
open GqlgenVerif GqlgenVerif.Ws GqlgenVerif.Gen.WsTables
namespace Driver.C11

structure Snap where
  n : Nat
  ops : List (Nat × Bool × Bool)   -- tag, ctx done, handler finished
  cf : List Nat
  cc : String
  dup : Bool
  cwrite : Bool := false -- a concurrent frame write was detected on the socket
  hpanic : Bool := false -- some other unrequested panic in a goroutine of the connection
  miss : Bool := false   -- an operation ran under a context without the InitFunc's context / the init payload
  deriving Repr, Inhabited

inductive Item
  | env (a : Action) (barrier : Bool)
  | deliver (tag : Nat) (c : Cmd) (delivered : Bool) (barrier : Bool)
  | timeout (barrier : Bool)
  | snap (o : Snap)
  | cleanup                          -- the harness releases every operation and drops the client
  deriving Repr, Inhabited

/-- `tok` (a non-empty object) and `nul` (JSON null) are, for the transport's control flow, an object and
no payload: the model - like the property - lets nothing about stop / close depend on the init payload -/
def parsePayload : String → Payload
  | "num" => .num | "obj" => .obj | "tok" => .obj | "rej" => .rej | "sub" => .sub | "badq" => .badq | "pq" => .pq
  | _ => .none

def parseCmd : String → Cmd
  | "emit" => .emit | "adderr" => .adderr | "err" => .finish .err | "panic" => .finish .panic
  | _ => .finish .normal

def parseCfg (proto cfg : String) : Cfg :=
  let p := if proto = "tws" then Proto.tws else Proto.gqlws
  let has (c : Char) := cfg.toList.contains c
  let ticks := match p with
    | .gqlws => if has 'k' then [MT.keepAlive] else []
    | .tws => (if has 'o' then [MT.pong] else []) ++ (if has 'p' then [MT.ping] else [])
  { proto := p, ticks := ticks, stubborn := has 's', closeReason := has 'r', initTimeout := has 't' }

def kv (s : String) (key : String) : String :=
  match (s.splitOn " ").find? (fun t => t.startsWith (key ++ "=")) with
  | some t => (t.drop (key.length + 1)).toString
  | none => ""

def parseSnap (s : String) : Snap :=
  let ops := ((kv s "ops").splitOn ",").filterMap fun t =>
    match t.splitOn "/" with
    | [a, b, c] => some (a.toNat!, b == "1", c == "1")
    | _ => none
  let cf := ((kv s "cf").splitOn ",").filterMap fun t => t.toNat?
  { n := (kv s "n").toNat!, ops := ops, cf := cf, cc := kv s "cc", dup := (s.splitOn " ").contains "dupexec",
    miss := (s.splitOn " ").contains "ctxmiss",
    cwrite := (s.splitOn " ").contains "cwrite", hpanic := (s.splitOn " ").contains "hpanic" }

def parseItems (toks : List String) (snaps : List Snap) : List Item :=
  let rec go (toks : List String) (snaps : List Snap) (acc : List Item) : List Item :=
    match toks with
    | [] =>
      match snaps with
      | [mid, fin] => (Item.snap fin :: Item.cleanup :: Item.snap mid :: acc).reverse
      | _ => acc.reverse
    | t :: rest =>
      let race := t.endsWith "~"
      let t := if race then (t.dropEnd 1).toString else t
      let p := t.splitOn ":"
      match p with
      | ["?"] =>
        match snaps with
        | sn :: more => go rest more (.snap sn :: acc)
        | [] => go rest snaps acc
      | ["m", w, id, pl, tag] =>
        let id := if id = "-" then "" else id
        go rest snaps (.env (.clientSend (.msg w id (parsePayload pl) tag.toNat!)) (!race) :: acc)
      | ["g"] => go rest snaps (.env (.clientSend .garbage) (!race) :: acc)
      | ["a"] => go rest snaps (.env (.clientSend .eof) (!race) :: acc)
      | ["z"] => go rest snaps (.env (.clientSend .eof) (!race) :: acc)
      | ["sc"] => go rest snaps (.env .serverCancel (!race) :: acc)
      | ["it"] => go rest snaps (.timeout (!race) :: acc)
      | ["r", c, tag, d] => go rest snaps (.deliver tag.toNat! (parseCmd c) (d == "d") (!race) :: acc)
      | _ => go rest snaps acc
  go toks snaps []

def frameStr (w id info : String) : String := s!"{w}:{if id.isEmpty then "-" else id}:{info}"

structure Ctx where
  cfg : Cfg
  frames : Array String
  tickWires : List String
  /-- the script contains a step in which the client goes away without a settle before it is reached -/
  clientLeaves : Bool := false

/-- apply one model action; the frames it writes must be the next observed ones (unless the client is gone).
`drop`: a frame the server wrote when the client had already received everything it was ever going to see - the
client is about to leave abruptly and what is still in flight is lost with the socket (TCP delivers a prefix).
The search only lets that happen in a racing window: no settle point may be passed between such a frame and
the client's departure. -/
def apply (cx : Ctx) (a : Action) (s : State) (fi : Nat) (gone : Bool) (drop : Bool := false) :
    Option (State × Nat × Bool) :=
  match fire cx.cfg a s with
  | none => none
  | some s' =>
    let new := s'.trace.drop s.trace.length
    let rec chk (evs : List Ev) (fi : Nat) (drop : Bool) : Option (Nat × Bool) :=
      match evs with
      | [] => some (fi, drop)
      | .frame _ w id info :: rest =>
        if gone then chk rest fi drop
        else if drop then chk rest fi true
        else if cx.frames[fi]? == some (frameStr w id info) then chk rest (fi + 1) false
        else if fi == cx.frames.size && cx.clientLeaves then chk rest fi true
        else none
      | _ :: rest => chk rest fi drop
    (chk new fi drop).map fun (fi', d) => (s', fi', d)

def internalActions (s : State) : List Action :=
  [Action.recv, .sec, .readErr, .watch] ++ s.ops.flatMap fun o => if o.done then [] else [Action.opStep o.inst, .opCancel o.inst]

def stable (cx : Ctx) (s : State) : Bool :=
  (internalActions s).all fun a => (fire cx.cfg a s).isNone

def closeFuncs (s : State) : List Nat := s.trace.filterMap fun | .closeFunc c => some c | _ => none
def closeFrames (s : State) : List Nat := s.trace.filterMap fun | .closeFrame c => some c | _ => none

def snapOK (o : Snap) (s : State) (fi : Nat) (gone : Bool) : Bool :=
  let mops := (s.ops.map fun p => (p.tag, (p.cancelled || s.connCancelled), p.done)).mergeSort (fun a b => a.1 ≤ b.1)
  let cc := if gone then "gone" else match closeFrames s with
    | c :: _ => toString c
    | [] => "open"
  !o.dup && !o.miss && !o.cwrite && !o.hpanic && (gone || o.n == fi) && mops == o.ops && closeFuncs s == o.cf && (o.cc == cc)

structure Key where
  pos : Nat
  fi : Nat
  gone : Bool
  bar : Bool
  clean : Bool
  drop : Bool
  st : State
  deriving BEq, Hashable

structure Memo where
  seen : Std.HashSet Key := {}
  bestItem : Nat := 0
  bestFrames : Nat := 0
  fuel : Nat := 60000

/-- depth-first search.  `bar`: the previous script item asked for a settle, so the model must be
stable before the next item; `clean`: the harness is winding the session down (it hands `end` to every
operation that is still waiting). -/
partial def search (cx : Ctx) (items : Array Item) (pos : Nat) (s : State) (fi : Nat) (gone bar clean : Bool)
    (drop : Bool := false) : StateM Memo Bool := do
  let m ← get
  let drop := drop && !gone
  let key : Key := { pos, fi, gone, bar, clean, drop, st := s }
  if m.seen.contains key || m.fuel == 0 then return false
  set { m with seen := m.seen.insert key, fuel := m.fuel - 1,
               bestItem := max m.bestItem pos, bestFrames := max m.bestFrames fi }
  let isStable := stable cx s
  -- (1) the next script item (a settle point cannot be passed while written frames are still unseen)
  let mut ok := false
  if (!bar || isStable) && !(drop && bar) then
    if h : pos < items.size then
      match items[pos] with
      | .env a b =>
        let gone' := gone || (match a with | .clientSend .eof => true | _ => false)
        match apply cx a s fi gone drop with
        | some (s', fi', d) => ok ← search cx items (pos + 1) s' fi' gone' b clean d
        | none => pure ()
      | .deliver tag c d b =>
        if !d then ok ← search cx items (pos + 1) s fi gone b clean drop
        else
          match s.ops.find? (fun o => o.tag == tag && !o.done) with
          | some o =>
            match apply cx (.deliver o.inst c) s fi gone drop with
            | some (s', fi', d) => ok ← search cx items (pos + 1) s' fi' gone b clean d
            | none => pure ()
          | none => pure ()
      | .timeout b =>
        if cx.cfg.initTimeout && s.rpc == .awaitInit then
          match apply cx .initTimeout s fi gone drop with
          | some (s', fi', d) => ok ← search cx items (pos + 1) s' fi' gone b clean d
          | none => pure ()
        else ok ← search cx items (pos + 1) s fi gone b clean drop
      | .snap o =>
        if isStable && !drop && snapOK o s fi gone then ok ← search cx items (pos + 1) s fi gone true clean
      | .cleanup =>
        if !drop then
          match apply cx (.clientSend .eof) s fi gone with
          | some (s', fi', _) => ok ← search cx items (pos + 1) s' fi' true false true
          | none => pure ()
    else
      ok := isStable && (gone || (fi == cx.frames.size && !drop))
  if ok then return true
  -- (2) an internal step of the model
  let mut acts := internalActions s
  if clean then
    acts := acts ++ s.ops.flatMap fun o => if o.done then [] else [Action.deliver o.inst (.finish .normal)]
  if cx.cfg.initTimeout && s.rpc == .awaitInit then acts := acts ++ [.initTimeout]
  -- a ticker frame, only when the next observed frame is one
  if !gone then
    match cx.frames[fi]? with
    | some f => if cx.tickWires.any (fun w => f == frameStr w "" "-") then acts := acts ++ cx.cfg.ticks.map Action.tick
    | none => pure ()
  for a in acts do
    match apply cx a s fi gone drop with
    | some (s', fi', d) =>
      if ← search cx items pos s' fi' gone bar clean d then return true
    | none => pure ()
  return false

/-- "stopping an operation cancels its context": in every snapshot (taken in a settled state) an operation
that was started under an id for which the client sent a stop / complete afterwards has a cancelled context -
it was still registered (the stop cancels it) or it had ended (its epilogue cancels it) or the connection
was closed before (close cancels it). -/
def stopNotCancelled (cfg : Cfg) (items : List Item) : Option String :=
  let idx := items.zipIdx
  let norm (id : String) := if id.isEmpty then "-" else id
  let starts := idx.filterMap fun (it, i) => match it with
    | .env (.clientSend (.msg w id .sub tag)) _ =>
      if cfg.proto.toMessage w == some .start && cfg.proto.all.contains w then some (i, tag, norm id) else none
    | _ => none
  let stops := idx.filterMap fun (it, i) => match it with
    | .env (.clientSend (.msg w id _ _)) _ =>
      if cfg.proto.toMessage w == some .stop && cfg.proto.all.contains w then some (i, norm id) else none
    | _ => none
  idx.findSome? fun (it, k) => match it with
    | .snap o => o.ops.findSome? fun (tag, dn, _) =>
        if dn then none else
        starts.findSome? fun (ps, t, id) =>
          if t == tag && stops.any (fun (px, sid) => sid == id && ps < px && px < k) then
            some s!"violates:stopped-operation-context-not-cancelled:id={id}"
          else none
    | _ => none

/-- "every operation a client starts receives its results … and is then terminated": a start may only be
refused as a duplicate (connection closed with 4409, taking every operation with it) when an operation can be
registered under its id at that moment - i.e. the script contains an earlier start of the same id that carried a
valid subscription.  (`run` is the only place that closes with 4409, see `close_codes_tie`.) -/
def refusedWithoutDuplicate (cfg : Cfg) (items : List Item) (snaps : List Snap) : Option String :=
  if !(snaps.any fun sn => sn.cf.contains 4409 || sn.cc == "4409") then none else
  let starts := items.zipIdx.filterMap fun (it, i) => match it with
    | .env (.clientSend (.msg w id pl _)) _ =>
      if cfg.proto.toMessage w == some .start && cfg.proto.all.contains w then some (i, id, pl == Payload.sub) else none
    | _ => none
  if starts.any (fun (i, id, sub) => sub && starts.any (fun (j, id', _) => id' == id && i < j)) then none
  else some "violates:start-refused-as-duplicate-but-no-operation-was-registered-under-its-id"

/-- the property, evaluated directly on what the implementation showed for this script -/
def obsSpec (cfg : Cfg) (items : List Item) (frames : List String) (snaps : List Snap) (final : Option Snap) : String :=
  let parsed := frames.map fun f => match f.splitOn ":" with
    | [w, id, info] => (w, id, info)
    | _ => ("?", "-", "-")
  let dataW := (cfg.proto.fromMessage .data).join.getD "?"
  let errW := (cfg.proto.fromMessage .error).join.getD "?"
  let complW := (cfg.proto.fromMessage .complete).join.getD "?"
  let ackW := (cfg.proto.fromMessage .connectionAck).join.getD "?"
  let opFrame := fun (w : String) => w == dataW || w == errW || w == complW
  -- nothing of an operation before the ack
  if (snaps ++ final.toList).any (fun sn => sn.cwrite) then "violates:frames-written-concurrently" else
  if (snaps ++ final.toList).any (fun sn => sn.hpanic) then "violates:panic-in-connection-goroutine" else
  let beforeAck := parsed.takeWhile (fun f => f.1 != ackW)
  if beforeAck.any (fun f => opFrame f.1) then "violates:operation-frame-before-ack" else
  if snaps.any (fun sn => !sn.ops.isEmpty) && !(parsed.any (fun f => f.1 == ackW)) then "violates:operation-executed-before-ack" else
  -- the handshake: the first client message must be an init that the InitFunc accepts
  let firstMsg := items.findSome? fun
    | .env (.clientSend m) _ => some m
    | _ => none
  let initAccepted := match firstMsg with
    | some (.msg w _ pl _) => cfg.proto.toMessage w == some .init && cfg.proto.all.contains w && pl != .rej && pl != .num
    | _ => false
  if !initAccepted && snaps.any (fun sn => !sn.ops.isEmpty) then "violates:operation-executed-without-accepted-init" else
  if !initAccepted && parsed.any (fun f => opFrame f.1) then "violates:operation-frame-without-accepted-init" else
  let starts := items.filterMap fun
    | .env (.clientSend (.msg w id _ _)) _ => if cfg.proto.toMessage w == some .start then some (if id.isEmpty then "-" else id) else none
    | _ => none
  let ids := (parsed.filter (fun f => opFrame f.1)).map (·.2.1) |>.eraseDups
  let bad := ids.findSome? fun id =>
    let fs := (parsed.filter (fun f => f.2.1 == id && opFrame f.1))
    let nStart := (starts.filter (· == id)).length
    let spec := Spec.clientView dataW errW complW (fs.map fun f => (f.1, f.2.2)) nStart
    if spec == "ok" then none else some s!"violates:{spec}:id={id}"
  match bad with
  | some b => b
  | none =>
    -- the close callback never fires twice; once it has fired every operation context is cancelled
    if snaps.any (fun sn => sn.cf.length > 1) then "violates:close-callback-fired-twice"
    else if snaps.any (fun sn => !sn.cf.isEmpty && sn.ops.any (fun o => !o.2.1)) then
      "violates:operation-context-not-cancelled-after-close"
    else if snaps.any (fun sn => sn.dup) then "violates:operation-executed-twice"
    else if snaps.any (fun sn => sn.miss) then "violates:operation-context-without-init-context-or-payload"
    else
    match (stopNotCancelled cfg items).orElse (fun _ => refusedWithoutDuplicate cfg items (snaps ++ final.toList)) with
    | some v => v
    | none =>
    let tagId0 := items.filterMap fun
      | .env (.clientSend (.msg w id .sub tag)) _ =>
        if cfg.proto.toMessage w == some .start then some (tag, id) else none
      | _ => none
    -- an id names one running operation
    if snaps.any (fun sn =>
        let liveIds := sn.ops.filterMap fun (tag, _, fin) => if fin then none else tagId0.lookup tag
        liveIds.length != liveIds.eraseDups.length) then "violates:two-operations-running-under-one-id"
    else
    -- an operation whose resolver has finished on an open socket has been answered by error and/or complete
    let tagId := items.filterMap fun
      | .env (.clientSend (.msg w id .sub tag)) _ =>
        if cfg.proto.toMessage w == some .start then some (tag, if id.isEmpty then "-" else id) else none
      | _ => none
    let unterminated := snaps.getLast?.bind fun mid =>
      if !mid.cf.isEmpty || mid.cc != "open" then none else
      mid.ops.findSome? fun (tag, _, fin) =>
        if !fin then none else
        match tagId.lookup tag with
        | none => none
        | some id =>
          let mine := parsed.filter (fun f => f.2.1 == id)
          let terminated := mine.any fun f =>
            (f.1 == complW) || (f.1 == errW && (f.2.2.splitOn "+").any (fun p => p == s!"E{tag}" || p == s!"P{tag}"))
          -- a complete frame cannot be attributed to a tag: require at least as many terminations as finished operations
          let nFin := (mid.ops.filter fun (t, _, f) => f && tagId.lookup t == some id).length
          let nTerm := (mine.filter fun f => f.1 == complW).length +
            (mine.filter fun f => f.1 == errW).length
          if terminated && nTerm ≥ nFin then none else some s!"violates:finished-operation-without-error-or-complete:id={id}"
    match unterminated with
    | some u => u
    | none =>
    match final with
    | some z =>
      if z.cf.length != 1 then s!"violates:close-callback-count={z.cf.length}"
      else if z.ops.any (fun o => !o.2.1) then "violates:operation-context-not-cancelled-after-close"
      else if z.dup then "violates:operation-executed-twice"
      else "ok"
    | none => "ok"

def step (line : String) : String :=
  match line.splitOn "\t" with
  | script :: fr :: rest =>
    let toks := (script.splitOn " ").filter (· ≠ "")
    match toks with
    | proto :: cfgS :: steps =>
      let cfg := parseCfg proto cfgS
      let frames := ((fr.drop 2).toString.splitOn " ").filter (fun t => t ≠ "" && t ≠ "-")
      let snaps := rest.map fun r => parseSnap (r.drop 2).toString
      let nq := (steps.filter (· == "?")).length
      if snaps.length != nq + 2 then "bad-line" else
      let (qs, tail) := (snaps.take nq, snaps.drop nq)
      let items := parseItems steps (qs ++ tail)
      -- parseItems consumes the `?` snapshots in order and leaves [mid, final] for the end
      let tickWires := cfg.ticks.filterMap fun t => (cfg.proto.fromMessage t).join
      let clientLeaves := items.any fun
        | .env (.clientSend .eof) _ => true
        | _ => false
      let cx : Ctx := { cfg, frames := frames.toArray, tickWires, clientLeaves }
      let (ok, memo) := (search cx items.toArray 0 State.initial 0 false false false).run {}
      let spec := obsSpec cfg items frames (qs ++ tail.take 1) tail.getLast?
      let verdict := if ok then "member" else
        s!"nonmember item={memo.bestItem} frames={memo.bestFrames}{if memo.fuel == 0 then " fuel-exhausted" else ""}"
      s!"{verdict} spec={spec}"
    | _ => "bad-line"
  | _ => "bad-line"

end Driver.C11

def main : IO Unit := do
  Driver.loop (← IO.getStdin) (← IO.getStdout) Driver.C11.step
