import Driver.Util
/-! Line-protocol driver for C11 (not built yet). -/
namespace Driver.C11
def step (_line : String) : String := "bad-op"
end Driver.C11

def main : IO Unit := do
  Driver.loop (← IO.getStdin) (← IO.getStdout) Driver.C11.step
