import GqlgenVerif.Model.Pipeline
import GqlgenVerif.Model.PipelineSpec
import GqlgenVerif.Model.SuggRace
import GqlgenVerif.Model.PipelineGuards
/-! Line-protocol driver for C03 (stateful: query table, global rule list, current session).

```
Q <key> -|<nField>:<nOther>:<sugg>:<ops> [<ntok>]   ops = -|name/q|s/roots;…   roots = -|n.n.…   name _ = anonymous
                                                ntok = tokens the parser consumes for the text (default 0)
G reset                                         global rule list := initial
S none|map|lru<N> <disable 0|1> -|id:FLAGS,… [<limit>]   FLAGS ⊆ PCORTF   new executor, empty cache,
                                                SetParserTokenLimit(limit) (default / 0 = none): model and Spec
                                                see `World.withLimit` (a text over the limit has no document)
R <q> <op|_> <vars bits|-> <pmrej|-> <pmrw id>q,…|-> <cmrej|-> <blk|-> <xerr> <emit> <polls>
    → <ok|rej> <resps> <log> #<gate> <rules>
C <the ten R fields> <ok|rej> <resps> <log>     Spec.ok of an observation (state unchanged) → ok | violates:…
W <atomic 0|1> <g> <n> <schedule i.i.i…>                     Race.exec: → seen lists of all threads + global
```
-/
open GqlgenVerif GqlgenVerif.Pipeline
namespace Driver.C03

inductive Sess where
  | no (c : Unit)
  | map (c : Apq.MapState Doc Nat)
  | lru (c : Apq.Lru Doc Nat)

structure DState where
  table : List (Nat × Option Doc) := []
  ntoks : List (Nat × Nat) := []
  limit : Nat := 0
  rules : Rules := initRules
  cfg : Cfg := { exts := [] }
  sess : Sess := .no ()

def world0 (t : List (Nat × Option Doc)) : World :=
  { parse := fun k => (t.find? (·.1 == k)).bind (·.2) }

/-- gqlparser as classified by the oracle, under the session's token limit -/
def worldOf (st : DState) : World :=
  (world0 st.table).withLimit (fun k => ((st.ntoks.find? (·.1 == k)).map (·.2)).getD 0) st.limit

def splitNonEmpty (s : String) (sep : String) : List String :=
  if s == "-" || s == "" then [] else s.splitOn sep

def natList (s : String) (sep : String := ",") : Option (List Nat) :=
  (splitNonEmpty s sep).mapM (·.toNat?)

def parseOp (s : String) : Option OpDef :=
  match s.splitOn "/" with
  | [n, k, rs] => do
    let roots ← natList rs "."
    pure { name := if n == "_" then "" else n, sub := k == "s", roots := roots }
  | _ => none

def parseDoc (key : Nat) (s : String) : Option (Option Doc) :=
  if s == "-" then some none else
  match s.splitOn ":" with
  | [nf, no, sg, ops] => do
    let nf ← nf.toNat?
    let no ← no.toNat?
    let ops ← (splitNonEmpty ops ";").mapM parseOp
    pure (some { id := key, ops := ops, nField := nf, nOther := no, sugg := sg == "1" })
  | _ => none

def parseExt (s : String) : Option Ext :=
  match s.splitOn ":" with
  | [i, fl] => do
    let i ← i.toNat?
    let has := fun (c : Char) => fl.toList.contains c
    pure { id := i, pm := has 'P', cm := has 'C', op := has 'O', resp := has 'R', root := has 'T', field := has 'F' }
  | _ => none

def parsePair (s : String) : Option (Nat × Nat) :=
  match s.splitOn ">" with
  | [a, b] => do pure (← a.toNat?, ← b.toNat?)
  | _ => none

def parseReq : List String → Option Req
  | [q, op, vars, pmrej, pmrw, cmrej, blk, xerr, emit, polls] => do
    let q ← q.toNat?
    let pmrej ← natList pmrej
    let pmrw ← (splitNonEmpty pmrw ",").mapM parsePair
    let cmrej ← natList cmrej
    let blk ← natList blk
    let emit ← emit.toNat?
    let polls ← polls.toNat?
    pure { q := q, opName := if op == "_" then "" else op,
           varsOk := (if vars == "-" then [] else vars.toList.map (· == '1')),
           pmReject := pmrej, pmRewrite := pmrw, cmReject := cmrej, opBlock := blk,
           execErr := xerr == "1", nEmit := emit, polls := polls }
  | _ => none

def showPath (p : Path) : String := ".".intercalate (p.map toString)

def kindCh : Kind → String
  | .op => "O" | .resp => "R" | .root => "T" | .field => "F"

def showEv : Ev → String
  | .pm i => s!"pm{i}"
  | .cm i => s!"cm{i}"
  | .enter k i p => s!"{kindCh k}+{i}" ++ (if p.isEmpty then "" else "@" ++ showPath p)
  | .exit k i p => s!"{kindCh k}-{i}" ++ (if p.isEmpty then "" else "@" ++ showPath p)
  | .exec => "X"
  | .dir p => "D@" ++ showPath p
  | .res p => "V@" ++ showPath p
  | .cget q h => s!"g{q}" ++ (if h then "h" else "m")
  | .cadd q => s!"a{q}"

def showLog (l : List Ev) : String := if l.isEmpty then "-" else ",".intercalate (l.map showEv)

def showGate : Gate → String
  | .pm i => s!"pm{i}" | .parse => "P" | .noOperation => "N" | .validation => "V"
  | .opNotFound => "S" | .variables => "A" | .cm i => s!"cm{i}"

def showCode : Code → String
  | .none => "-" | .gate g => showGate g | .blocked i => s!"blk{i}" | .execErr => "X"

def showResp : Option Resp → String
  | none => "nil"
  | some r => s!"d{if r.hasData then 1 else 0}e{r.nErrors}c{showCode r.code}s{if r.sugg then 1 else 0}"

def showResps (l : List (Option Resp)) : String := if l.isEmpty then "-" else ";".intercalate (l.map showResp)

def showRule : Rule → String
  | .foct => "f" | .ws => "w" | .other => "o"

def showRules (l : Rules) : String := if l.isEmpty then "-" else String.join (l.map showRule)

def parseRules (s : String) : Option Rules :=
  if s == "-" then some [] else
  s.toList.mapM fun c => if c == 'f' then some Rule.foct else if c == 'w' then some .ws else if c == 'o' then some .other else none

/-! parsing an observation back (for `C`) -/

def parsePath (s : String) : Option Path := natList s "."

def parseKind (c : Char) : Option Kind :=
  if c == 'O' then some .op else if c == 'R' then some .resp else if c == 'T' then some .root
  else if c == 'F' then some .field else none

def parseEv (s : String) : Option Ev :=
  let (hd, path) := match s.splitOn "@" with
    | [a, b] => (a, b)
    | _ => (s, "-")
  do
    let p ← parsePath path
    if hd == "X" then pure .exec
    else if hd == "D" then pure (.dir p)
    else if hd == "V" then pure (.res p)
    else if hd.startsWith "pm" then pure (.pm (← (hd.drop 2).toString.toNat?))
    else if hd.startsWith "cm" then pure (.cm (← (hd.drop 2).toString.toNat?))
    else if hd.startsWith "g" then
      let body := (hd.drop 1).toString
      let n ← (body.dropRight 1).toNat?
      pure (.cget n (body.back == 'h'))
    else if hd.startsWith "a" then pure (.cadd (← (hd.drop 1).toString.toNat?))
    else
      let k ← parseKind hd.front
      let i ← (hd.drop 2).toString.toNat?
      if (hd.drop 1).toString.front == '+' then pure (.enter k i p)
      else if (hd.drop 1).toString.front == '-' then pure (.exit k i p)
      else none

def parseGate (s : String) : Option Gate :=
  if s == "P" then some .parse else if s == "N" then some .noOperation else if s == "V" then some .validation
  else if s == "S" then some .opNotFound else if s == "A" then some .variables
  else if s.startsWith "pm" then (s.drop 2).toString.toNat?.map .pm
  else if s.startsWith "cm" then (s.drop 2).toString.toNat?.map .cm
  else none

def parseCode (s : String) : Option Code :=
  if s == "-" then some .none else if s == "X" then some .execErr
  else if s.startsWith "blk" then (s.drop 3).toString.toNat?.map .blocked
  else (parseGate s).map .gate

/-- d<0|1>e<n>c<code>s<0|1> -/
def parseResp (s : String) : Option (Option Resp) :=
  if s == "nil" then some none else
  match (s.drop 1).toString.splitOn "e" with
  | d :: rest =>
    let rest := "e".intercalate rest
    match rest.splitOn "c" with
    | n :: cs =>
      let cs := "c".intercalate cs
      -- the last two characters are s<0|1>
      let code := cs.dropRight 2
      do
        let n ← n.toNat?
        let c ← parseCode code
        pure (some { hasData := d == "1", nErrors := n, code := c, sugg := cs.back == '1' })
    | _ => none
  | _ => none

def runSess (W : World) (cfg : Cfg) (rules : Rules) (r : Req) : Sess → Out × Sess × Rules
  | .no c => let (o, s) := run W Apq.noCache cfg ⟨c, rules⟩ r; (o, .no s.cache, s.rules)
  | .map c => let (o, s) := run W Apq.mapCache cfg ⟨c, rules⟩ r; (o, .map s.cache, s.rules)
  | .lru c => let (o, s) := run W Apq.lruCache cfg ⟨c, rules⟩ r; (o, .lru s.cache, s.rules)

def gateTag : Option Gate → String
  | none => "ok"
  | some g => showGate g

def step (st : DState) (line : String) : DState × String :=
  match line.splitOn " " with
  | "Q" :: k :: d :: rest =>
    match k.toNat?, (match rest with | [] => some 0 | [n] => n.toNat? | _ => none) with
    | some k, some nt =>
      match parseDoc k d with
      | some pd => ({ st with table := (k, pd) :: st.table, ntoks := (k, nt) :: st.ntoks }, "ok")
      | none => (st, "bad-op")
    | _, _ => (st, "bad-op")
  | ["G", "reset"] => ({ st with rules := initRules }, "ok")
  | "S" :: cache :: dis :: exts :: rest =>
    match (splitNonEmpty exts ",").mapM parseExt, (match rest with | [] => some 0 | [n] => n.toNat? | _ => none) with
    | some es, some lim =>
      let st := { st with limit := lim }
      let cfg : Cfg := { exts := es, disableSuggestion := dis == "1" }
      if cache == "none" then ({ st with cfg := cfg, sess := .no () }, "ok")
      else if cache == "map" then ({ st with cfg := cfg, sess := .map Apq.mapEmpty }, "ok")
      else if cache.startsWith "lru" then
        match (cache.drop 3).toString.toNat? with
        | some n => ({ st with cfg := cfg, sess := .lru (Apq.lruEmpty n) }, "ok")
        | none => (st, "bad-op")
      else (st, "bad-op")
    | _, _ => (st, "bad-op")
  | "R" :: rest =>
    match parseReq rest with
    | some r =>
      let (o, sess, rules) := runSess (worldOf st) st.cfg st.rules r st.sess
      ({ st with sess := sess, rules := rules },
        s!"{if o.gate.isNone then "ok" else "rej"} {showResps o.resps} {showLog o.log} #{gateTag o.gate} {showRules rules}")
    | none => (st, "bad-op")
  | "C" :: rest =>
    match parseReq (rest.take 10), rest.drop 10 with
    | some r, [_acc, resps, log] =>
      match (splitNonEmpty resps ";").mapM parseResp, (splitNonEmpty log ",").mapM parseEv with
      | some rs, some l =>
        let W := worldOf st
        if Spec.ok W st.cfg.exts r l rs then (st, "ok")
        else
          match Spec.accepts W st.cfg.exts r with
          | none =>
            if !(l.all (fun e => !e.isExecution)) then (st, "violates:rejected-request-executed")
            else (st, "violates:rejected-request-not-errors-only")
          | some op =>
            let (el, ers) := Spec.expected st.cfg.exts op r
            if l.filter (fun e => !e.isCache) ≠ el then
              (st, if l.any (·.isExecution) then "violates:hook-order-or-count" else "violates:accepted-request-not-executed")
            else (st, if rs ≠ ers then "violates:answers" else "violates:?")
      | _, _ => (st, "bad-obs")
    | _, _ => (st, "bad-op")
  | ["W", atm, g, n, sched] =>
    match parseRules g, n.toNat?, natList sched "." with
    | some g, some n, some sc =>
      let s := Race.exec (Race.start (atm == "1") g n) sc
      let seen := s.threads.map fun t => match t.seen with
        | some l => showRules l
        | none => "?"
      (st, s!"{",".intercalate seen} {showRules s.global}")
    | _, _, _ => (st, "bad-op")
  | _ => (st, "bad-op")

partial def loop (h out : IO.FS.Stream) (st : DState) : IO Unit := do
  let line ← h.getLine
  if line.isEmpty then return ()
  let l := if line.back == '\n' then line.dropRight 1 else line
  let (st', o) := step st l
  out.putStrLn o
  loop h out st'

end Driver.C03

def main : IO Unit := do
  Driver.C03.loop (← IO.getStdin) (← IO.getStdout) {}
