import Driver.Util
/-! Line-protocol driver for C03 (not built yet). -/
namespace Driver.C03
def step (_line : String) : String := "bad-op"
end Driver.C03

def main : IO Unit := do
  Driver.loop (← IO.getStdin) (← IO.getStdout) Driver.C03.step
