/-! Line-protocol helpers shared by the drivers (core Lean only). -/
namespace Driver

def hexNib (c : Char) : Option Nat :=
  if '0' ≤ c ∧ c ≤ '9' then some (c.toNat - 48)
  else if 'a' ≤ c ∧ c ≤ 'f' then some (c.toNat - 87)
  else if 'A' ≤ c ∧ c ≤ 'F' then some (c.toNat - 55)
  else none

partial def unhexAux : List Char → List Nat → Option (List Nat)
  | [], acc => some acc.reverse
  | a :: b :: r, acc =>
    match hexNib a, hexNib b with
    | some x, some y => unhexAux r ((x * 16 + y) :: acc)
    | _, _ => none
  | _, _ => none

/-- "-" is the empty byte string -/
def unhex (s : String) : Option (List Nat) :=
  if s = "-" then some [] else unhexAux s.toList []

def nib (n : Nat) : Char := if n < 10 then Char.ofNat (48 + n) else Char.ofNat (87 + n)

def hex (bs : List Nat) : String :=
  if bs.isEmpty then "-" else
  String.ofList (bs.flatMap fun b => [nib (b / 16 % 16), nib (b % 16)])

def ascii (bs : List Nat) : String := String.ofList (bs.map Char.ofNat)

def bytesOf (s : String) : List Nat := s.toUTF8.toList.map (·.toNat)

partial def loop (h : IO.FS.Stream) (out : IO.FS.Stream) (f : String → String) : IO Unit := do
  let line ← h.getLine
  if line.isEmpty then return ()
  let l := if line.back == '\n' then line.dropRight 1 else line
  out.putStrLn (f l)
  loop h out f

end Driver
