import Driver.Util
/-! Line-protocol driver for C19 (not built yet). -/
namespace Driver.C19
def step (_line : String) : String := "bad-op"
end Driver.C19

def main : IO Unit := do
  Driver.loop (← IO.getStdin) (← IO.getStdout) Driver.C19.step
