import Lean.Data.Json
import Driver.Util
import GqlgenVerif.Model.Rewrite
import GqlgenVerif.Model.RewriteSpec
import GqlgenVerif.Model.PruneWalk
/-!
Line-protocol driver for C19. Every input line is `<op> <json>`, the JSON being one observation of the Go
harness (go/harness/c19): `{layout, before:[file], schema:[obj], after:[file], names:[{name, goPrivate, goPublic, title}]}`
(`names`: what the real `templates.ToGoPrivate`, `templates.ToGo`, `cases.Title` return for each type name).

  regen <obs>  → JSON: the model's prediction of the regenerated files (methods, objects, reserved and
                 pruned imports, leftover text, how the WARNING block is written, lexical validity of the tail)
  chk <obs>    → JSON list of Spec violations of the implementation's own output (`[]` = property holds)
  gen          → the regenerated constants (Gen/RewriteOffsets.lean, Gen/PruneFacts.lean) as JSON
-/
open Lean GqlgenVerif.Rewrite GqlgenVerif.Gen.RewriteOffsets GqlgenVerif.PruneWalk
namespace Driver.C19

def str (j : Json) (k : String) : String := (j.getObjValAs? String k).toOption.getD ""
def boolD (j : Json) (k : String) (d : Bool) : Bool := (j.getObjValAs? Bool k).toOption.getD d
def arr (j : Json) (k : String) : List Json :=
  match j.getObjVal? k with
  | .ok (.arr a) => a.toList
  | _ => []
def txt (j : Json) (k : String) : Text := (str j k).toList

def toImport (j : Json) : Import := ⟨str j "alias", str j "path", str j "pkg"⟩

def toDecl (j : Json) : Decl :=
  { isFunc := str j "kind" == "func", tok := if str j "kind" == "func" then "" else str j "tok",
    recv := str j "recv", name := str j "name", doc := txt j "doc", specDoc := txt j "specDoc",
    namedV := str j "namedV", namedE := str j "namedE", hdr := txt j "hdr", inner := txt j "inner",
    hasBody := boolD j "hasBody" false, canon := txt j "canon" }

def toFile (j : Json) : File :=
  { name := str j "name", imports := (arr j "imports").map toImport, decls := (arr j "decls").map toDecl }

def toSels (j : Json) : List SelBase := (arr j "sels").map fun x => ⟨str x "name", boolD x "resolved" false⟩

def toAfter (j : Json) : Spec.AfterFile :=
  { file := toFile j, remaining := txt j "remaining", parseOK := boolD j "parseOK" false, sels := toSels j }

def toField (j : Json) : Field := ⟨str j "goName", str j "name", str j "file", boolD j "isResolver" false⟩
def toObj (j : Json) : Obj := ⟨str j "name", str j "file", (arr j "fields").map toField⟩

def toCfg (j : Json) : Cfg :=
  let tbl : List (String × Mangled) := (arr j "names").map fun n => (str n "name", ⟨str n "goPrivate", str n "goPublic", str n "title"⟩)
  { layout := if str j "layout" == "single" then .single else .follow, omitTemplateComment := boolD j "omitTemplateComment" false
    names := fun s => match tbl.find? (·.1 == s) with
      | some e => e.2
      | none => ⟨lcFirst s, ucFirst s, ucFirst s⟩ }

def s (t : Text) : Json := Json.str (String.ofList t)

def importJson (i : Import) : Json :=
  Json.mkObj [("alias", i.alias), ("path", i.path), ("local", printedLocal i)]

def methodJson (m : NewMethod) : Json :=
  Json.mkObj [("recv", m.recv), ("name", m.name), ("doc", s m.doc), ("namedV", m.namedV), ("namedE", m.namedE),
              ("impl", s m.impl), ("hasPrev", m.hasPrev)]

def modeOf (rem : Text) : String :=
  if rem == [] then "none"
  else match trailerMode with
    | .blockAlways => "block"
    | .lineWhenBlockEnd => if hasInfix blockEnd rem then "line" else "block"

def regen (j : Json) : Json :=
  let cfg := toCfg j
  let before := (arr j "before").map toFile
  let sch := (arr j "schema").map toObj
  let after := (arr j "after").map toAfter
  let out := regenerate cfg before sch
  Json.arr (out.map fun nf =>
    let used := match after.find? (·.file.name == nf.name) with
      | some a => usedNames a.sels   -- the walk of getUnusedImports as regenerated (Gen/PruneFacts)
      | none => []
    Json.mkObj [
      ("name", nf.name), ("hasRoot", nf.hasRoot),
      ("reserved", Json.arr (nf.imports.map importJson).toArray),
      ("pruned", Json.arr ((nf.imports.filter fun i => keepName used (printedLocal i)).map importJson).toArray),
      ("methods", Json.arr (nf.methods.map methodJson).toArray),
      ("objects", Json.arr (nf.objects.map Json.str).toArray),
      ("accessors", Json.arr (nf.objects.map fun o => Json.str (accessorName cfg o)).toArray),
      ("structs", Json.arr (nf.objects.map fun o => Json.str (structTypeName cfg o)).toArray),
      ("remaining", s nf.remaining),
      ("remMode", modeOf nf.remaining),
      ("validTail", validTail (trailer trailerMode nf.remaining))]).toArray

def violJson : Spec.Violation → Json
  | .notValidGo f => Json.mkObj [("kind", "not-valid-go"), ("file", f)]
  | .method r n w => Json.mkObj [("kind", "method"), ("recv", r), ("name", n), ("what", w)]
  | .importLost f a p => Json.mkObj [("kind", "import-lost"), ("file", f), ("alias", a), ("path", p)]
  | .unusedImport f a p => Json.mkObj [("kind", "unused-import"), ("file", f), ("alias", a), ("path", p)]
  | .declLost f i n => Json.mkObj [("kind", "decl-lost"), ("file", f), ("idx", i), ("name", n)]
  | .fileGone f => Json.mkObj [("kind", "file-gone"), ("file", f)]

def chk (j : Json) : Json :=
  let cfg := toCfg j
  let before := (arr j "before").map toFile
  let sch := (arr j "schema").map toObj
  let after := (arr j "after").map toAfter
  let bsels := (arr j "before").map fun f => (str f "name", toSels f)
  Json.arr ((Spec.violations cfg before bsels sch after).map violJson).toArray

def genJson : Json :=
  Json.mkObj [("bodyStartOff", bodyStartOff), ("bodyEndOff", bodyEndOff), ("skipCopied", skipCopied),
              ("skipToks", Json.arr (skipToks.map Json.str).toArray), ("declSep", declSep),
              ("trimRemaining", trimRemaining), ("trailerMode", toString (repr trailerMode)),
              ("aliasOmitRule", toString (repr aliasOmitRule)),
              ("lookupRecv", Json.arr #[toString (repr lookupRecvSingle), toString (repr lookupRecvFollow)]),
              ("markStruct", Json.arr #[toString (repr markStructSingle), toString (repr markStructFollow)]),
              ("lookupAccessor", Json.arr #[toString (repr lookupAccessorSingle), toString (repr lookupAccessorFollow)]),
              ("emitRecv", toString (repr emitRecv)), ("emitAccessor", toString (repr emitAccessor)),
              ("emitAccessorRet", toString (repr emitAccessorRet)), ("emitStruct", toString (repr emitStruct)),
              ("pruneParseFlags", Json.arr (GqlgenVerif.Gen.PruneFacts.parseFlags.map Json.str).toArray),
              ("pruneSkipResolvedBase", GqlgenVerif.Gen.PruneFacts.skipResolvedBase),
              ("pruneDropsUsed", GqlgenVerif.Gen.PruneFacts.dropsUsed),
              ("pruneNeverUnused", Json.arr (GqlgenVerif.Gen.PruneFacts.neverUnused.map Json.str).toArray),
              ("reserveCollisionKey", toString (repr GqlgenVerif.Gen.ReserveFacts.collisionKey)),
              ("reserveCollisionExempt", Json.arr (GqlgenVerif.Gen.ReserveFacts.collisionExempt.map Json.str).toArray),
              ("rewriterCacheForm", toString (repr GqlgenVerif.Gen.ReserveFacts.cacheForm))]

def step (line : String) : String :=
  let (op, rest) := match line.splitOn " " with
    | [] => ("", "")
    | o :: r => (o, " ".intercalate r)
  if op == "gen" then genJson.compress
  else match Json.parse rest with
    | .error e => "bad-json " ++ e
    | .ok j =>
      if op == "regen" then (regen j).compress
      else if op == "chk" then (chk j).compress
      else "bad-op"
end Driver.C19

def main : IO Unit := do
  Driver.loop (← IO.getStdin) (← IO.getStdout) Driver.C19.step
